SPECIFICATION Spec
CONSTANTS
  Crates = {"icu", "icu_provider", "icu_provider_adapters"}
  EntryCrates = {"icu", "icu_provider"}
  Urls = {"https://one.example/", "https://two.example/"}
  Segs = {"alpha", "beta"}
  MaxLen = 4
INVARIANTS ExactWins DefaultNext OtherCratesIrrelevant KindsSeparate
CHECK_DEADLOCK FALSE
