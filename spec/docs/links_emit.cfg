SPECIFICATION Spec
CONSTANTS
  Crates = {"icu", "icu_provider_adapters"}
  EntryCrates = {"icu", "icu_provider"}
  Urls = {"https://one.example/", "https://two.example/sub/"}
  Segs = {"alpha"}
  MaxLen = 5
INVARIANTS Emit
CHECK_DEADLOCK FALSE
