---- MODULE MC_DocLinks ----
EXTENDS DocLinks, Json
Emit == Done => PrintT(<<"CASE", ToJson([path |-> link.path, kind |-> link.kind, display |-> link.display, entries |-> entries,
                                         malformed |-> Malformed(link.path, link.kind),
                                         url |-> IF Malformed(link.path, link.kind) THEN "-" ELSE Url(entries, link.path, link.kind)])>>)
\* negative model: the method anchor for required trait methods (rustdoc uses #tymethod.)
AnchorBad(k) == IF k = "FnInTrait" THEN "#method." ELSE Anchor(k)
TraitMethodsDistinct == Done => (~Malformed(link.path, "FnInTrait") => AnchorBad("FnInTrait") # AnchorBad("DefaultFnInTrait"))
====
