------------------------------ MODULE DocLinks ------------------------------
(***************************************************************************)
(* Extension spec (no listed property): the URL a                          *)
(* #[diplomat::rust_link(path, Kind [, display])] attribute turns into     *)
(* (core/src/ast/docs.rs DocsUrlGenerator::gen_for_rust_link,              *)
(* Docs::to_markdown; tool/src/main.rs --docs-base-urls; book: docs.md).   *)
(*                                                                         *)
(* The reference is rustdoc's own URL scheme: an item lives on the page    *)
(* <module dirs>/<page kind>.<Name>.html, its members behind an anchor     *)
(* #<member kind>.<name>; a module is <dirs>/index.html.  A link's path is *)
(* crate :: module* :: item-segments, where the number of item segments is *)
(* fixed by the Kind (0 for Mod, 1 for free items, 2 for members, 3 for a  *)
(* field of an enum variant); the crate and modules in front may be left   *)
(* out (the first segment then doubles as the crate for the base URL), but *)
(* a path with fewer segments than the item itself needs names nothing     *)
(* (Malformed).                                                            *)
(* The base URL is chosen per crate: the entry `-u <crate>:<url>` for      *)
(* exactly that crate, else the default `-u *:<url>`, else docs.rs (which  *)
(* inserts <crate>/latest/).  The choice is a function of the SET of       *)
(* entries (never of their order or of any map iteration order).           *)
(***************************************************************************)
EXTENDS Naturals, Sequences, FiniteSets, TLC
Kinds == {"Struct", "StructField", "Enum", "EnumVariant", "EnumVariantField", "Trait", "FnInStruct", "FnInTypedef", "FnInEnum",
          "FnInTrait", "DefaultFnInTrait", "Fn", "Mod", "Constant", "AssociatedConstantInEnum", "AssociatedConstantInTrait",
          "AssociatedConstantInStruct", "Macro", "AssociatedTypeInEnum", "AssociatedTypeInTrait", "AssociatedTypeInStruct", "Typedef"}
\* how many trailing path segments belong to the item itself
ItemSegs(k) == IF k = "Mod" THEN 0
               ELSE IF k \in {"Struct", "Enum", "Trait", "Fn", "Macro", "Constant", "Typedef"} THEN 1
               ELSE IF k = "EnumVariantField" THEN 3 ELSE 2
\* the page the item (or the item's owner) is documented on
Page(k) == IF k \in {"Typedef", "FnInTypedef"} THEN "type."
           ELSE IF k \in {"Struct", "StructField", "FnInStruct", "AssociatedTypeInStruct", "AssociatedConstantInStruct"} THEN "struct."
           ELSE IF k \in {"Enum", "EnumVariant", "EnumVariantField", "FnInEnum", "AssociatedTypeInEnum", "AssociatedConstantInEnum"} THEN "enum."
           ELSE IF k \in {"Trait", "FnInTrait", "DefaultFnInTrait", "AssociatedTypeInTrait", "AssociatedConstantInTrait"} THEN "trait."
           ELSE IF k = "Fn" THEN "fn." ELSE IF k = "Constant" THEN "constant." ELSE IF k = "Macro" THEN "macro." ELSE "-"
\* the anchor of a member on its owner's page (a REQUIRED trait method is a `tymethod`, a provided one a `method`)
Anchor(k) == IF k \in {"FnInStruct", "FnInEnum", "DefaultFnInTrait", "FnInTypedef"} THEN "#method."
             ELSE IF k = "FnInTrait" THEN "#tymethod."
             ELSE IF k \in {"AssociatedTypeInStruct", "AssociatedTypeInEnum", "AssociatedTypeInTrait"} THEN "#associatedtype."
             ELSE IF k \in {"AssociatedConstantInStruct", "AssociatedConstantInEnum", "AssociatedConstantInTrait"} THEN "#associatedconstant."
             ELSE IF k \in {"EnumVariant", "EnumVariantField"} THEN "#variant."
             ELSE IF k = "StructField" THEN "#structfield." ELSE ""

\* ---- base URL ---------------------------------------------------------------------------------
\* entries: a set of [crate: name or "*", url]; at most one entry per name
EnsureSlash(u) == u        \* (strings cannot be inspected in TLC: URLs of the model all end in "/"; the replay also uses slash-less ones)
BaseFor(entries, crate) ==
  IF \E e \in entries : e.crate = crate THEN (CHOOSE e \in entries : e.crate = crate).url
  ELSE IF \E e \in entries : e.crate = "*" THEN (CHOOSE e \in entries : e.crate = "*").url
  ELSE "https://docs.rs/" \o crate \o "/latest/"

\* ---- the URL ----------------------------------------------------------------------------------
RECURSIVE Join(_, _)
Join(segs, sep) == IF segs = <<>> THEN "" ELSE Head(segs) \o sep \o Join(Tail(segs), sep)
Malformed(path, k) == Len(path) < (IF ItemSegs(k) = 0 THEN 1 ELSE ItemSegs(k))
Url(entries, path, k) ==
  LET n == Len(path)
      dirs == SubSeq(path, 1, n - ItemSegs(k))        \* the crate and the modules
      item == SubSeq(path, n - ItemSegs(k) + 1, n) IN
  BaseFor(entries, path[1]) \o Join(dirs, "/") \o
  (IF k = "Mod" THEN "index.html"
   ELSE Page(k) \o item[1] \o ".html" \o
        (IF ItemSegs(k) >= 2 THEN Anchor(k) \o item[2] ELSE "") \o
        (IF ItemSegs(k) = 3 THEN ".field." \o item[3] ELSE ""))

\* ---- the model: one link under one configuration -----------------------------------------------
CONSTANTS Crates,      \* crate names a link may start with
          EntryCrates, \* crate names a base-URL entry may be given for (some are proper prefixes of other crates' names)
          Urls,        \* base URLs an entry may carry
          Segs,        \* names of the other path segments
          MaxLen       \* longest path
VARIABLES link, entries, stage
vars == <<link, entries, stage>>
PathsOf(c) == UNION {{<<c>> \o s : s \in [1..(n - 1) -> Segs]} : n \in 1..MaxLen}
Init == /\ stage = "choose" /\ link = [path |-> <<"x">>, kind |-> "Mod", display |-> "normal"] /\ entries = {}
Choose == /\ stage = "choose"
          /\ \E c \in Crates, k \in Kinds, d \in {"normal", "compact", "hidden"} : \E p \in PathsOf(c) :
                link' = [path |-> p, kind |-> k, display |-> d]
          /\ \E es \in SUBSET ([crate : EntryCrates \cup {"*"}, url : Urls]) :
                /\ \A e1, e2 \in es : e1.crate = e2.crate => e1 = e2
                /\ entries' = es
          /\ stage' = "done"
Next == Choose
Spec == Init /\ [][Next]_vars
Done == stage = "done"

\* ---- properties -------------------------------------------------------------------------------
WellFormed == Done /\ ~Malformed(link.path, link.kind)
\* the exact entry beats the default, the default beats docs.rs
ExactWins == WellFormed => \A e \in entries : e.crate = link.path[1] => BaseFor(entries, link.path[1]) = e.url
DefaultNext == WellFormed => ((\A e \in entries : e.crate # link.path[1]) =>
                                \A e \in entries : e.crate = "*" => BaseFor(entries, link.path[1]) = e.url)
\* an entry for ANOTHER crate never changes a link (also not for a crate whose name merely starts the same)
OtherCratesIrrelevant == WellFormed => \A e \in entries : (e.crate \notin {link.path[1], "*"}) =>
                                          Url(entries \ {e}, link.path, link.kind) = Url(entries, link.path, link.kind)
\* two links differ when their kinds put them on different pages or behind different anchors
KindsSeparate == WellFormed => \A k2 \in Kinds : (~Malformed(link.path, k2) /\ k2 # link.kind /\ Url(entries, link.path, k2) = Url(entries, link.path, link.kind))
                                  => /\ ItemSegs(k2) = ItemSegs(link.kind) /\ Page(k2) = Page(link.kind) /\ Anchor(k2) = Anchor(link.kind)
=============================================================================
