SPECIFICATION Spec
CONSTANTS
  Crates = {"icu"}
  EntryCrates = {"icu"}
  Urls = {"https://one.example/"}
  Segs = {"alpha"}
  MaxLen = 3
INVARIANTS TraitMethodsDistinct
CHECK_DEADLOCK FALSE
