SPECIFICATION Spec
CONSTANT Run <- MCRun
INVARIANTS NoCrashAfterLowering AcceptedBuilds
