SPECIFICATION SpecBad
CONSTANT Run <- MCRun
INVARIANTS NoCrashAfterLowering
