------------------------------ MODULE Pipeline ------------------------------
(***************************************************************************)
(* diplomat-tool as a pipeline of stages, one run per (program, backend,   *)
(* configuration):                                                         *)
(*   Start -> Lower (AST -> HIR with the backend's attribute validator)    *)
(*         -> Generate (backend run) -> Write files | Report errors        *)
(* and, for the outputs, Build steps by external compilers.                *)
(* The cross-stage properties of C09 / C15 are invariants of this machine; *)
(* Trace_Pipeline validates recorded runs of the real binary against it.   *)
(***************************************************************************)
EXTENDS Naturals, Sequences, FiniteSets
CONSTANTS Run            \* identifiers of runs
VARIABLES stage,         \* stage[r] : "start" | "lowered" | "rejected" | "generated" | "reported" | "crashed"
          built          \* built[r] : set of [file, tool, ok] build results recorded for the run's outputs
vars == <<stage, built>>
Init == stage = [r \in Run |-> "start"] /\ built = [r \in Run |-> {}]

\* lowering + validation succeeded for this backend's profile
LowerOk(r) == stage[r] = "start" /\ stage' = [stage EXCEPT ![r] = "lowered"] /\ UNCHANGED built
\* lowering reported errors (each with a Type / Type::method context) and the tool exited with status 1
LowerErr(r) == stage[r] = "start" /\ stage' = [stage EXCEPT ![r] = "rejected"] /\ UNCHANGED built
\* the input could not even be parsed into the AST (the proc macro / rustc would refuse it as well)
ParsePanic(r) == stage[r] = "start" /\ stage' = [stage EXCEPT ![r] = "rejected"] /\ UNCHANGED built
\* the backend ran to completion and wrote its files
GenFiles(r) == stage[r] = "lowered" /\ stage' = [stage EXCEPT ![r] = "generated"] /\ UNCHANGED built
\* the backend reported problems through its diagnostics list (status 1, nothing written)
GenErrors(r) == stage[r] = "lowered" /\ stage' = [stage EXCEPT ![r] = "reported"] /\ UNCHANGED built
\* an external tool compiled/parsed one generated file
Build(r, f, tool, ok) == /\ stage[r] = "generated"
                         /\ built' = [built EXCEPT ![r] = @ \cup {[file |-> f, tool |-> tool, ok |-> ok]}]
                         /\ UNCHANGED stage
\* NOTE: there is deliberately no action that takes a lowered run to "crashed": a panic, unreachable!,
\* unimplemented! or index error after successful lowering is not a behaviour of the specification.
Next == \E r \in Run : LowerOk(r) \/ LowerErr(r) \/ ParsePanic(r) \/ GenFiles(r) \/ GenErrors(r)
Spec == Init /\ [][Next]_vars

\* C15: once lowered, a run ends by writing files or reporting errors
NoCrashAfterLowering == \A r \in Run : stage[r] # "crashed"
Terminal(r) == stage[r] \in {"rejected", "generated", "reported"}
\* C09: whatever was generated builds
AcceptedBuilds == \A r \in Run : \A b \in built[r] : b.ok
=============================================================================
