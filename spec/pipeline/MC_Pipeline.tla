---- MODULE MC_Pipeline ----
EXTENDS Pipeline
MCRun == {"r1", "r2"}
\* negative model: a backend that can crash after lowering
Crash(r) == stage[r] = "lowered" /\ stage' = [stage EXCEPT ![r] = "crashed"] /\ UNCHANGED built
NextBad == Next \/ \E r \in Run : Crash(r)
SpecBad == Init /\ [][NextBad]_vars
====
