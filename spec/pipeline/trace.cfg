SPECIFICATION TSpec
CONSTANT Run <- TRun
INVARIANTS NoCrashAfterLowering AcceptedBuilds
POSTCONDITION Accepted
