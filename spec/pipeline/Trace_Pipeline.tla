--------------------------- MODULE Trace_Pipeline ---------------------------
(* Recorded runs of the real diplomat-tool binary (and of the external        *)
(* compilers on its outputs) must be behaviours of Pipeline.                  *)
(* Events: {ev:"Lower", run, ok, panic} {ev:"Generate", run, outcome} {ev:"Build", run, file, tool, ok} *)
EXTENDS Pipeline, Json, IOUtils, TLC
Rec == ndJsonDeserialize(IOEnv.TRACE)
TRun == {Rec[i].run : i \in 1..Len(Rec)}
VARIABLE l
IsEvent(e) == l <= Len(Rec) /\ Rec[l].ev = e /\ l' = l + 1
TInit == Init /\ l = 1
TLower == IsEvent("Lower") /\ (IF Rec[l].ok THEN LowerOk(Rec[l].run)
                               ELSE IF Rec[l].panic THEN ParsePanic(Rec[l].run) ELSE LowerErr(Rec[l].run))
TGenerate == IsEvent("Generate") /\
   CASE Rec[l].outcome = "files" -> GenFiles(Rec[l].run)
     [] Rec[l].outcome = "errors" -> GenErrors(Rec[l].run)
     [] OTHER -> FALSE                \* "panic": not a behaviour of Pipeline
TBuild == IsEvent("Build") /\ Build(Rec[l].run, Rec[l].file, Rec[l].tool, Rec[l].ok)
TNext == TLower \/ TGenerate \/ TBuild
TSpec == TInit /\ [][TNext]_<<vars, l>>
Accepted ==
  LET d == TLCGet("stats").diameter IN
  IF d - 1 = Len(Rec) THEN TRUE
  ELSE Print(<<"REJECTED", ToJson([index |-> d, event |-> Rec[d]])>>, FALSE)
=============================================================================
