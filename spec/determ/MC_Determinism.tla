---------------------------- MODULE MC_Determinism ----------------------------
EXTENDS Determinism, Json
MCBase == << [name |-> "ma", items |-> <<Item("type", "Alpha", 0), Item("impl", "Alpha", 1), Item("type", "Beta", 0),
                                          Item("impl", "Beta", 1), Item("impl", "Alpha", 2)>>],
             [name |-> "mb", items |-> <<Item("type", "Gamma", 0), Item("impl", "Gamma", 1)>>] >>
MCUnrelated == {"Uno", "Duo", "Work", "Ada", "Zen"}
MCUnrelatedSmall == {"Uno", "Work"}
\* "foreign_attr": an item carrying another crate's attribute that merely ENDS in `config` (only #[diplomat::config] is configuration)
\* "outer_attr": Diplomat attributes (rename, namespace) on the ORDINARY module that encloses the bridge module `mb`
MCNonBridge == {"free_fn", "same_named_struct", "same_named_impl", "plain_module", "constant", "foreign_attr", "outer_attr"}
\* negative model: also allow swapping two impl blocks of the same type
SwapAny(m, i) ==
  /\ Tick /\ m \in 1..Len(mods) /\ i \in 1..(Len(mods[m].items) - 1)
  /\ ~(mods[m].items[i].k = "type" /\ mods[m].items[i + 1].k = "impl" /\ mods[m].items[i].t = mods[m].items[i + 1].t)
  /\ mods' = [mods EXCEPT ![m].items = [@ EXCEPT ![i] = mods[m].items[i + 1], ![i + 1] = mods[m].items[i]]]
  /\ UNCHANGED extras /\ last' = [a |-> "SwapItems", m |-> m, i |-> i]
SpecBad == Init /\ [][Next \/ \E m \in 1..3, i \in 1..6 : SwapAny(m, i)]_vars
=============================================================================
