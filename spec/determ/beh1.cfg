SPECIFICATION HSpec
CONSTANTS
  BaseMods <- MCBase
  Unrelated <- MCUnrelated
  NonBridge <- MCNonBridge
  MaxSteps = 1
INVARIANTS Emit
