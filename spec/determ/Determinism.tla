----------------------------- MODULE Determinism -----------------------------
(***************************************************************************)
(* Output as a deterministic, order-independent, local function of the     *)
(* bridge (core/src/environment.rs, ast/modules.rs, tool/src/lib.rs,       *)
(* per-backend header/import sets).                                        *)
(*                                                                         *)
(* State: the source text as data -- a sequence of bridge modules, each a  *)
(* sequence of items (type declarations and impl blocks), plus the set of  *)
(* non-bridge items at the crate root and the set of "unrelated" types.    *)
(* Sem(src) is what a binding may depend on: for every type its            *)
(* declaration and the ordered list of its impl blocks.  Each edit action  *)
(* carries its frame condition; TLC checks that the guards of the actions  *)
(* (which swaps are allowed) are exactly strong enough for the frame       *)
(* conditions to hold of Sem, and the harness replays edit histories on    *)
(* the real tool, comparing output trees byte for byte.                    *)
(***************************************************************************)
EXTENDS Naturals, Sequences, FiniteSets, TLC
CONSTANTS BaseMods,     \* initial sequence of modules: <<[name, items]>>; item = [k: "type"|"impl", t, n]
          Unrelated,    \* types that may be inserted/removed; nothing references them
          NonBridge,    \* non-bridge items that may be added at the crate root
          MaxSteps
VARIABLES mods, extras, steps, last
vars == <<mods, extras, steps, last>>

Item(k, t, n) == [k |-> k, t |-> t, n |-> n]
AllItems(ms) == UNION {{ms[i].items[j] : j \in 1..Len(ms[i].items)} : i \in 1..Len(ms)}
TypesOf(ms) == {it.t : it \in {x \in AllItems(ms) : x.k = "type"}}
\* impl blocks of type t in source order: flatten modules in *name* order?  No: a type's impl blocks may sit in
\* several modules only if they are in the module that declares it; here every impl lives next to its type.
RECURSIVE Flat(_, _)
Flat(ms, i) == IF i > Len(ms) THEN <<>> ELSE ms[i].items \o Flat(ms, i + 1)
RECURSIVE ImplsIn(_, _)
ImplsIn(seq, t) == IF seq = <<>> THEN <<>>
                   ELSE (IF Head(seq).k = "impl" /\ Head(seq).t = t THEN <<Head(seq).n>> ELSE <<>>) \o ImplsIn(Tail(seq), t)
ModuleOf(ms, t) == CHOOSE i \in 1..Len(ms) : \E j \in 1..Len(ms[i].items) : ms[i].items[j] = Item("type", t, 0)
\* what the bindings of type t may depend on
Sem(ms) == [t \in TypesOf(ms) |-> ImplsIn(ms[ModuleOf(ms, t)].items, t)]

Init == mods = BaseMods /\ extras = {} /\ steps = 0 /\ last = [a |-> "init"]
Tick == steps < MaxSteps /\ steps' = steps + 1

\* running the tool again (a fresh process: different hash seeds) changes nothing
Rerun == Tick /\ UNCHANGED <<mods, extras>> /\ last' = [a |-> "Rerun"]

\* swapping two adjacent items of a module is an allowed edit iff it keeps every impl after its type and keeps
\* the relative order of the impl blocks of one type (method order is part of a type's definition)
SwapOK(a, b) == ~(a.k = "type" /\ b.k = "impl" /\ a.t = b.t) /\ ~(a.k = "impl" /\ b.k = "impl" /\ a.t = b.t)
SwapItems(m, i) ==
  /\ Tick /\ m \in 1..Len(mods) /\ i \in 1..(Len(mods[m].items) - 1)
  /\ SwapOK(mods[m].items[i], mods[m].items[i + 1])
  /\ mods' = [mods EXCEPT ![m].items = [@ EXCEPT ![i] = mods[m].items[i + 1], ![i + 1] = mods[m].items[i]]]
  /\ UNCHANGED extras /\ last' = [a |-> "SwapItems", m |-> m, i |-> i]
SwapModules(m) ==
  /\ Tick /\ m \in 1..(Len(mods) - 1)
  /\ mods' = [mods EXCEPT ![m] = mods[m + 1], ![m + 1] = mods[m]]
  /\ UNCHANGED extras /\ last' = [a |-> "SwapModules", m |-> m]
\* a type nothing references appears / disappears (with its impl block), at any position of any module
InsertUnrelated(u, m, i) ==
  /\ Tick /\ u \in Unrelated /\ u \notin TypesOf(mods) /\ m \in 1..Len(mods) /\ i \in 0..Len(mods[m].items)
  /\ mods' = [mods EXCEPT ![m].items = SubSeq(@, 1, i) \o <<Item("type", u, 0), Item("impl", u, 1)>> \o SubSeq(@, i + 1, Len(@))]
  /\ UNCHANGED extras /\ last' = [a |-> "InsertUnrelated", u |-> u, m |-> m, i |-> i]
RECURSIVE Without(_, _)
Without(seq, u) == IF seq = <<>> THEN <<>> ELSE (IF Head(seq).t = u THEN <<>> ELSE <<Head(seq)>>) \o Without(Tail(seq), u)
RemoveUnrelated(u) ==
  /\ Tick /\ u \in Unrelated /\ u \in TypesOf(mods)
  /\ mods' = [m \in 1..Len(mods) |-> [mods[m] EXCEPT !.items = Without(@, u)]]
  /\ UNCHANGED extras /\ last' = [a |-> "RemoveUnrelated", u |-> u]
\* code outside bridge modules
AddNonBridge(x) == Tick /\ x \in NonBridge \ extras /\ extras' = extras \cup {x} /\ UNCHANGED mods
                   /\ last' = [a |-> "AddNonBridge", x |-> x]
RemoveNonBridge(x) == Tick /\ x \in extras /\ extras' = extras \ {x} /\ UNCHANGED mods
                      /\ last' = [a |-> "RemoveNonBridge", x |-> x]

Next == \/ Rerun
        \/ \E m \in 1..3, i \in 1..6 : SwapItems(m, i)
        \/ \E m \in 1..2 : SwapModules(m)
        \/ \E u \in Unrelated, m \in 1..3, i \in 0..6 : InsertUnrelated(u, m, i)
        \/ \E u \in Unrelated : RemoveUnrelated(u)
        \/ \E x \in NonBridge : AddNonBridge(x) \/ RemoveNonBridge(x)
Spec == Init /\ [][Next]_vars

\* ---- frame conditions (C14) ------------------------------------------------------------------
\* Rerun, permutations and non-bridge edits leave the meaning of every type unchanged
GlobalFrame == [][last'.a \in {"Rerun", "SwapItems", "SwapModules", "AddNonBridge", "RemoveNonBridge"} => Sem(mods') = Sem(mods)]_vars
\* inserting / removing an unrelated type leaves every *other* type's meaning unchanged
LocalFrame == [][last'.a \in {"InsertUnrelated", "RemoveUnrelated"} =>
                   \A t \in TypesOf(mods) \cap TypesOf(mods') : Sem(mods')[t] = Sem(mods)[t]]_vars
\* structural sanity: every impl stays after its type
ImplAfterType == \A m \in 1..Len(mods) : \A j \in 1..Len(mods[m].items) :
   mods[m].items[j].k = "impl" => \E i \in 1..(j - 1) : mods[m].items[i] = Item("type", mods[m].items[j].t, 0)
=============================================================================
