SPECIFICATION Spec
CONSTANTS
  BaseMods <- MCBase
  Unrelated <- MCUnrelated
  NonBridge <- MCNonBridge
  MaxSteps = 3
INVARIANTS ImplAfterType
PROPERTIES GlobalFrame LocalFrame
