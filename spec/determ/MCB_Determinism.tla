---------------------------- MODULE MCB_Determinism ----------------------------
EXTENDS MC_Determinism
\* history for replay
VARIABLE hist
HInit == Init /\ hist = <<>>
HNext == Next /\ hist' = Append(hist, last')
HSpec == HInit /\ [][HNext]_<<vars, hist>>
Emit == steps = MaxSteps => PrintT(<<"BEH", ToJson(hist)>>)
=============================================================================
