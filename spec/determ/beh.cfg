SPECIFICATION HSpec
CONSTANTS
  BaseMods <- MCBase
  Unrelated <- MCUnrelated
  NonBridge <- MCNonBridge
  MaxSteps = 6
INVARIANTS Emit
