SPECIFICATION SpecBad
CONSTANTS
  BaseMods <- MCBase
  Unrelated <- MCUnrelated
  NonBridge <- MCNonBridge
  MaxSteps = 4
PROPERTIES GlobalFrame
