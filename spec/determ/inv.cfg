SPECIFICATION Spec
CONSTANTS
  BaseMods <- MCBase
  Unrelated <- MCUnrelated
  NonBridge <- MCNonBridge
  MaxSteps = 4
INVARIANTS ImplAfterType
PROPERTIES GlobalFrame LocalFrame
