------------------------------ MODULE MC_JsCall ------------------------------
EXTENDS JsCall, Json, TLC
\* emission of every method shape in scope with its plan
EmitInit == cs \in Case /\ heap = <<>> /\ phase = "marshal" /\ regs = 0 /\ fin = 0 /\ wst = "none" /\ oreg = 0 /\ odes = 0
EmitSpec == EmitInit /\ [][FALSE]_vars
Emit == PrintT(<<"CASE", ToJson([c |-> [abi |-> cs.abi, self |-> cs.self, params |-> cs.params, borrow |-> cs.borrow, ret |-> cs.ret, ok |-> cs.ok],
                                 nalloc |-> Len(Plan(cs)), regs |-> ExpectedRegs(cs), oregs |-> ExpectedOregs(cs),
                                 gc |-> Cardinality({i \in 1..Len(Plan(cs)) : Plan(cs)[i].cls = "gc"})])>>)
\* negative model: what the legacy-ABI code path does today -- slice buffers are put into no arena at all, so nothing ever
\* frees them: the machine gets stuck before "done"
FreeNever(p, sz, al) == FALSE
=============================================================================
