SPECIFICATION Spec
CONSTANTS
  PKinds = {"slice8", "prim"}
  RKinds = {"unit", "hold"}
  MaxParams = 1
  Free <- FreeNever
INVARIANTS NoLeak
CHECK_DEADLOCK TRUE
