SPECIFICATION TSpec
CONSTANTS
  PKinds <- AllPKinds
  RKinds <- AllRKinds
  MaxParams = 2
INVARIANTS Report
CHECK_DEADLOCK FALSE
