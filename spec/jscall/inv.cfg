SPECIFICATION Spec
CONSTANTS
  PKinds = {"slice8", "strs", "st", "opt", "prim"}
  RKinds = {"unit", "hold", "result", "write", "reshold", "out"}
  MaxParams = 2
INVARIANTS NoEarlyFree BorrowedOutlivesResult CallScopedGoneAtReturn NoLeak GcHasOwner
CHECK_DEADLOCK TRUE
