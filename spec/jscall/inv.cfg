SPECIFICATION Spec
CONSTANTS
  PKinds = {"slice8", "strs", "st", "opt", "prim"}
  RKinds = {"unit", "hold", "result", "write", "reshold", "out", "box", "optbox", "ref"}
  MaxParams = 2
INVARIANTS OpaqueOnce NoEarlyFree BorrowedOutlivesResult CallScopedGoneAtReturn NoLeak GcHasOwner
CHECK_DEADLOCK TRUE
