---------------------------- MODULE Trace_JsCall ----------------------------
(* Recorded node executions of generated JS methods (stub wasm module logging diplomat_alloc / diplomat_free / every export    *)
(* call, stub FinalizationRegistry logging registrations; real collector probed with --expose-gc) must be behaviours of        *)
(* JsCall.  One run per method shape; a Begin event names the shape and the plan is computed HERE from it.  A run whose next    *)
(* event no action of the spec allows is recorded in `bad` (with the event and the state it was refused in) and the validator   *)
(* resynchronises at the next Begin, so that one deviation does not hide the rest of the log.                                   *)
EXTENDS JsCall, Json, IOUtils, TLC
Rec == ndJsonDeserialize(IOEnv.TRACE)
VARIABLES l, bad
tvars == <<vars, l, bad>>
Range(f) == {f[i] : i \in DOMAIN f}
CaseOf(e) == [abi |-> e.abi, self |-> e.self, params |-> e.params, borrow |-> Range(e.borrow), ret |-> e.ret, ok |-> e.ok]
NoCase == [abi |-> "legacy", self |-> "none", params |-> <<>>, borrow |-> {}, ret |-> "unit", ok |-> TRUE]

TInit == cs = NoCase /\ heap = <<>> /\ phase = "done" /\ regs = 0 /\ fin = 0 /\ wst = "none" /\ oreg = 0 /\ odes = 0 /\ l = 1 /\ bad = <<>>
Begin(e) == /\ cs' = CaseOf(e) /\ heap' = <<>> /\ phase' = "marshal" /\ regs' = 0 /\ fin' = 0 /\ wst' = "none" /\ oreg' = 0 /\ odes' = 0
Step(e) ==
  CASE e.ev = "Alloc" -> Alloc(e.ptr, e.size, e.align)
    [] e.ev = "Free" -> Free(e.ptr, e.size, e.align)
    [] e.ev = "WriteCreate" -> WriteOpen
    [] e.ev = "WriteDestroy" -> WriteClose
    [] e.ev = "Register" -> Register
    [] e.ev = "Wasm" -> Call(Range(e.args), e.nonnum)
    [] e.ev = "WasmRet" -> Return
    [] e.ev = "MethodEnd" -> End(e.threw)
    [] e.ev = "GcProbe" -> Probe(e.alive)
    [] e.ev = "DropResult" -> DropResult
    [] e.ev = "Finalize" -> Finalize
    [] e.ev = "Quiesce" -> Quiesce
    [] e.ev = "RegisterOpaque" -> RegisterOpaque(e.ptr)
    [] e.ev = "Destroy" -> DestroyOpaque(e.ptr)
    [] OTHER -> FALSE
RECURSIVE NextBegin(_)
NextBegin(i) == IF i > Len(Rec) THEN i ELSE IF Rec[i].ev = "Begin" THEN i ELSE NextBegin(i + 1)
Strict == l <= Len(Rec) /\ Rec[l].ev # "Begin" /\ Step(Rec[l]) /\ l' = l + 1 /\ bad' = bad
TNext ==
  \/ l <= Len(Rec) /\ Rec[l].ev = "Begin" /\ Begin(Rec[l]) /\ l' = l + 1 /\ bad' = bad
  \/ Strict
  \/ /\ l <= Len(Rec) /\ Rec[l].ev # "Begin" /\ ~ENABLED Strict
     /\ bad' = Append(bad, [run |-> Rec[l].run, at |-> l, ev |-> Rec[l], phase |-> phase, nheap |-> Len(heap), nplan |-> Len(Plan(cs)),
                            regs |-> regs, want_regs |-> ExpectedRegs(cs), oreg |-> oreg, want_oreg |-> ExpectedOregs(cs),
                            next |-> IF Len(heap) < Len(Plan(cs)) THEN Plan(cs)[Len(heap) + 1] ELSE Ent(0, 0, "-", 0, FALSE),
                            live |-> {<<heap[i].size, heap[i].align, heap[i].cls>> : i \in {j \in 1..Len(heap) : Live(j)}}])
     /\ l' = NextBegin(l)
     /\ UNCHANGED vars
TSpec == TInit /\ [][TNext]_tvars
\* report at the end of the log
Report == (l > Len(Rec)) => PrintT(<<"BAD", ToJson(bad)>>)
Accepted == TLCGet("stats").diameter >= 1
=============================================================================
