SPECIFICATION EmitSpec
CONSTANTS
  PKinds <- AllPKinds
  RKinds <- AllRKinds
  MaxParams = 2
INVARIANTS Emit
CHECK_DEADLOCK FALSE
