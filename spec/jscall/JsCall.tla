------------------------------- MODULE JsCall -------------------------------
(***************************************************************************)
(* EXTENSION SPEC (outside the 17 listed properties): the wasm-heap and    *)
(* call discipline of one generated JS method (tool/templates/js/          *)
(* method.js.jinja, struct.js.jinja; runtime.mjs: DiplomatBuf,             *)
(* CleanupArena, GarbageCollectorGrip, DiplomatReceiveBuf,                 *)
(* DiplomatWriteBuf, optionTo*ForCalling; tool/src/js/gen.rs, converter.rs)*)
(*                                                                         *)
(* A method call marshals its arguments into buffers obtained from         *)
(* diplomat_alloc, calls the wasm export, reads the result and releases    *)
(* the buffers.  A buffer is CALL-scoped (released before the method       *)
(* returns, on the normal and on the throwing path) unless the returned    *)
(* value may borrow from it: then it is GC-scoped -- registered with a     *)
(* finalizer, kept reachable from the returned object, and released        *)
(* exactly once when that object is collected.  The wasm export must be    *)
(* handed the address of every buffer made for it.                         *)
(*                                                                         *)
(* The first half is the PLAN: which buffers a method of a given shape     *)
(* makes, in which order, with which size/alignment and scope, for the     *)
(* fixed argument values the conformance driver passes.  The second half   *)
(* is the machine that executes a plan; Trace_JsCall replays recorded node *)
(* executions of generated code through the same actions.                  *)
(***************************************************************************)
EXTENDS Naturals, Sequences, FiniteSets
CONSTANTS PKinds,       \* parameter kinds in scope (subset of AllPKinds)
          RKinds,       \* return kinds in scope
          MaxParams

Abi == {"legacy", "spec"}
\*  slice8 &[u8] [1,2,3] | slice64 &[f64] [1.5,2.5] | str8 &DiplomatStr "héllo" | str16 &DiplomatStr16 "hé"
\*  strs &[DiplomatStrSlice] ["ab","c"] | st Sl<'_> {s: DiplomatSlice<u8> [1,2], n: u8} | opt Option<u32> 7 | pl Pl {a: u8, b: u32} | prim u32
AllPKinds == {"slice8", "slice64", "str8", "str16", "strs", "st", "opt", "pl", "prim"}
SliceKinds == {"slice8", "slice64", "str8", "str16", "strs"}
Borrowable == {"slice8", "slice64", "str8", "str16", "st"}
\*  unit | prim u32 | hold Box<Hold<'a>> | out Pl | result Result<u32, Er> | opt Option<u16> | write (DiplomatWrite, returns string)
\*  reshold Result<Box<Hold<'a>>, Er> | box Box<Opq> (owned, borrows nothing) | optbox Option<Box<Opq>> | ref &'a Opq borrowed from &'a self
AllRKinds == {"unit", "prim", "hold", "out", "result", "opt", "write", "reshold", "box", "optbox", "ref"}
Borrowing == {"hold", "reshold"}
Fallible == {"result", "opt", "reshold", "optbox"}

ParamSeqs == UNION {[1..n -> PKinds] : n \in 0..MaxParams}
Case == {c \in [abi : Abi, self : {"none", "ref"}, params : ParamSeqs, borrow : SUBSET (1..MaxParams), ret : RKinds, ok : BOOLEAN] :
           /\ \A i \in c.borrow : i \in DOMAIN c.params /\ c.params[i] \in Borrowable
           /\ (c.ret \in Borrowing) <=> (c.borrow # {})           \* a borrowing return borrows from some parameter, and only then
           /\ (c.ret = "ref" => c.self = "ref")                    \* a returned reference borrows from the receiver
           /\ (c.ret \notin Fallible => c.ok)}                    \* the ok flag only matters for fallible returns

\* ---- the plan ---------------------------------------------------------------------------------
Ent(sz, al, cls, root, head) == [size |-> sz, align |-> al, cls |-> cls, root |-> root, head |-> head]
Cls(c, i) == IF i \in c.borrow THEN "gc" ELSE "call"
\* data buffers of a slice parameter, in allocation order (a list of strings: the (ptr,len) table first, then each string)
Data(k) == CASE k = "slice8" -> <<<<3, 1>>>> [] k = "slice64" -> <<<<16, 8>>>> [] k = "str8" -> <<<<6, 1>>>>
             [] k = "str16" -> <<<<4, 2>>>> [] k = "strs" -> <<<<16, 4>>, <<2, 1>>, <<1, 1>>>>
\* legacy ABI: (ptr, len) are two scalar arguments, the data buffer's address is passed;
\* spec ABI: an 8-byte {ptr, len} wrapper is allocated after the data and ITS address is passed
SliceEntries(c, i) ==
  LET k == c.params[i]  d == Data(k)  cl == Cls(c, i) IN
  [j \in 1..Len(d) |-> Ent(d[j][1], d[j][2], cl, i, c.abi = "legacy" /\ j = 1)]
  \o (IF c.abi = "spec" THEN <<Ent(8, 4, cl, i, TRUE)>> ELSE <<>>)
\* receive buffer for a return value that does not fit a scalar
RetEntries(c) == CASE c.ret = "out" -> <<Ent(8, 4, "call", 0, TRUE)>>
                   [] c.ret \in {"result", "reshold"} -> <<Ent(5, 4, "call", 0, TRUE)>>
                   [] c.ret = "opt" -> <<Ent(3, 2, "call", 0, TRUE)>>
                   [] OTHER -> <<>>
\* parameters marshalled while the argument list is evaluated
InArgEntries(c, i) ==
  LET k == c.params[i] IN
  CASE k = "st" -> IF c.abi = "spec" THEN <<Ent(12, 4, "call", i, TRUE), Ent(2, 1, Cls(c, i), i, FALSE)>>
                                     ELSE <<Ent(2, 1, Cls(c, i), i, TRUE)>>
    [] k \in {"opt", "pl"} -> IF c.abi = "spec" THEN <<Ent(8, 4, "call", i, TRUE)>> ELSE <<>>
    [] OTHER -> <<>>
RECURSIVE Concat(_, _, _)
Concat(F(_), i, n) == IF i > n THEN <<>> ELSE F(i) \o Concat(F, i + 1, n)
Plan(c) ==
  LET n == Len(c.params)
      S(i) == IF c.params[i] \in SliceKinds THEN SliceEntries(c, i) ELSE <<>>
      A(i) == InArgEntries(c, i)
  IN Concat(S, 1, n) \o RetEntries(c) \o Concat(A, 1, n)
\* one finalizer registration per borrowed parameter
ExpectedRegs(c) == Cardinality(c.borrow)
CanThrow(c) == c.ret \in {"result", "reshold"} /\ ~c.ok
\* an OWNED opaque handed back to JS (Box<T>) is registered with the type's destroy finalizer exactly once; a borrowed one (&T) never
RetPtr == 28672       \* 0x7000: the address the stub hands out for a returned opaque
ExpectedOregs(c) == IF c.ret \in {"hold", "box"} \/ (c.ret \in {"reshold", "optbox"} /\ c.ok) THEN 1 ELSE 0

\* ---- the machine --------------------------------------------------------------------------------
VARIABLES cs,        \* the method shape being executed
          heap,      \* buffers in allocation order: plan entry + [ptr, st \in {"live", "freed"}]
          phase,     \* marshal -> wasm -> post -> held -> final -> done
          regs,      \* finalizer registrations made
          fin,       \* ... and run
          wst,       \* the write-out handle: none | open | closed
          oreg,      \* destroy-finalizer registrations made for the returned opaque (0 or 1)
          odes       \* ... and run
vars == <<cs, heap, phase, regs, fin, wst, oreg, odes>>

Live(i) == heap[i].st = "live"
AllLive == \A i \in 1..Len(heap) : Live(i)
Init == cs \in Case /\ heap = <<>> /\ phase = "marshal" /\ regs = 0 /\ fin = 0 /\ wst = "none" /\ oreg = 0 /\ odes = 0

\* diplomat_alloc(size, align) returned p: the next buffer of the plan, with the planned size and alignment, at a fresh address
Alloc(p, sz, al) ==
  /\ phase = "marshal" /\ Len(heap) < Len(Plan(cs))
  /\ LET e == Plan(cs)[Len(heap) + 1] IN
       /\ e.size = sz /\ e.align = al
       /\ \A i \in 1..Len(heap) : heap[i].ptr # p
       /\ heap' = Append(heap, [ptr |-> p, st |-> "live", size |-> sz, align |-> al, cls |-> e.cls, root |-> e.root, head |-> e.head])
  /\ UNCHANGED <<cs, phase, regs, fin, wst, oreg, odes>>
WriteOpen == phase = "marshal" /\ cs.ret = "write" /\ wst = "none" /\ wst' = "open" /\ UNCHANGED <<cs, heap, phase, regs, fin, oreg, odes>>
\* a finalizer is registered for a borrowed parameter's buffers (struct fields: while marshalling; slices: on the way out)
Register == phase \in {"marshal", "post"} /\ regs < ExpectedRegs(cs) /\ regs' = regs + 1 /\ UNCHANGED <<cs, heap, phase, fin, wst, oreg, odes>>
\* the wasm export is called: everything planned has been made and is alive, every argument is a number and the address of
\* every head buffer is among the arguments
Call(args, nonnum) ==
  /\ phase = "marshal" /\ Len(heap) = Len(Plan(cs)) /\ AllLive
  /\ (cs.ret = "write") => wst = "open"
  /\ nonnum = 0
  /\ \A i \in 1..Len(heap) : heap[i].head => heap[i].ptr \in args
  /\ phase' = "wasm" /\ UNCHANGED <<cs, heap, regs, fin, wst, oreg, odes>>
Return == phase = "wasm" /\ phase' = "post" /\ UNCHANGED <<cs, heap, regs, fin, wst, oreg, odes>>
\* diplomat_free(p, size, align): a live buffer, with the size and alignment it was made with; call-scoped buffers on the way out,
\* gc-scoped ones only from their finalizer
Free(p, sz, al) ==
  /\ \E i \in 1..Len(heap) :
       /\ heap[i].ptr = p /\ Live(i) /\ heap[i].size = sz /\ heap[i].align = al
       /\ \/ phase = "post" /\ heap[i].cls = "call"
          \/ phase = "final" /\ heap[i].cls = "gc" /\ fin > 0
       /\ heap' = [heap EXCEPT ![i].st = "freed"]
  /\ UNCHANGED <<cs, phase, regs, fin, wst, oreg, odes>>
WriteClose == phase = "post" /\ wst = "open" /\ wst' = "closed" /\ UNCHANGED <<cs, heap, phase, regs, fin, oreg, odes>>
\* the method returns or throws: nothing call-scoped is left, the write-out is closed, every borrowed parameter is registered
End(threw) ==
  /\ phase = "post"
  /\ \A i \in 1..Len(heap) : heap[i].cls = "call" => ~Live(i)
  /\ wst # "open" /\ regs = ExpectedRegs(cs) /\ oreg = ExpectedOregs(cs)
  /\ threw <=> CanThrow(cs)
  /\ phase' = "held" /\ UNCHANGED <<cs, heap, regs, fin, wst, oreg, odes>>
\* while the caller holds the returned object, the collector finds every registered buffer reachable
Probe(alive) == phase = "held" /\ alive = regs /\ UNCHANGED vars
DropResult == phase = "held" /\ phase' = "final" /\ UNCHANGED <<cs, heap, regs, fin, wst, oreg, odes>>
Finalize == phase = "final" /\ fin < regs /\ fin' = fin + 1 /\ UNCHANGED <<cs, heap, phase, regs, wst, oreg, odes>>
\* the wrapper of an owned opaque registers the address it was handed with the destroy finalizer (while the result is unpacked)
RegisterOpaque(p) == phase = "post" /\ oreg = 0 /\ ExpectedOregs(cs) = 1 /\ p = RetPtr /\ oreg' = 1
                     /\ UNCHANGED <<cs, heap, phase, regs, fin, wst, odes>>
\* ... and after the wrapper is collected the finalizer destroys exactly that address, once
DestroyOpaque(p) == phase = "final" /\ oreg = 1 /\ odes = 0 /\ p = RetPtr /\ odes' = 1
                    /\ UNCHANGED <<cs, heap, phase, regs, fin, wst, oreg>>
Quiesce == phase = "final" /\ fin = regs /\ odes = oreg /\ (\A i \in 1..Len(heap) : ~Live(i)) /\ phase' = "done" /\ UNCHANGED <<cs, heap, regs, fin, wst, oreg, odes>>
Stay == phase = "done" /\ UNCHANGED vars

Heads == {heap[i].ptr : i \in {j \in 1..Len(heap) : heap[j].head}}
Next == \/ \E p \in 1..(Len(heap) + 1) : Len(heap) < Len(Plan(cs)) /\ Alloc(p, Plan(cs)[Len(heap) + 1].size, Plan(cs)[Len(heap) + 1].align)
        \/ WriteOpen \/ Register \/ Call(Heads, 0) \/ Return
        \/ (\E i \in 1..Len(heap) : Free(heap[i].ptr, heap[i].size, heap[i].align))
        \/ WriteClose \/ End(CanThrow(cs)) \/ Probe(regs) \/ DropResult \/ Finalize \/ Quiesce \/ Stay
        \/ RegisterOpaque(RetPtr) \/ DestroyOpaque(RetPtr)
Spec == Init /\ [][Next]_vars

\* ---- properties -------------------------------------------------------------------------------
NoEarlyFree == phase \in {"marshal", "wasm"} => AllLive
BorrowedOutlivesResult == phase = "held" => \A i \in 1..Len(heap) : heap[i].cls = "gc" => Live(i)
CallScopedGoneAtReturn == phase \in {"held", "final", "done"} => \A i \in 1..Len(heap) : heap[i].cls = "call" => ~Live(i)
NoLeak == phase = "done" => \A i \in 1..Len(heap) : ~Live(i)
\* every gc-scoped buffer belongs to a borrowed parameter, so some finalizer is responsible for it
GcHasOwner == \A i \in 1..Len(heap) : heap[i].cls = "gc" => heap[i].root \in cs.borrow
\* an opaque is destroyed at most once, and only one that was handed out as owned
OpaqueOnce == odes <= oreg /\ oreg <= ExpectedOregs(cs)
\* the plan can always be carried through: the machine never gets stuck before "done" (checked as deadlock freedom)
=============================================================================
