SPECIFICATION SpecOne
INVARIANTS SetterRule
