------------------------------ MODULE Special ------------------------------
(***************************************************************************)
(* Special-method markers (core/src/hir/attrs.rs `Attrs::validate`,        *)
(* book/src/attrs.md): `#[diplomat::attr(<cfg>, constructor | getter |     *)
(* setter | stringifier | comparison | iterator | iterable | indexer |     *)
(* add | add_assign ...)]` is accepted on a method only if the method has  *)
(* the shape the marker promises to the host language.  This module is an  *)
(* EXTENSION of the suite beyond the 17 listed properties: it is bound to  *)
(* the implementation by replay (./extra special) and reported separately. *)
(*                                                                         *)
(* A method is abstracted to what the rules look at: the kind of its type, *)
(* its receiver, the relation of its parameters to Self, and the class of  *)
(* its return type.  Errs(m, f) is the set of rule names the method breaks *)
(* under backend flags f.                                                  *)
(***************************************************************************)
EXTENDS Integers, Sequences, FiniteSets, TLC
TypeK == {"opaque", "struct", "enum", "outstruct"}
SelfK == {"none", "ref", "mut", "val"}
ParamK == {"same_ref", "same_mut", "same_opt", "same_val", "prim"}
RetK == {"unit", "write", "self", "res_self", "opt_self", "prim", "opt_prim", "opt_unit", "res_unit", "res_prim",
         "other_box", "opt_other_box", "ordering"}
Marker == {"constructor", "named_constructor", "getter", "setter", "stringifier", "comparison", "iterator", "iterable",
           "indexer", "add", "add_assign"}
Flags == [constructors : BOOLEAN, fallible_constructors : BOOLEAN, static_accessors : BOOLEAN]

\* what the language/lowering gate lets one write at all (opaques are passed by reference, structs and enums by value)
WellTyped(m) ==
  /\ (m.tk = "opaque" => m.self \in {"none", "ref", "mut"})
  /\ (m.tk \in {"struct", "enum"} => m.self \in {"none", "val"})
  /\ (m.tk = "outstruct" => m.self = "none")                       \* out-structs are never inputs
  /\ \A i \in 1..Len(m.params) :
        (m.tk = "opaque" => m.params[i] \in {"same_ref", "same_mut", "same_opt", "prim"})
     /\ (m.tk \in {"struct", "enum"} => m.params[i] \in {"same_val", "prim"})
     /\ (m.tk = "outstruct" => m.params[i] = "prim")

\* ---- return-type classes, as lower_return_type sees them ---------------------------------
\* Option<Box<T>> / Option<&T> is an *infallible* return of an optional pointer; Option of anything else is "nullable"
Class(m) == CASE m.ret \in {"res_self", "res_unit", "res_prim"} -> "fallible"
              [] m.ret \in {"opt_prim", "opt_unit"} -> "nullable"
              [] m.ret = "opt_self" /\ m.tk # "opaque" -> "nullable"
              [] OTHER -> "infallible"
\* the success value: "unit" | "write" | "self" | "other_opaque" | "other"
Succ(m) == CASE m.ret \in {"unit", "res_unit", "opt_unit"} -> "unit"
             [] m.ret = "write" -> "write"
             [] m.ret \in {"self", "res_self", "opt_self"} -> "self"
             [] m.ret \in {"other_box", "opt_other_box"} -> "other_opaque"
             [] OTHER -> "other"
SuccIsOpaque(m) == Succ(m) = "other_opaque" \/ (Succ(m) = "self" /\ m.tk = "opaque")
OptionalPointer(m) == m.ret = "opt_other_box" \/ (m.ret = "opt_self" /\ m.tk = "opaque")

Count(m, n) == IF Len(m.params) = n THEN {} ELSE {"param_count"}
NeedSelf(m, need) == IF (m.self # "none") = need THEN {} ELSE {"self_param"}

Errs(m, f) ==
  CASE m.mk \in {"constructor", "named_constructor"} ->
         NeedSelf(m, FALSE)
         \cup (IF Class(m) = "fallible" /\ f.constructors /\ ~f.fallible_constructors THEN {"fallible_constructor"} ELSE {})
         \cup (IF Class(m) = "nullable" THEN {"nullable_constructor"} ELSE {})
         \cup (IF Succ(m) = "self" THEN {} ELSE {"constructor_returns_self"})
    [] m.mk = "getter" ->
         (IF m.params # <<>> THEN {"getter_params"} ELSE {})
         \cup (IF m.self = "none" /\ ~f.static_accessors THEN {"static_accessor"} ELSE {})
    [] m.mk = "setter" ->
         (IF Succ(m) = "unit" THEN {} ELSE {"setter_returns_unit"})
         \cup (IF m.self = "none" /\ ~f.static_accessors THEN {"static_accessor"} ELSE {})
         \cup Count(m, 1)
    [] m.mk = "stringifier" ->
         (IF m.params # <<>> THEN {"getter_params"} ELSE {})
         \cup (IF Succ(m) = "write" THEN {} ELSE {"stringifier_returns_string"})
    [] m.mk = "comparison" ->
         Count(m, 1) \cup NeedSelf(m, TRUE)
         \cup (IF m.ret = "ordering" THEN {} ELSE {"comparator_returns_ordering"})    \* (found by replay: checked in type_context.rs)
         \cup (IF m.self # "none" /\ m.params # <<>>
               THEN LET p == m.params[1] IN
                    (IF (m.tk = "opaque" /\ p \in {"same_ref", "same_mut", "same_opt"}) \/ (m.tk # "opaque" /\ p = "same_val")
                       THEN {} ELSE {"comparator_same_type"})
                    \cup (IF m.tk = "opaque" /\ p \in {"same_ref", "same_mut", "same_opt"} /\ (m.self = "mut" \/ p = "same_mut")
                            THEN {"comparator_immutable"} ELSE {})
                    \cup (IF m.tk = "opaque" /\ p = "same_opt" THEN {"comparator_non_optional"} ELSE {})
               ELSE {})
    [] m.mk = "iterator" ->
         Count(m, 0) \cup NeedSelf(m, TRUE)
         \cup (IF m.self # "none" /\ m.tk # "opaque" THEN {"iterator_on_opaque"} ELSE {})
         \cup (IF Class(m) = "nullable" THEN (IF Succ(m) = "unit" THEN {"iterator_returns_something"} ELSE {})
               ELSE IF OptionalPointer(m) THEN {} ELSE {"iterator_returns_nullable"})
    [] m.mk = "iterable" ->
         Count(m, 0) \cup NeedSelf(m, TRUE)
         \cup (IF Succ(m) \in {"unit", "write"} THEN {"iterable_returns_type"}
               ELSE IF SuccIsOpaque(m) THEN {} ELSE {"iterable_returns_opaque"})
    [] m.mk = "indexer" ->
         Count(m, 1) \cup NeedSelf(m, TRUE) \cup (IF Succ(m) = "unit" THEN {"returns_value"} ELSE {})
    [] m.mk = "add" ->
         Count(m, 1) \cup NeedSelf(m, TRUE) \cup (IF Succ(m) = "unit" THEN {"returns_value"} ELSE {})
    [] m.mk = "add_assign" ->
         Count(m, 1) \cup NeedSelf(m, TRUE)
         \cup (IF m.self = "val" THEN {"assign_on_opaque"} ELSE IF m.self = "ref" THEN {"assign_mutable_self"} ELSE {})
         \cup (IF Succ(m) = "unit" THEN {} ELSE {"assign_returns_nothing"})

Accepted(m, f) == Errs(m, f) = {}

\* ---- what the markers promise to the host language (bindings that have operators derive them from the marked method) ----
\* a `comparison` method returns Ordering o \in {-1, 0, 1}; every derived relational operator is a function of o alone
RelOps == {"==", "!=", "<", "<=", ">", ">="}
RelHolds(op, o) == CASE op = "==" -> o = 0 [] op = "!=" -> o # 0 [] op = "<" -> o = -1 [] op = "<=" -> o # 1
                     [] op = ">" -> o = 1 [] op = ">=" -> o # -1
\* arithmetic markers map to the operator of the same name; *_assign variants mutate the receiver and return nothing
ArithOp == [add |-> "+", sub |-> "-", mul |-> "*", div |-> "/", add_assign |-> "+=", sub_assign |-> "-=", mul_assign |-> "*=", div_assign |-> "/="]
\* the relational operators are consistent with each other: exactly the usual laws
RelLaws == \A o \in {-1, 0, 1} : /\ RelHolds("!=", o) = ~RelHolds("==", o)
                                 /\ RelHolds("<=", o) = (RelHolds("<", o) \/ RelHolds("==", o))
                                 /\ RelHolds(">=", o) = (RelHolds(">", o) \/ RelHolds("==", o))
                                 /\ RelHolds(">=", o) = ~RelHolds("<", o)

\* ---- sanity properties of the rule set (checked by TLC over every method in scope) ----------
Methods == {m \in [tk : TypeK, self : SelfK, params : {<<>>} \cup {<<p>> : p \in ParamK} \cup {<<p, q>> : p \in ParamK, q \in {"prim"}},
                   ret : RetK, mk : Marker] : WellTyped(m)}
\* every marker is satisfiable, and satisfiable on an opaque type
Satisfiable == \A k \in Marker : \E m \in Methods, f \in Flags : m.mk = k /\ m.tk = "opaque" /\ Accepted(m, f)
\* the flags only ever make a backend stricter about constructors and static accessors
FlagsOnlyMatterThere == \A m \in Methods : \A f, g \in Flags :
    (m.mk \notin {"constructor", "named_constructor", "getter", "setter"}) => Errs(m, f) = Errs(m, g)
\* mutating operators never live on value types, iterators never on value types
ValueTypesAreImmutable == \A m \in Methods, f \in Flags :
    (m.tk # "opaque" /\ m.mk \in {"add_assign", "iterator"} /\ m.self # "none") => ~Accepted(m, f)
=============================================================================
