SPECIFICATION SpecOne
INVARIANTS Props
