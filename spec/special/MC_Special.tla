----------------------------- MODULE MC_Special -----------------------------
EXTENDS Special, Json
VARIABLES m, f, done
vars == <<m, f, done>>
Init == m \in Methods /\ f \in Flags /\ done = TRUE
Spec == Init /\ [][FALSE]_vars
\* only flag combinations that matter for the marker are emitted
Relevant == \/ m.mk \in {"constructor", "named_constructor"} /\ f.static_accessors
            \/ m.mk \in {"getter", "setter"} /\ f.constructors /\ f.fallible_constructors
            \/ m.mk \notin {"constructor", "named_constructor", "getter", "setter"} /\ f.constructors /\ f.fallible_constructors /\ f.static_accessors
Emit == Relevant => PrintT(<<"CASE", ToJson([m |-> m, f |-> f, errs |-> Errs(m, f)])>>)
Props == Satisfiable /\ FlagsOnlyMatterThere /\ ValueTypesAreImmutable /\ RelLaws
EmitOps == PrintT(<<"OPS", ToJson([rel |-> [op \in RelOps |-> [o \in {"lt", "eq", "gt"} |->
                                     RelHolds(op, CASE o = "lt" -> -1 [] o = "eq" -> 0 [] o = "gt" -> 1)]],
                                   arith |-> ArithOp])>>)
\* the properties are constant-level: one state suffices to have TLC evaluate them
One == CHOOSE x \in Methods : TRUE
InitOne == m = One /\ f = [constructors |-> TRUE, fallible_constructors |-> TRUE, static_accessors |-> TRUE] /\ done = TRUE
SpecOne == InitOne /\ [][FALSE]_vars
\* negative model: a rule set that forgets that setters return unit
ErrsBad(mm, ff) == Errs(mm, ff) \ {"setter_returns_unit"}
SetterRule == \A mm \in Methods : (mm.mk = "setter" /\ Succ(mm) # "unit") => ErrsBad(mm, [constructors |-> TRUE, fallible_constructors |-> TRUE, static_accessors |-> TRUE]) # {}
=============================================================================
