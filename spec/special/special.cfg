SPECIFICATION Spec
INVARIANTS Emit
