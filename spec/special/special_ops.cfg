SPECIFICATION SpecOne
INVARIANTS Props EmitOps
