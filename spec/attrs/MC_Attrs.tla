------------------------------- MODULE MC_Attrs -------------------------------
EXTENDS Attrs, ProfileData, Json
MCAtomNames == {"c", "cpp", "js", "dart", "kotlin", "nanobind", "demo_gen", "tests"}
MCAtomFeatures == {"option", "callbacks", "namespacing", "iterators", "static_slices", "traits"}
MCAtomNamesSmall == {"js", "cpp", "tests"}
MCAtomFeaturesSmall == {"option", "callbacks"}
Emit == Done => PrintT(<<"CASE", ToJson([form |-> Form,
                     sat |-> [b \in Backend |-> Sat(Form, b)]])>>)
\* negative model: `any` that only looks at its first operand
RECURSIVE SatBad(_, _)
SatBad(f, b) == CASE f.k = "any" -> (Len(f.xs) > 0 /\ SatBad(f.xs[1], b))
                  [] f.k = "all" -> \A i \in 1..Len(f.xs) : SatBad(f.xs[i], b)
                  [] f.k = "not" -> ~SatBad(f.a, b)
                  [] OTHER -> Sat(f, b)
AnyIsComplete == Done => \A b \in Backend : SatBad(Form, b) = Sat(Form, b)
=============================================================================
