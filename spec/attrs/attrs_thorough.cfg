SPECIFICATION Spec
CONSTANTS
  Backend <- PBackend
  Names <- PNames
  Supports <- PSupports
  AtomNames <- MCAtomNamesSmall
  AtomFeatures <- MCAtomFeaturesSmall
  MaxOps = 5
INVARIANTS DeMorgan DoubleNeg StarEverywhere DisableMonotone RenameNeverModuleToMethod Emit
