SPECIFICATION Spec
CONSTANTS
  Backend <- PBackend
  Names <- PNames
  Supports <- PSupports
  AtomNames <- MCAtomNames
  AtomFeatures <- MCAtomFeatures
  MaxOps = 3
INVARIANTS DeMorgan DoubleNeg StarEverywhere DisableMonotone RenameNeverModuleToMethod Emit
