-------------------------------- MODULE Attrs --------------------------------
(***************************************************************************)
(* #[diplomat::attr(<cfg>, disable | rename = "...")]                       *)
(*   - when does <cfg> hold for a backend  (book/src/attrs.md)              *)
(*   - what a disable / rename placed on a module, type, impl block or      *)
(*     method affects (book/src/attrs/disable.md, rename.md; inheritance).  *)
(* Formulas are built by a small stack machine so that TLC can enumerate    *)
(* them exhaustively up to a number of construction steps and sample        *)
(* deeper ones with -simulate.                                              *)
(***************************************************************************)
EXTENDS Naturals, Sequences, FiniteSets, TLC
CONSTANTS Backend,     \* the seven backends
          Names,       \* Names[b]: the names backend b answers to        (probed)
          Supports,    \* Supports[b]: features b claims to support        (probed)
          AtomNames,   \* backend names usable as atoms (incl. one nobody answers to)
          AtomFeatures,\* features usable in `supports = f` atoms
          MaxOps       \* number of construction steps

Atom == {[k |-> "star"]} \cup {[k |-> "name", n |-> n] : n \in AtomNames}
                         \cup {[k |-> "supports", f |-> f] : f \in AtomFeatures}
RECURSIVE Sat(_, _)
Sat(f, b) == CASE f.k = "star" -> TRUE
               [] f.k = "name" -> f.n \in Names[b]
               [] f.k = "supports" -> f.f \in Supports[b]
               [] f.k = "not" -> ~Sat(f.a, b)
               [] f.k = "any" -> \E i \in 1..Len(f.xs) : Sat(f.xs[i], b)      \* any() is false
               [] f.k = "all" -> \A i \in 1..Len(f.xs) : Sat(f.xs[i], b)      \* all() is true

\* ---- what an attribute placed at `pl` reaches ----------------------------------------------
\* reference program: module M { type T { impl I { m1, m2 } impl J { m3 } }, type U { impl { u1 } } }
\* the attribute sits on: the module, type T, impl block I, or method m1
Place == {"module", "type", "impl", "method"}
Types == {"T", "U"}
Methods == {"T.m1", "T.m2", "T.m3", "U.u1"}
OwnerOf(m) == IF m = "U.u1" THEN "U" ELSE "T"
\* disable: a disabled module disables its types; a disabled type hides all its methods;
\* an impl block passes the attribute to exactly its methods
TypesHit(pl) == CASE pl = "module" -> {"T", "U"} [] pl = "type" -> {"T"} [] OTHER -> {}
MethodsHitDirect(pl) == CASE pl = "impl" -> {"T.m1", "T.m2"} [] pl = "method" -> {"T.m1"} [] OTHER -> {}
DisabledTypes(pl, holds) == IF holds THEN TypesHit(pl) ELSE {}
DisabledMethods(pl, holds) == IF holds THEN MethodsHitDirect(pl) \cup {m \in Methods : OwnerOf(m) \in TypesHit(pl)} ELSE {}
\* what is left of the reference program for a backend on which the condition holds.  A disabled item leaves NO trace: the
\* backend's output is that of the program in which the item was never written -- in particular nothing about the item (that it
\* was a comparison / iterator / iterable, the types its signature mentions) may influence how its owner is rendered, and a
\* signature the backend could not lower is no error.  (Replayed for the impl and method places: `Erased` program vs. disabled.)
Remaining(pl, holds) == [types |-> Types \ DisabledTypes(pl, holds), methods |-> Methods \ DisabledMethods(pl, holds)]
\* rename: module -> its types only (never methods); type -> that type; impl -> its methods; method -> it
RenamedTypes(pl, holds) == IF holds THEN TypesHit(pl) ELSE {}
RenamedMethods(pl, holds) == IF holds THEN MethodsHitDirect(pl) ELSE {}

\* ---- formula builder -----------------------------------------------------------------------
VARIABLES stack, ops, stage
vars == <<stack, ops, stage>>
Init == stack = <<>> /\ ops = 0 /\ stage = "build"
Step == ops < MaxOps /\ ops' = ops + 1 /\ stage = "build" /\ UNCHANGED stage
Push(a) == Step /\ Len(stack) < 3 /\ stack' = Append(stack, a)
Top == stack[Len(stack)]
Below == stack[Len(stack) - 1]
Not == Step /\ Len(stack) >= 1 /\ stack' = [stack EXCEPT ![Len(stack)] = [k |-> "not", a |-> Top]]
Comb(op, n) == /\ Step /\ Len(stack) >= n
               /\ stack' = Append(SubSeq(stack, 1, Len(stack) - n),
                                  [k |-> op, xs |-> SubSeq(stack, Len(stack) - n + 1, Len(stack))])
Finish == stage = "build" /\ Len(stack) = 1 /\ stage' = "done" /\ UNCHANGED <<stack, ops>>
Next == \/ \E a \in Atom : Push(a)
        \/ Not
        \/ \E op \in {"any", "all"}, n \in 0..3 : Comb(op, n)
        \/ Finish
Spec == Init /\ [][Next]_vars
Form == stack[1]
Done == stage = "done"

\* ---- sanity of the semantics (checked on every formula reached) ------------------------------
DeMorgan == Done => \A b \in Backend :
   Sat([k |-> "not", a |-> [k |-> "any", xs |-> <<Form, Form>>]], b)
     = Sat([k |-> "all", xs |-> <<[k |-> "not", a |-> Form], [k |-> "not", a |-> Form]>>], b)
DoubleNeg == Done => \A b \in Backend : Sat([k |-> "not", a |-> [k |-> "not", a |-> Form]], b) = Sat(Form, b)
\* demo_gen answers to "js" as well: whatever holds for a name-only formula about js holds for demo_gen
StarEverywhere == \A b \in Backend : Sat([k |-> "star"], b)
\* inheritance facts about the reference program
DisableMonotone == \A pl \in Place : \A m \in Methods :
   (OwnerOf(m) \in DisabledTypes(pl, TRUE)) => m \in DisabledMethods(pl, TRUE)
RenameNeverModuleToMethod == RenamedMethods("module", TRUE) = {}
=============================================================================
