SPECIFICATION Spec
CONSTANTS
  Backend <- PBackend
  Names <- PNames
  Supports <- PSupports
  AtomNames <- MCAtomNamesSmall
  AtomFeatures <- MCAtomFeaturesSmall
  MaxOps = 4
INVARIANTS AnyIsComplete
