SPECIFICATION TSpec
CONSTANTS
  Payload <- TPayload
  Container <- TContainer
  CKind <- TKind
  MaxSteps = 1000000
INVARIANTS AtMostOnce DroppedMeansOnce
POSTCONDITION Accepted
