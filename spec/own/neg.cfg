SPECIFICATION Spec
CONSTANTS
  Payload <- MCPayload
  Container <- MCContainer
  CKind <- MCKind
  MaxSteps = 6
  SuppressOnInto <- NoSuppress
INVARIANTS AtMostOnce
