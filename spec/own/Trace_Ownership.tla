-------------------------- MODULE Trace_Ownership --------------------------
(* Trace validation for Ownership: events recorded from the real runtime     *)
(* types (dv c03-record) and from C/C++ drivers of the generated API must be *)
(* behaviours of Ownership; the recorded drop counters must equal the spec's *)
(* after every step.                                                         *)
EXTENDS Ownership, Json, IOUtils, TLC
TPayload == {"p1", "p2", "p3", "p4", "p5", "p6", "p7", "p8", "p9", "p10", "p11", "p12"}
TContainer == {"res1", "res2", "opt1", "opt2", "osl1", "osl2", "cb1", "cb2"}
TKind == [c \in TContainer |-> CASE c \in {"res1", "res2"} -> "res" [] c \in {"opt1", "opt2"} -> "opt"
                                 [] c \in {"osl1", "osl2"} -> "oslice" [] OTHER -> "cb"]
Rec == ndJsonDeserialize(IOEnv.TRACE)
VARIABLE l
tvars == <<vars, l>>
IsEvent(e) == l <= Len(Rec) /\ Rec[l].op = e /\ l' = l + 1
\* recorded drop counters (only payloads that exist so far are logged) equal the spec's
DropsMatch(r) == /\ \A p \in DOMAIN r.drops : r.drops[p] = drops'[p]
                 /\ ~r.panic /\ r.memerr = ""
ToSet(seq) == {seq[i] : i \in 1..Len(seq)}

TInit == Init /\ l = 1
TReset == /\ IsEvent("Reset")
          /\ holder' = [p \in Payload |-> "none"] /\ drops' = [p \in Payload |-> 0]
          /\ cstate' = [c \in Container |-> "free"] /\ arm' = [c \in Container |-> "-"] /\ steps' = 0
P1(name, A(_)) == IsEvent(name) /\ A(Rec[l].p) /\ DropsMatch(Rec[l])
C1(name, A(_)) == IsEvent(name) /\ A(Rec[l].c) /\ DropsMatch(Rec[l])
TWrap == IsEvent("Wrap") /\ Wrap(Rec[l].c, ToSet(Rec[l].ps), Rec[l].arm) /\ Rec[l].kind = CKind[Rec[l].c] /\ DropsMatch(Rec[l])
TUnwrap == IsEvent("Unwrap") /\ Unwrap(Rec[l].c) /\ Rec[l].arm = arm[Rec[l].c] /\ DropsMatch(Rec[l])
TClone == IsEvent("CloneInto") /\ CloneInto(Rec[l].c, Rec[l].c2, Rec[l].q) /\ DropsMatch(Rec[l])
TEnd == /\ IsEvent("End") /\ Quiescent /\ Rec[l].leak = ""
        /\ \A p \in DOMAIN Rec[l].drops : Rec[l].drops[p] = drops[p] /\ drops[p] = 1
        /\ UNCHANGED vars
TNext == \/ TReset \/ TWrap \/ TUnwrap \/ TClone \/ TEnd
         \/ P1("RustMake", RustMake) \/ P1("ReturnBox", ReturnBox) \/ P1("BorrowCall", BorrowCall)
         \/ P1("Destroy", Destroy) \/ P1("RustDrop", RustDrop)
         \/ C1("PassToForeign", PassToForeign) \/ C1("PassToRust", PassToRust) \/ C1("Peek", Peek)
         \/ C1("DropContainer", DropContainer)
TSpec == TInit /\ [][TNext]_tvars
Accepted ==
  LET d == TLCGet("stats").diameter IN
  IF d - 1 = Len(Rec) THEN TRUE
  ELSE Print(<<"REJECTED", ToJson([index |-> d, event |-> Rec[d]])>>, FALSE)
=============================================================================
