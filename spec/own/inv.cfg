SPECIFICATION Spec
CONSTANTS
  Payload <- MCPayload
  Container <- MCContainer
  CKind <- MCKind
  MaxSteps = 9
INVARIANTS AtMostOnce DroppedMeansOnce LiveMeansZero NoStrand ExactlyOnce
