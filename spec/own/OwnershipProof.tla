--------------------------- MODULE OwnershipProof ---------------------------
(* Unbounded proof (TLAPS) of the core of C03 for ANY sets of payloads and containers and any number of steps: a payload's   *)
(* destructor has run exactly once if the payload is dropped and not at all otherwise -- hence never twice (AtMostOnce).      *)
EXTENDS Ownership, TLAPS

ASSUME ContainerNames == /\ "dropped" \notin Container /\ "rust" \notin Container /\ "foreign" \notin Container
                         /\ "none" \notin Container
ASSUME MaxStepsNat == MaxSteps \in Nat

IndInv == /\ drops \in [Payload -> Nat]
          /\ holder \in [Payload -> Holder]
          /\ \A p \in Payload : (holder[p] = "dropped") => drops[p] = 1
          /\ \A p \in Payload : (holder[p] # "dropped") => drops[p] = 0

LEMMA InitOK == Init => IndInv
  BY DEF Init, IndInv, Holder

LEMMA DropSetOK == ASSUME IndInv, NEW S \in SUBSET Payload, \A p \in S : holder[p] # "dropped", DropSet(S)
                   PROVE  IndInv'
  BY DEF IndInv, DropSet, Holder

LEMMA StepOK == IndInv /\ [Next]_vars => IndInv'
<1> SUFFICES ASSUME IndInv, [Next]_vars PROVE IndInv'
  OBVIOUS
<1>1. ASSUME NEW p \in Payload, RustMake(p) PROVE IndInv'
  BY <1>1 DEF RustMake, IndInv, Holder
<1>2. ASSUME NEW p \in Payload, ReturnBox(p) PROVE IndInv'
  BY <1>2 DEF ReturnBox, IndInv, Holder
<1>3. ASSUME NEW p \in Payload, BorrowCall(p) PROVE IndInv'
  BY <1>3 DEF BorrowCall, IndInv
<1>4. ASSUME NEW p \in Payload, Destroy(p) PROVE IndInv'
  BY <1>4, DropSetOK DEF Destroy
<1>5. ASSUME NEW p \in Payload, RustDrop(p) PROVE IndInv'
  BY <1>5, DropSetOK DEF RustDrop
<1>6. ASSUME NEW c \in Container, PassToForeign(c) \/ PassToRust(c) \/ Peek(c) PROVE IndInv'
  BY <1>6 DEF PassToForeign, PassToRust, Peek, IndInv
<1>7. ASSUME NEW c \in Container, Unwrap(c) PROVE IndInv'
  BY <1>7, ContainerNames DEF Unwrap, SuppressOnInto, IndInv, Holder
<1>8. ASSUME NEW c \in Container, DropContainer(c) PROVE IndInv'
  <2>1. Held(c) \in SUBSET Payload /\ \A p \in Held(c) : holder[p] # "dropped"
    BY ContainerNames DEF Held
  <2> QED
    BY <1>8, <2>1, DropSetOK DEF DropContainer
<1>9. ASSUME NEW c \in Container, NEW S \in SUBSET Payload, NEW a \in {"ok", "err", "-"}, Wrap(c, S, a) PROVE IndInv'
  BY <1>9, ContainerNames DEF Wrap, IndInv, Holder
<1>10. ASSUME NEW c \in Container, NEW c2 \in Container, NEW q \in Payload, CloneInto(c, c2, q) PROVE IndInv'
  BY <1>10, ContainerNames DEF CloneInto, IndInv, Holder
<1>11. ASSUME UNCHANGED vars PROVE IndInv'
  BY <1>11 DEF vars, IndInv
<1> QED
  BY <1>1, <1>2, <1>3, <1>4, <1>5, <1>6, <1>7, <1>8, <1>9, <1>10, <1>11 DEF Next

THEOREM Safety == Spec => []IndInv
  BY InitOK, StepOK, PTL DEF Spec
THEOREM NeverTwice == Spec => [](AtMostOnce /\ DroppedMeansOnce /\ LiveMeansZero)
<1>1. IndInv => (AtMostOnce /\ DroppedMeansOnce /\ LiveMeansZero)
  BY DEF IndInv, AtMostOnce, DroppedMeansOnce, LiveMeansZero
<1> QED
  BY <1>1, Safety, PTL
=============================================================================
