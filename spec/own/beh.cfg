SPECIFICATION HSpec
CONSTANTS
  Payload <- MCPayload
  Container <- MCContainer
  CKind <- MCKind
  MaxSteps = 6
CONSTRAINTS Going Ordered
INVARIANTS Emit AtMostOnce
