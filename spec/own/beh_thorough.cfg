SPECIFICATION HSpec
CONSTANTS
  Payload <- MCPayload
  Container <- MCContainer
  CKind <- MCKind
  MaxSteps = 7
CONSTRAINTS Going Ordered
INVARIANTS Emit AtMostOnce
