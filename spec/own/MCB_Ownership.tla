---------------------------- MODULE MCB_Ownership ----------------------------
(* behaviour emission for replay (history variable) *)
EXTENDS MC_Ownership, Json
VARIABLE hist
St == [drops |-> drops', holder |-> holder', cstate |-> cstate', arm |-> arm']
Log(e) == hist' = Append(hist, e)
HInit == Init /\ hist = <<>>
HNext ==
  \/ \E p \in Payload : \/ RustMake(p) /\ Log([op |-> "RustMake", p |-> p, st |-> St])
                        \/ ReturnBox(p) /\ Log([op |-> "ReturnBox", p |-> p, st |-> St])
                        \/ BorrowCall(p) /\ Log([op |-> "BorrowCall", p |-> p, st |-> St])
                        \/ Destroy(p) /\ Log([op |-> "Destroy", p |-> p, st |-> St])
                        \/ RustDrop(p) /\ Log([op |-> "RustDrop", p |-> p, st |-> St])
  \/ \E c \in Container : \/ PassToForeign(c) /\ Log([op |-> "PassToForeign", c |-> c, st |-> St])
                          \/ PassToRust(c) /\ Log([op |-> "PassToRust", c |-> c, st |-> St])
                          \/ Unwrap(c) /\ Log([op |-> "Unwrap", c |-> c, kind |-> CKind[c], arm |-> arm[c], st |-> St])
                          \/ DropContainer(c) /\ Log([op |-> "DropContainer", c |-> c, st |-> St])
                          \/ Peek(c) /\ Log([op |-> "Peek", c |-> c, st |-> St])
  \/ \E c \in Container, S \in SUBSET Payload, a \in {"ok", "err", "-"} : Wrap(c, S, a) /\ Log([op |-> "Wrap", c |-> c, kind |-> CKind[c], ps |-> S, arm |-> a, st |-> St])
  \/ \E c, c2 \in Container, q \in Payload : CloneInto(c, c2, q) /\ Log([op |-> "CloneInto", c |-> c, c2 |-> c2, q |-> q, st |-> St])
HSpec == HInit /\ [][HNext]_<<vars, hist>>
\* emit complete behaviours only: everything created has been released
Emit == (Quiescent /\ steps > 0 /\ \E p \in Payload : holder[p] = "dropped") => PrintT(<<"BEH", ToJson(hist)>>)
\* prune: once quiescent with something dropped the behaviour is complete
Going == ~(Quiescent /\ steps > 0 /\ \E p \in Payload : holder[p] = "dropped")
\* symmetry breaking for emission: payloads are made in order p1, p2, p3
Ordered == /\ (holder["p2"] # "none" => holder["p1"] # "none")
           /\ (holder["p3"] # "none" => holder["p2"] # "none")
=============================================================================
