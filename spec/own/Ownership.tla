----------------------------- MODULE Ownership -----------------------------
(***************************************************************************)
(* Who owns each value that crosses the FFI boundary, and who drops it.    *)
(*                                                                         *)
(* Payloads: Rust values with drop glue (boxed opaques, elements of owned  *)
(* slices, structs holding them, callback contexts).                       *)
(* Containers: the FFI-safe wrappers of diplomat-runtime —                 *)
(*   "res"    DiplomatResult<T,E>     (runtime/src/result.rs)              *)
(*   "opt"    DiplomatOption<T>                                            *)
(*   "oslice" DiplomatOwnedSlice<T>   (runtime/src/slices.rs)              *)
(*   "cb"     DiplomatCallback<R>     (runtime/src/callback.rs)            *)
(* and the generated handle API: Box<T> returned to foreign code and       *)
(* released through Type_destroy / C++ operator delete.                    *)
(* One action per API step.                                                *)
(***************************************************************************)
EXTENDS Naturals, FiniteSets, Sequences
CONSTANTS Payload, Container, CKind, MaxSteps
Holder == {"none", "rust", "foreign", "dropped"} \cup Container
VARIABLES holder,    \* holder[p] : who is responsible for dropping payload p
          drops,     \* drops[p]  : how many times p's destructor has run
          cstate,    \* cstate[c] : "free" | "rust" | "foreign" | "consumed" | "dropped"
          arm,       \* arm[c]    : "ok" | "err" for results (which union member is live), else "-"
          steps
vars == <<holder, drops, cstate, arm, steps>>

Init == /\ holder = [p \in Payload |-> "none"] /\ drops = [p \in Payload |-> 0]
        /\ cstate = [c \in Container |-> "free"] /\ arm = [c \in Container |-> "-"] /\ steps = 0
Tick == steps < MaxSteps /\ steps' = steps + 1
Held(c) == {p \in Payload : holder[p] = c}
DropSet(S) == /\ drops' = [p \in Payload |-> IF p \in S THEN drops[p] + 1 ELSE drops[p]]
              /\ holder' = [p \in Payload |-> IF p \in S THEN "dropped" ELSE holder[p]]

\* ---- plain values and handles --------------------------------------------------------------
\* Rust constructs a value (method body)                                  Box::new(Opaque)
RustMake(p) == Tick /\ holder[p] = "none" /\ drops[p] = 0
               /\ holder' = [holder EXCEPT ![p] = "rust"] /\ UNCHANGED <<drops, cstate, arm>>
\* returns it by Box: the foreign side now owns the handle                -> Box<T>
ReturnBox(p) == Tick /\ holder[p] = "rust"
                /\ holder' = [holder EXCEPT ![p] = "foreign"] /\ UNCHANGED <<drops, cstate, arm>>
\* foreign calls a method borrowing the handle                            &self / &T
BorrowCall(p) == Tick /\ holder[p] = "foreign" /\ UNCHANGED <<holder, drops, cstate, arm>>
\* foreign calls Type_destroy / unique_ptr releases                       Type_destroy(Box<T>)
Destroy(p) == Tick /\ holder[p] = "foreign" /\ DropSet({p}) /\ UNCHANGED <<cstate, arm>>
\* a Rust-held value goes out of scope
RustDrop(p) == Tick /\ holder[p] = "rust" /\ DropSet({p}) /\ UNCHANGED <<cstate, arm>>

\* ---- containers -----------------------------------------------------------------------------
\* std value -> FFI container                        From<Result>, From<Option>, From<Box<[T]>>
\* S: the payloads moved in (res: exactly 1; opt: 0 or 1; oslice: any; cb: exactly 1 = data)
Wrap(c, S, a) ==
  /\ Tick /\ a \in (IF CKind[c] = "res" THEN {"ok", "err"} ELSE {"-"}) /\ cstate[c] = "free" /\ \A p \in S : holder[p] = "rust"
  /\ CASE CKind[c] = "res" -> Cardinality(S) = 1
       [] CKind[c] = "opt" -> Cardinality(S) <= 1
       [] CKind[c] = "oslice" -> TRUE
       [] CKind[c] = "cb" -> Cardinality(S) = 1
  /\ holder' = [p \in Payload |-> IF p \in S THEN c ELSE holder[p]]
  /\ cstate' = [cstate EXCEPT ![c] = "rust"] /\ arm' = [arm EXCEPT ![c] = a]
  /\ UNCHANGED drops
\* a container crosses the boundary by value (bitwise move), either direction
PassToForeign(c) == Tick /\ cstate[c] = "rust" /\ cstate' = [cstate EXCEPT ![c] = "foreign"]
                    /\ UNCHANGED <<holder, drops, arm>>
PassToRust(c) == Tick /\ cstate[c] = "foreign" /\ cstate' = [cstate EXCEPT ![c] = "rust"]
                 /\ UNCHANGED <<holder, drops, arm>>
\* borrow of the contents (as_ref / Deref / run_callback): touches the payloads
Peek(c) == Tick /\ cstate[c] = "rust" /\ UNCHANGED <<holder, drops, cstate, arm>>
\* FFI container -> std value: the payload moves out; the container must NOT drop it again.
\* (SuppressOnInto = FALSE is the negative model: the container's Drop still runs.)
SuppressOnInto == TRUE
Unwrap(c) ==
  /\ Tick /\ cstate[c] = "rust" /\ CKind[c] # "cb"
  /\ cstate' = [cstate EXCEPT ![c] = "consumed"]
  /\ holder' = [p \in Payload |-> IF holder[p] = c THEN "rust" ELSE holder[p]]
  /\ IF SuppressOnInto THEN UNCHANGED drops
     ELSE drops' = [p \in Payload |-> IF holder[p] = c THEN drops[p] + 1 ELSE drops[p]]
  /\ UNCHANGED arm
\* FFI container dropped while holding its payload           Drop for DiplomatResult / OwnedSlice /
\*                                                            DiplomatCallback (runs the destructor)
DropContainer(c) == Tick /\ cstate[c] = "rust" /\ DropSet(Held(c))
                    /\ cstate' = [cstate EXCEPT ![c] = "dropped"] /\ UNCHANGED arm
\* Clone of a result/option: the clone c2 holds a fresh payload q cloned from c's
CloneInto(c, c2, q) ==
  /\ Tick /\ cstate[c] = "rust" /\ cstate[c2] = "free" /\ c # c2 /\ CKind[c] = CKind[c2]
  /\ CKind[c] \in {"res", "opt"}
  /\ IF Held(c) = {} THEN UNCHANGED holder
     ELSE holder[q] = "none" /\ drops[q] = 0 /\ holder' = [holder EXCEPT ![q] = c2]
  /\ cstate' = [cstate EXCEPT ![c2] = "rust"] /\ arm' = [arm EXCEPT ![c2] = arm[c]]
  /\ UNCHANGED drops

Next == \/ \E p \in Payload : RustMake(p) \/ ReturnBox(p) \/ BorrowCall(p) \/ Destroy(p) \/ RustDrop(p)
        \/ \E c \in Container : PassToForeign(c) \/ PassToRust(c) \/ Unwrap(c) \/ DropContainer(c) \/ Peek(c)
        \/ \E c \in Container, S \in SUBSET Payload, a \in {"ok", "err", "-"} : Wrap(c, S, a)
        \/ \E c, c2 \in Container, q \in Payload : CloneInto(c, c2, q)
Spec == Init /\ [][Next]_vars

\* ---- properties (C03) ------------------------------------------------------------------------
AtMostOnce == \A p \in Payload : drops[p] <= 1
DroppedMeansOnce == \A p \in Payload : (holder[p] = "dropped") => drops[p] = 1
LiveMeansZero == \A p \in Payload : (holder[p] \notin {"dropped"}) => drops[p] = 0
Quiescent == /\ \A p \in Payload : holder[p] \in {"none", "dropped"}
             /\ \A c \in Container : cstate[c] \in {"free", "consumed", "dropped"}
\* nothing can be stranded: a payload inside a container is reachable through a live container
NoStrand == \A p \in Payload : holder[p] \in Container => cstate[holder[p]] \in {"rust", "foreign"}
ExactlyOnce == Quiescent => \A p \in Payload : holder[p] = "dropped" => drops[p] = 1
=============================================================================
