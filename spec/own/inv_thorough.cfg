SPECIFICATION Spec
CONSTANTS
  Payload <- MCPayload
  Container <- MCContainer
  CKind <- MCKind
  MaxSteps = 11
INVARIANTS AtMostOnce DroppedMeansOnce LiveMeansZero NoStrand ExactlyOnce
