---------------------------- MODULE MC_Ownership ----------------------------
EXTENDS Ownership, TLC
MCPayload == {"p1", "p2", "p3"}
MCContainer == {"res", "opt", "osl", "cb", "res2"}
MCKind == [c \in MCContainer |-> CASE c = "res" -> "res" [] c = "res2" -> "res" [] c = "opt" -> "opt"
                                   [] c = "osl" -> "oslice" [] c = "cb" -> "cb"]
\* negative model: converting into the std value forgets to disarm the container's Drop
NoSuppress == FALSE
=============================================================================
