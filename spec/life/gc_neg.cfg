SPECIFICATION Spec
CONSTANTS
  L = {"a", "b"}
  ParamKinds <- SmallParamKinds
  RetKinds <- SmallRetKinds
  SelfKinds = {"none", "ref"}
  NParams = {1}
  Edges <- EdgesMinusOne
INVARIANTS NoUseAfterFree
