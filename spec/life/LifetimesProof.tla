--------------------------- MODULE LifetimesProof ---------------------------
(* Unbounded proof (TLAPS) of the operational half of C04/C11: for ANY signature, any lifetime set and any schedule of host-side *)
(* drops and collections, keeping exactly the MustKeep parameters reachable from the returned value means that nothing the      *)
(* returned value may borrow from is ever collected while it is alive.  (The borrow relation itself -- Outlives / MayFlow -- is   *)
(* left uninterpreted here: the proof holds for whatever it is; TLC checks the concrete relation against the implementation.)     *)
EXTENDS Lifetimes, TLAPS

IndInv == /\ retLive \in BOOLEAN
          /\ phase \in {"sig", "called"}
          /\ phase = "sig" => freed = {} /\ borrows = {}
          /\ borrows \subseteq Required(sig)
          /\ retLive => freed \cap Required(sig) = {}

LEMMA InitOK == Init => IndInv
  BY DEF Init, IndInv

LEMMA StepOK == IndInv /\ [Next]_vars => IndInv'
<1> SUFFICES ASSUME IndInv, [Next]_vars PROVE IndInv'
  OBVIOUS
<1>1. CASE Call
  <2>1. sig' = sig /\ freed' = freed /\ retLive' = TRUE /\ phase' = "called"
    BY <1>1 DEF Call
  <2>2. borrows' \subseteq Required(sig)
    BY <1>1 DEF Call, Required, MustKeep
  <2>3. freed = {}
    BY <1>1 DEF Call, IndInv
  <2> QED
    BY <2>1, <2>2, <2>3 DEF IndInv
<1>2. ASSUME NEW p \in {"self", "x", "y"}, DropRoot(p) PROVE IndInv'
  BY <1>2 DEF DropRoot, IndInv
<1>3. CASE DropRet
  BY <1>3 DEF DropRet, IndInv
<1>4. CASE GC
  <2>1. sig' = sig /\ retLive' = retLive /\ borrows' = borrows /\ phase' = phase /\ phase = "called"
    BY <1>4 DEF GC
  <2>2. ASSUME retLive PROVE freed' \cap Required(sig) = {}
    BY <1>4, <2>2 DEF GC, Reachable, Edges, IndInv
  <2> QED
    BY <2>1, <2>2 DEF IndInv
<1>5. CASE UNCHANGED vars
  BY <1>5 DEF vars, IndInv
<1> QED
  BY <1>1, <1>2, <1>3, <1>4, <1>5 DEF Next

THEOREM Safety == Spec => []NoUseAfterFree
<1>1. IndInv => NoUseAfterFree
  BY DEF IndInv, NoUseAfterFree
<1> QED
  BY <1>1, InitOK, StepOK, PTL DEF Spec
=============================================================================
