----------------------------- MODULE MC_Lifetimes -----------------------------
EXTENDS Lifetimes, Json
AllParamKinds == {"opq", "optopq", "slice", "opqlt", "st1", "st2", "st2b", "st2w", "nst2", "stv", "stvo", "pself"}
EmitGetters == PrintT(<<"GETTERS", ToJson([k \in DOMAIN StructFields |-> [l \in {"p", "q"} |-> FieldsFor(k, l)]])>>)
               /\ PrintT(<<"NESTED", ToJson([k \in DOMAIN StructFields |-> [l \in {"p", "q"} |-> NestedFor(k, l)]])>>)
               /\ PrintT(<<"BUFFERS", ToJson([k \in DOMAIN StructFields |-> [l \in {"p", "q"} |-> BuffersFor(k, l)]])>>)
AllRetKinds == {"ropq", "roptopq", "rslice", "rbox", "rst1", "rst2", "ropqlt", "rerr1", "rwerr1", "rokerr"}
SmallParamKinds == {"opq", "slice", "opqlt", "st2b"}
SmallRetKinds == {"ropq", "rbox", "rst2"}
\* negative model: drop one required edge
EdgesMinusOne(s) == IF Required(s) = {} THEN {} ELSE Required(s) \ {CHOOSE p \in Required(s) : TRUE}
\* emission of every signature in scope (accepted or not) with the expected analysis result
EmitInit == sig \in Sig /\ phase = "sig" /\ rooted = {} /\ retLive = FALSE /\ borrows = {} /\ freed = {}
EmitSpec == EmitInit /\ [][FALSE]_vars
Emit == LET d == Desugar(sig) IN
        PrintT(<<"CASE", ToJson([sig |-> sig, accepted |-> Accepted(sig),
                    missing |-> IF ElidedRet(sig.ret.kind)
                                  THEN (MustRestate(d) \cup Named(RetRefImplied(d))) \ TC(Named(d.decl \cup InputRefImplied(d)))
                                  ELSE MustRestate(d) \ TC(Named(Spelled(d))),
                    edges |-> [r \in OutLts(d) |-> EdgeList(d, r)]])>>)
=============================================================================
