SPECIFICATION EmitSpec
CONSTANTS
  L = {"a", "b"}
  ParamKinds <- AllParamKinds
  RetKinds <- AllRetKinds
  SelfKinds = {"none", "ref", "sf2b"}
  NParams = {1}
INVARIANTS Emit
