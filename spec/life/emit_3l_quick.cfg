SPECIFICATION EmitSpec
CONSTANTS
  L = {"a", "b", "c"}
  ParamKinds = {"opq"}
  RetKinds = {"ropq"}
  SelfKinds = {"ref"}
  NParams = {1, 2}
INVARIANTS Emit
