SPECIFICATION EmitSpec
CONSTANTS
  L = {"a", "b", "c", "d"}
  ParamKinds = {"opq"}
  RetKinds = {"ropq"}
  SelfKinds = {"ref"}
  NParams = {1}
INVARIANTS Emit
