SPECIFICATION EmitSpec
CONSTANTS
  L = {"a", "b"}
  ParamKinds = {"opq", "opqlt"}
  RetKinds = {"ropqlt_e", "rokerr_e", "rost1_e", "reost1_e", "ropqlt"}
  SelfKinds = {"ref"}
  NParams = {1}
INVARIANTS Emit
