SPECIFICATION EmitSpec
CONSTANTS
  L = {"a"}
  ParamKinds = {"opq"}
  RetKinds = {"ropq"}
  SelfKinds = {"none"}
  NParams = {1}
INVARIANTS EmitGetters
