SPECIFICATION EmitSpec
CONSTANTS
  L = {"a", "b"}
  ParamKinds <- SmallParamKinds
  RetKinds <- SmallRetKinds
  SelfKinds = {"none", "ref"}
  NParams = {2}
INVARIANTS Emit
