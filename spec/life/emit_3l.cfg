SPECIFICATION EmitSpec
CONSTANTS
  L = {"a", "b", "c"}
  ParamKinds <- SmallParamKinds
  RetKinds <- SmallRetKinds
  SelfKinds = {"ref"}
  NParams = {1}
INVARIANTS Emit
