SPECIFICATION EmitSpec
CONSTANTS
  L = {"a", "b"}
  ParamKinds = {"st2b", "st2w"}
  RetKinds = {"ropq"}
  SelfKinds = {"none", "sf2b"}
  NParams = {2}
INVARIANTS Emit
