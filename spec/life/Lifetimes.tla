------------------------------ MODULE Lifetimes ------------------------------
(***************************************************************************)
(* Borrow edges (core/src/hir/methods/borrowing_param.rs, lifetimes.rs,    *)
(* ast/lifetimes.rs, type_context.rs validate).                            *)
(*                                                                         *)
(* A method signature mentions named lifetimes with declared bounds; the   *)
(* types used imply further bounds (Rust reference: `&'x T<'y>` implies    *)
(* 'y: 'x; the bounds written on a struct/opaque definition hold at every  *)
(* use, including the Self type of the impl).  A returned value of         *)
(* lifetime 'r may borrow from a parameter iff one of the parameter's      *)
(* lifetimes outlives 'r.  Garbage-collected hosts must keep exactly those *)
(* parameters alive while the returned value is alive.                     *)
(*                                                                         *)
(* The second half of the module is a GC heap machine that gives the       *)
(* property its operational meaning: with Edges = MustKeep no schedule of  *)
(* host-side drops and collections frees something still borrowed.         *)
(***************************************************************************)
EXTENDS Naturals, Sequences, FiniteSets, TLC
CONSTANTS L,            \* named lifetimes, e.g. {"a","b"}
          ParamKinds,   \* subset of the parameter kinds below
          RetKinds,     \* subset of the return kinds below
          SelfKinds,    \* subset of {"none","ref","sf2b"}
          NParams       \* set of parameter counts, e.g. {1} or {1,2}
LS == L \cup {"static", "anon"}     \* what may be written in an input lifetime slot
LR == L \cup {"static"}             \* ... in the return type (no elision in returns)

\* parameter kinds: number of lifetime slots, which slots belong to a struct definition
\*   opq    &'1 Opq              optopq Option<&'1 Opq>        slice  &'1 [u8]
\*   opqlt  &'1 OpLt<'2>         (implies '2: '1)
\*   st1    St1<'1>              st2    St2<'1,'2>             st2b   St2b<'1,'2>  (definition: 'q: 'p, i.e. '2: '1)
\*   nst2   Nst2<'1,'2>          a struct whose fields are themselves borrowing structs (St1<'p>, St2<'q,'q>)
\*   pself  &'1 Self             a parameter typed with the `Self` KEYWORD inside `impl<'a,'b> Sf<'a,'b>` (self kind sf2b): it is
\*                               `&'1 Sf<'a,'b>`, so 'a: '1 and 'b: '1 hold -- but, unlike for a spelled-out type, Diplomat does not
\*                               add these bounds by itself: the method has to declare them
\*   stv    StV<'1,'2>           { f: &'p OpLt<'q>, s: DiplomatSlice<'q, u8> }: one field mentions BOTH lifetimes; the field's type
\*                               implies 'q: 'p on the definition (inferred by Rust, and by Diplomat: it must be restated)
Slots(k) == IF k \in {"opq", "optopq", "slice", "st1", "pself"} THEN 1 ELSE 2
\*   st2w   St2w<'1,'2>          the same definition as st2b with the bound written in a WHERE clause (struct St2w<'p,'q> where 'q: 'p)
\*   stvo   StVo<'1,'2>          { f: Option<&'p OpLt<'q>>, s: DiplomatSlice<'q, u8> }: as stv, the reference sits inside an Option --
\*                               the field's type still implies 'q: 'p
IsStruct(k) == k \in {"st1", "st2", "st2b", "st2w", "nst2", "stv", "stvo"}
\* the struct definitions as data: for every field, which definition lifetimes its type mentions.  A host object made from a
\* struct must hold on to field f for as long as anything borrowing for lifetime l lives, for every l that f's type mentions.
StructFields == [st1  |-> <<[n |-> "f", lts |-> {"p"}]>>,
                 st2  |-> <<[n |-> "f", lts |-> {"p"}], [n |-> "g", lts |-> {"q"}]>>,
                 st2b |-> <<[n |-> "f", lts |-> {"p"}], [n |-> "g", lts |-> {"q"}]>>,
                 st2w |-> <<[n |-> "f", lts |-> {"p"}], [n |-> "g", lts |-> {"q"}]>>,
                 nst2 |-> <<[n |-> "a", lts |-> {"p"}], [n |-> "b", lts |-> {"q"}]>>,
                 stv  |-> <<[n |-> "f", lts |-> {"p", "q"}], [n |-> "s", lts |-> {"q"}]>>,
                 stvo |-> <<[n |-> "f", lts |-> {"p", "q"}], [n |-> "s", lts |-> {"q"}]>>,
                 \* sto: StO<'p,'q> { f: &'p Opq, s: DiplomatSlice<'p,u8>, o: DiplomatOption<DiplomatStrSlice<'q>>,
                 \*                   w: DiplomatOption<DiplomatSlice<'p,u16>>, n: DiplomatOption<u8> } -- optional fields borrow like plain ones
                 sto  |-> <<[n |-> "f", lts |-> {"p"}], [n |-> "s", lts |-> {"p"}], [n |-> "o", lts |-> {"q"}], [n |-> "w", lts |-> {"p"}],
                            [n |-> "n", lts |-> {}]>>]
\* fields that are themselves borrowing structs: the definition lifetimes OF THE NESTED struct that the outer lifetime l is plugged
\* into (Nst2<'p,'q> { a: St1<'p>, b: St2<'q,'q> }): what the nested struct keeps alive for those is kept alive for l -- a link per
\* (outer lifetime, nested argument position), whatever the positions are
NestedLinks == [nst2 |-> [p |-> {<<"a", "p">>}, q |-> {<<"b", "p">>, <<"b", "q">>}]]
NestedFor(k, l) == IF k \in DOMAIN NestedLinks THEN NestedLinks[k][l] ELSE {}
FieldsFor(k, l) == {StructFields[k][i].n : i \in {j \in 1..Len(StructFields[k]) : l \in StructFields[k][j].lts}}
\* fields that are BUFFERS the binding has to copy into native memory (slices, strings, optional or not): the copy made for a field
\* whose type mentions lifetime l must live in memory that is released only when everything borrowing for l is gone -- never in the
\* arena that is dropped when the call returns
BufferFields == [st1 |-> {}, st2 |-> {}, st2b |-> {}, st2w |-> {}, nst2 |-> {}, stv |-> {"s"}, stvo |-> {"s"}, sto |-> {"s", "o", "w"}]
BuffersFor(k, l) == FieldsFor(k, l) \cap BufferFields[k]
EdgeKind(k) == IF k = "slice" THEN "slice" ELSE IF IsStruct(k) THEN "struct" ELSE "opaque"
DefLt(k, i) == IF i = 1 THEN "p" ELSE "q"           \* names of the struct definitions' lifetimes
\* return kinds:  ropq &'1 Opq | roptopq Option<&'1 Opq> | rslice &'1 str | rbox Box<OpLt<'1>> | rst1 St1<'1>
\*                rst2 St2<'1,'2> | ropqlt &'1 OpLt<'2> (implies '2: '1)
\*                rerr1 Result<(), Er1<'1>> | rwerr1 Result<(), Er1<'1>> with a write-out | rokerr Result<&'1 Opq, Er1<'2>>
\*                (the ERROR type of a fallible method is part of the returned value: the thrown error object borrows, too)
\* PARTLY elided returns (the reference's own lifetime left out, a lifetime ARGUMENT written):
\*                ropqlt_e &OpLt<'1> | rokerr_e Result<&Opq, Er1<'1>>
\*                Rust's elision rule gives the elided borrow the lifetime of `&'l self`: with a NAMED 'l the signature is the
\*                same as the one with 'l written out (Desugar); with `&self` (or no self) the borrow stays anonymous, and an
\*                anonymous lifetime in a return type is refused -- wherever in the type it stands
RSlots(k) == IF k \in {"rst2", "ropqlt", "rokerr"} THEN 2 ELSE 1
\*                rost1_e Result<Option<St1>, ()> | reost1_e Result<(), Option<St1>>: the struct's lifetime ARGUMENT left out, the struct
\*                wrapped in an Option inside a Result arm (a DiplomatOption payload has lifetimes like any other type)
ZeroSlotKinds == {"rost1_e", "reost1_e"}
ElidedRet(k) == k \in {"ropqlt_e", "rokerr_e"} \cup ZeroSlotKinds
BaseKind(k) == IF k = "ropqlt_e" THEN "ropqlt" ELSE IF k = "rokerr_e" THEN "rokerr" ELSE IF k \in ZeroSlotKinds THEN "rst1" ELSE k
SelfNamed(s) == s.self.kind # "none" /\ s.self.slots[1] \in L
Desugar(s) == IF ElidedRet(s.ret.kind) /\ SelfNamed(s)
                THEN [s EXCEPT !.ret = [kind |-> BaseKind(s.ret.kind), slots |-> <<s.self.slots[1]>> \o s.ret.slots]]
                ELSE s

Tuples(S, n) == IF n = 1 THEN {<<x>> : x \in S} ELSE {<<x, y>> : x \in S, y \in S}
\* only the lifetime of a reference itself may be left anonymous; lifetime arguments of named types are written out
PSlotDom(k) == CASE k \in {"opq", "optopq", "slice", "pself"} -> {<<x>> : x \in LS}
                 [] k = "opqlt" -> {<<x, y>> : x \in LS, y \in LR}
                 [] k = "st1" -> {<<x>> : x \in LR}
                 [] OTHER -> {<<x, y>> : x \in LR, y \in LR}
Param == UNION {{[kind |-> k, slots |-> s] : s \in PSlotDom(k)} : k \in ParamKinds}
Ret == UNION {IF k \in ZeroSlotKinds THEN {[kind |-> k, slots |-> <<>>]} ELSE {[kind |-> k, slots |-> s] : s \in Tuples(LR, RSlots(k))} : k \in RetKinds}
\* self: none | &'l self (Self = Opq) | &'l self with Self = Sf<'a,'b> declared `struct Sf<'p, 'q: 'p>` on impl<'a,'b>
Self == (IF "none" \in SelfKinds THEN {[kind |-> "none", slots |-> <<>>]} ELSE {})
        \cup (IF "ref" \in SelfKinds THEN {[kind |-> "ref", slots |-> <<l>>] : l \in L \cup {"anon"}} ELSE {})
        \cup (IF "sf2b" \in SelfKinds /\ {"a", "b"} \subseteq L THEN {[kind |-> "sf2b", slots |-> <<l, "a", "b">>] : l \in L \cup {"anon"}} ELSE {})
Pairs == {xy \in L \X L : xy[1] # xy[2]}                 \* <<x,y>> means  'x: 'y  (x outlives y)
ParamSeqs == UNION {IF n = 1 THEN {<<p>> : p \in Param} ELSE {<<p, q>> : p \in Param, q \in Param} : n \in NParams}
\* `Self` only means something with lifetimes inside the impl of the borrowing type
PselfOK(s) == \A i \in 1..Len(s.params) : s.params[i].kind = "pself" => s.self.kind = "sf2b"
Sig == {s \in [decl : SUBSET Pairs, self : Self, params : ParamSeqs, ret : Ret] : PselfOK(s)}
\* bounds that hold because a parameter is `&'l Self` (Self = Sf<'a,'b>): true in Rust, NOT implied for Diplomat
PselfImplied(s) == UNION {{<<"a", s.params[i].slots[1]>>, <<"b", s.params[i].slots[1]>>} :
                            i \in {j \in 1..Len(s.params) : s.params[j].kind = "pself"}}

\* ---- bounds ---------------------------------------------------------------------------------
\* `&'x Named<'y..>` implies 'y: 'x   (only for references directly to a named type)
RetRefImplied(s) == IF s.ret.kind = "ropqlt" THEN {<<s.ret.slots[2], s.ret.slots[1]>>} ELSE {}
InputRefImplied(s) ==
  {<<s.params[i].slots[2], s.params[i].slots[1]>> : i \in {j \in 1..Len(s.params) : s.params[j].kind = "opqlt"}}
  \cup (IF s.self.kind = "sf2b" THEN {<<s.self.slots[2], s.self.slots[1]>>, <<s.self.slots[3], s.self.slots[1]>>} ELSE {})
RefImplied(s) == InputRefImplied(s) \cup RetRefImplied(s)
\* bounds written on the definitions of the types used, instantiated at the use
DefImplied(s) ==
  {<<s.params[i].slots[2], s.params[i].slots[1]>> : i \in {j \in 1..Len(s.params) : s.params[j].kind \in {"st2b", "st2w", "stv", "stvo"}}}
  \cup (IF s.self.kind = "sf2b" THEN {<<s.self.slots[3], s.self.slots[2]>>} ELSE {})
Named(R) == {pr \in R : pr[1] \in L /\ pr[2] \in L /\ pr[1] # pr[2]}
\* transitive closure by repeated squaring: n rounds close every chain of up to 2^n links, so Cardinality(L) rounds are exact
\* (a recursive FUNCTION rather than a RECURSIVE operator, and no tuple patterns, so that TLAPS can load this module)
Sq(R) == R \cup {xz \in L \X L : \E y \in L : <<xz[1], y>> \in R /\ <<y, xz[2]>> \in R}
TC(R) == LET f[n \in Nat] == IF n = 0 THEN R ELSE Sq(f[n - 1]) IN f[Cardinality(L)]
Outlives(s) == TC(Named(s.decl \cup RefImplied(s) \cup DefImplied(s) \cup PselfImplied(s)) \cup {<<l, l>> : l \in L})

\* ---- the gate's last clause: bounds implied by definitions must be spelled out on the method ---
\* ('static satisfies any bound; a bound between equal lifetimes is trivial; a bound already implied by
\*  a reference type counts as stated)
Spelled(s) == s.decl \cup RefImplied(s)
MustRestate(s) == {pr \in DefImplied(s) \cup PselfImplied(s) : pr[1] \in L /\ pr[2] \in L /\ pr[1] # pr[2]}
\* "spelled out" = entailed by what is written on the method: the transitive closure of the declared bounds and
\* of the bounds that reference types imply by themselves
AcceptedCore(s) == MustRestate(s) \subseteq TC(Named(Spelled(s)))
\* (as built) the bound a returned `&'l OpLt<'x>` implies by itself, 'x: 'l, counts as stated only when 'l is WRITTEN: for an elided
\* borrow that inherits 'l from `&'l self` the tool asks for it on the method ("Method should explicitly include this lifetime bound")
\* (the same bound implied by a PARAMETER's written reference still counts)
AcceptedElided(s) == LET d == Desugar(s) IN
  SelfNamed(s) /\ (MustRestate(d) \cup Named(RetRefImplied(d))) \subseteq TC(Named(d.decl \cup InputRefImplied(d)))
Accepted(s) == IF ElidedRet(s.ret.kind) THEN AcceptedElided(s) ELSE AcceptedCore(s)

\* ---- what must be kept alive ----------------------------------------------------------------
PNames(s) == (IF s.self.kind = "none" THEN {} ELSE {"self"}) \cup {IF i = 1 THEN "x" ELSE "y" : i \in 1..Len(s.params)}
PParam(s, p) == IF p = "x" THEN s.params[1] ELSE s.params[2]
PSlots(s, p) == IF p = "self" THEN s.self.slots
                ELSE IF PParam(s, p).kind = "pself" THEN PParam(s, p).slots \o <<"a", "b">>      \* &'l Sf<'a,'b>
                ELSE PParam(s, p).slots
PKind(s, p) == IF p = "self" THEN "self" ELSE IF p = "x" THEN s.params[1].kind ELSE s.params[2].kind
SlotSet(t) == {t[i] : i \in 1..Len(t)}
OutLts(s) == SlotSet(s.ret.slots) \cap L               \* non-static lifetimes of the return type
MayFlow(s, p, r) == \E l \in SlotSet(PSlots(s, p)) \cap L : <<l, r>> \in Outlives(s)
MustKeep(s, r) == {p \in PNames(s) : MayFlow(s, p, r)}
\* the edge list the analysis is to report for output lifetime r: one entry per opaque/slice parameter,
\* one entry per qualifying lifetime slot of a struct parameter (named after the definition's lifetime)
EdgeList(s, r) ==
  {[param |-> p, kind |-> "opaque", def |-> "-"] : p \in {q \in MustKeep(s, r) : q = "self"}}
  \cup UNION {
     IF IsStruct(PKind(s, p))
       THEN {[param |-> p, kind |-> "struct", def |-> DefLt(PKind(s, p), i)] :
               i \in {j \in 1..Len(PSlots(s, p)) : PSlots(s, p)[j] \in L /\ <<PSlots(s, p)[j], r>> \in Outlives(s)}}
       ELSE {[param |-> p, kind |-> EdgeKind(PKind(s, p)), def |-> "-"]}
     : p \in MustKeep(s, r) \ {"self"}}

\* ---- GC heap machine ------------------------------------------------------------------------
VARIABLES sig, phase, rooted, retLive, borrows, freed
vars == <<sig, phase, rooted, retLive, borrows, freed>>
Required(s) == UNION {MustKeep(s, r) : r \in OutLts(s)}
Edges(s) == Required(s)                                  \* overridden in negative models
Init == /\ sig \in {s \in Sig : Accepted(s)}
        /\ phase = "sig" /\ rooted = PNames(sig) /\ retLive = FALSE /\ borrows = {} /\ freed = {}
\* the Rust body may borrow from anything the type system lets flow into the return value
Call == /\ phase = "sig"
        /\ \E b \in SUBSET {p \in PNames(sig) : \E r \in OutLts(sig) : MayFlow(sig, p, r)} : borrows' = b
        /\ phase' = "called" /\ retLive' = TRUE
        /\ UNCHANGED <<sig, rooted, freed>>
DropRoot(p) == phase = "called" /\ p \in rooted /\ rooted' = rooted \ {p}
               /\ UNCHANGED <<sig, phase, retLive, borrows, freed>>
DropRet == phase = "called" /\ retLive /\ retLive' = FALSE /\ UNCHANGED <<sig, phase, rooted, borrows, freed>>
HasStatic(p) == "static" \in SlotSet(PSlots(sig, p))
Reachable(p) == p \in rooted \/ (retLive /\ p \in Edges(sig))
GC == phase = "called" /\ freed' = freed \cup {p \in PNames(sig) : ~Reachable(p)}
      /\ UNCHANGED <<sig, phase, rooted, retLive, borrows>>
Next == Call \/ (\E p \in {"self", "x", "y"} : p \in PNames(sig) /\ DropRoot(p)) \/ DropRet \/ GC
Spec == Init /\ [][Next]_vars
NoUseAfterFree == retLive => borrows \cap freed = {}
\* edges are also minimal: nothing is kept that Rust could not have borrowed from
NoSpuriousEdge == \A p \in Edges(sig) : \E r \in OutLts(sig) : MayFlow(sig, p, r)
=============================================================================
