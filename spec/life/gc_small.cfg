SPECIFICATION Spec
CONSTANTS
  L = {"a", "b"}
  ParamKinds <- SmallParamKinds
  RetKinds <- SmallRetKinds
  SelfKinds = {"none", "ref", "sf2b"}
  NParams = {1}
INVARIANTS NoUseAfterFree NoSpuriousEdge
