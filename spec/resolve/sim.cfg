SPECIFICATION Spec
CONSTANTS
  Styles = {"super", "crate"}
  MaxImports = 4
  Renames = {TRUE, FALSE}
  Pubs = {TRUE, FALSE}
  FieldChoice = TRUE
INVARIANTS ProgramValid ToolAgrees SelfUnsupported FieldInOwnModule AliasTransparent Emit
CHECK_DEADLOCK FALSE
