SPECIFICATION Spec
CONSTANTS
  Styles = {"super"}
  MaxImports = 1
  Renames = {TRUE, FALSE}
  Pubs = {TRUE, FALSE}
  FieldChoice = FALSE
INVARIANTS ProgramValid ToolAgrees SelfUnsupported FieldInOwnModule AliasTransparent PrivacyOnlyRestricts
CHECK_DEADLOCK FALSE
