---- MODULE MC_Resolve ----
EXTENDS Resolve, Json
\* one line per finished program: the program, what Rust resolves the two paths to, and whether the tool is expected to panic (`self`)
ImpList(m) == SetToSeq(imps[m])
Emit == Done => PrintT(<<"CASE", ToJson([a |-> ImpList(MA), b |-> ImpList(MB), c |-> ImpList(MC), site |-> site, fld |-> fld,
                                         site_type |-> Name(RustType(imps, site.m, site.p).t),
                                         site_abs |-> AbsPath(RustType(imps, site.m, site.p).t),
                                         fld_type |-> Name(RustType(imps, MB, fld).t),
                                         tool_site |-> LET t == ToolType(imps, site.m, site.p) IN IF t.k = "type" THEN Name(t.t) ELSE "PANIC",
                                         tool_fld |-> LET t == ToolType(imps, MB, fld) IN IF t.k = "type" THEN Name(t.t) ELSE "PANIC"])>>)
====
