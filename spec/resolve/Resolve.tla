------------------------------ MODULE Resolve ------------------------------
(***************************************************************************)
(* Extension spec (no listed property): which custom type a PATH written   *)
(* in a bridge module denotes.                                             *)
(*                                                                         *)
(* The tool never asks rustc: core/src/ast/types.rs                        *)
(* PathType::resolve_with_path walks `crate` / `super` / identifiers       *)
(* through its own environment (core/src/environment.rs Env: per module    *)
(* the declared types, the sub-modules and one Alias per `use` item, built *)
(* by core/src/ast/modules.rs insert_all_types / extract_imports).  The    *)
(* generated bindings are right only if that walk ends at the type rustc   *)
(* resolves the same path to -- for every placement of `use` items         *)
(* (renamed, grouped, chained through other modules, naming modules        *)
(* instead of types), for absolute and relative paths, in top-level and    *)
(* nested bridge modules, in parameter position and in struct fields       *)
(* (which are resolved in the module of the STRUCT, not of the use site).  *)
(*                                                                         *)
(* Res is Rust's rule (2018 paths, item privacy of imports); DRes is the   *)
(* tool's walk, transcribed.  TLC shows DRes = Res on every valid program  *)
(* of the bounded space that does not start a path with `self`; the        *)
(* replay compiles the emitted programs with rustc + the real macro (a     *)
(* type ascription in the method body fails to compile unless rustc        *)
(* resolves the path to the type Res names) and reads the tool's answer    *)
(* from the generated C header.                                            *)
(***************************************************************************)
EXTENDS Naturals, Sequences, FiniteSets, SequencesExt, TLC
CONSTANTS Styles,        \* how a `use` item spells its path: subset of {"crate", "super"}
          MaxImports,    \* total number of `use` items in the program
          Renames,       \* BOOLEAN subset: may a `use` rename (`as`)
          Pubs,          \* BOOLEAN subset: `pub use` / `use`
          FieldChoice    \* BOOLEAN: is the field path of struct Sb chosen (TRUE) or its own enum (FALSE)

\* ---- the module tree:  crate { a (bridge), b (bridge), o { c (bridge) } } -------------------
Root == <<>>
MA == <<"a">>
MB == <<"b">>
MO == <<"o">>
MC == <<"o", "c">>
Mods == {Root, MA, MB, MO, MC}
Bridge == {MA, MB, MC}
Tag(m) == IF m = MA THEN "a" ELSE IF m = MB THEN "b" ELSE "c"
Parent(m) == SubSeq(m, 1, Len(m) - 1)
\* every bridge module declares an opaque O?, an enum E? and a struct S? with one enum-typed field
Types == [k : {"O", "E", "S"}, m : Bridge]
Name(t) == t.k \o Tag(t.m)
AbsPath(t) == t.m \o <<Name(t)>>

\* ---- a program ------------------------------------------------------------------------------
\* imps[m]: set of [p: path as written, n: name bound, pub: BOOLEAN]; site: the parameter path; fld: the field path of Sb
VARIABLES imps, site, fld, stage
vars == <<imps, site, fld, stage>>

NoT == [k |-> "-", m |-> Root]
R(k, t, m, p, pub) == [k |-> k, t |-> t, m |-> m, p |-> p, pub |-> pub]
Fail == R("fail", NoT, Root, <<>>, FALSE)
TypeR(t) == R("type", t, Root, <<>>, FALSE)
ModR(m) == R("mod", NoT, m, <<>>, FALSE)

\* what one identifier means inside module `cur`
Lookup(im, cur, e) ==
  IF cur \in Bridge /\ \E t \in Types : t.m = cur /\ Name(t) = e
    THEN TypeR(CHOOSE t \in Types : t.m = cur /\ Name(t) = e)
  ELSE IF cur \o <<e>> \in Mods THEN ModR(cur \o <<e>>)
  ELSE IF cur \in Bridge /\ \E i \in im[cur] : i.n = e
    THEN LET i == CHOOSE i \in im[cur] : i.n = e IN R("alias", NoT, Root, i.p, i.pub)
  ELSE Fail

\* ---- Rust: `from` is the module the path is written in (privacy is judged from there) --------
RECURSIVE Res(_, _, _, _, _)
Res(im, from, cur, p, fuel) ==
  IF fuel = 0 \/ p = <<>> THEN Fail
  ELSE LET e == Head(p)
           rest == Tail(p) IN
    IF e = "crate" THEN Res(im, from, Root, rest, fuel)
    ELSE IF e = "super" THEN (IF cur = Root THEN Fail ELSE Res(im, from, Parent(cur), rest, fuel))
    ELSE IF e = "self" THEN Res(im, from, cur, rest, fuel)
    ELSE LET s == Lookup(im, cur, e) IN
      IF s.k = "fail" THEN Fail
      ELSE IF s.k = "type" THEN (IF rest = <<>> THEN s ELSE Fail)
      ELSE IF s.k = "mod" THEN (IF rest = <<>> THEN s ELSE Res(im, from, s.m, rest, fuel))
      ELSE \* an import: usable from its own module and the modules inside it, from elsewhere only when `pub`
           IF ~(s.pub \/ IsPrefix(cur, from)) THEN Fail
           ELSE LET t == Res(im, cur, cur, s.p, fuel - 1) IN     \* the `use` path is written in `cur`
                IF t.k = "type" THEN (IF rest = <<>> THEN t ELSE Fail)
                ELSE IF t.k = "mod" THEN (IF rest = <<>> THEN t ELSE Res(im, from, t.m, rest, fuel))
                ELSE Fail

\* ---- the tool (PathType::resolve_with_path): no privacy, no `self`; an alias is spliced into the path and the
\* ---- walk restarts in the module where the alias was found
RECURSIVE DRes(_, _, _, _)
DRes(im, cur, p, fuel) ==
  IF fuel = 0 \/ p = <<>> THEN Fail
  ELSE LET e == Head(p)
           rest == Tail(p) IN
    IF e = "crate" THEN DRes(im, Root, rest, fuel)
    ELSE IF e = "super" THEN DRes(im, IF cur = Root THEN Root ELSE Parent(cur), rest, fuel)
    ELSE LET s == Lookup(im, cur, e) IN            \* `self` is looked up like any identifier: not found
      IF s.k = "fail" THEN Fail
      ELSE IF s.k = "type" THEN (IF rest = <<>> THEN s ELSE Fail)
      ELSE IF s.k = "mod" THEN (IF rest = <<>> THEN Fail ELSE DRes(im, s.m, rest, fuel))
      ELSE DRes(im, cur, s.p \o rest, fuel - 1)

\* negative model: the spliced path is walked from the module of the USE SITE instead of the alias's module
RECURSIVE DResBad(_, _, _, _, _)
DResBad(im, home, cur, p, fuel) ==
  IF fuel = 0 \/ p = <<>> THEN Fail
  ELSE LET e == Head(p)
           rest == Tail(p) IN
    IF e = "crate" THEN DResBad(im, home, Root, rest, fuel)
    ELSE IF e = "super" THEN DResBad(im, home, IF cur = Root THEN Root ELSE Parent(cur), rest, fuel)
    ELSE LET s == Lookup(im, cur, e) IN
      IF s.k = "fail" THEN Fail
      ELSE IF s.k = "type" THEN (IF rest = <<>> THEN s ELSE Fail)
      ELSE IF s.k = "mod" THEN (IF rest = <<>> THEN Fail ELSE DResBad(im, home, s.m, rest, fuel))
      ELSE DResBad(im, home, home, s.p \o rest, fuel - 1)

Fuel == 5
RustType(im, m, p) == Res(im, m, m, p, Fuel)
ToolType(im, m, p) == DRes(im, m, p, Fuel)

\* ---- building programs ----------------------------------------------------------------------
Supers(n) == [i \in 1..n |-> "super"]
Spell(from, abs, style) == IF style = "crate" THEN <<"crate">> \o abs ELSE Supers(Len(from)) \o abs
NamesIn(im, m) == {Name(t) : t \in {x \in Types : x.m = m}} \cup (IF m \in Bridge THEN {i.n : i \in im[m]} ELSE {}) \cup {Last(x) : x \in {y \in Mods : y # Root /\ Parent(y) = m}}
TotalImports(im) == Cardinality(im[MA]) + Cardinality(im[MB]) + Cardinality(im[MC])
\* everything a `use` in module m may name: a foreign type, a module, or a name another module imported
UseTargets(im, m) ==
  {AbsPath(t) : t \in {x \in Types : x.m # m}}
  \cup (Mods \ {Root, m})
  \cup {x \o <<i.n>> : x \in Bridge \ {m}, i \in UNION {im[y] : y \in Bridge}}
AliasNames(m) == {"X" \o Tag(m), "Y" \o Tag(m)}
AddImport(m) ==
  /\ stage = "imports" /\ TotalImports(imps) < MaxImports
  /\ \E abs \in UseTargets(imps, m), style \in Styles, ren \in Renames, pub \in Pubs :
       LET p == Spell(m, abs, style)
           n == IF ren THEN (CHOOSE x \in AliasNames(m) : TRUE) ELSE Last(abs)
           n2 == IF n \in NamesIn(imps, m) /\ ren THEN "Y" \o Tag(m) ELSE n IN
         /\ n2 \notin NamesIn(imps, m)
         /\ LET im2 == [imps EXCEPT ![m] = @ \cup {[p |-> p, n |-> n2, pub |-> pub]}] IN
              /\ RustType(im2, m, p).k \in {"type", "mod"}        \* rustc accepts the `use` item
              /\ imps' = im2
  /\ UNCHANGED <<site, fld, stage>>

\* paths one can write at a use site: up to two leading keywords, then up to three names
Leads == {<<>>, <<"self">>, <<"crate">>, <<"super">>, <<"super", "super">>}
AllNames(im) == UNION {NamesIn(im, m) : m \in Mods}
Bodies(im) == {<<x>> : x \in AllNames(im)} \cup {<<x, y>> : x, y \in AllNames(im)} \cup {<<x, y, z>> : x \in {"o"}, y \in {"c"}, z \in AllNames(im)}
SitePaths(im) == {pre \o b : pre \in Leads, b \in Bodies(im)}

ChooseField ==
  /\ stage = "imports"
  /\ IF FieldChoice
       THEN \E p \in SitePaths(imps) : RustType(imps, MB, p).k = "type" /\ RustType(imps, MB, p).t.k = "E" /\ fld' = p
       ELSE fld' = <<"Eb">>
  /\ stage' = "field" /\ UNCHANGED <<imps, site>>
ChooseSite ==
  /\ stage = "field"
  /\ \E m \in Bridge, p \in SitePaths(imps) : RustType(imps, m, p).k = "type" /\ site' = [m |-> m, p |-> p]
  /\ stage' = "done" /\ UNCHANGED <<imps, fld>>

Init == /\ imps = [m \in Bridge |-> {}] /\ site = [m |-> MA, p |-> <<"Oa">>] /\ fld = <<"Eb">> /\ stage = "imports"
Next == (\E m \in Bridge : AddImport(m)) \/ ChooseField \/ ChooseSite
Spec == Init /\ [][Next]_vars
Done == stage = "done"

\* ---- properties -----------------------------------------------------------------------------
UsesSelf(p) == p # <<>> /\ Head(p) = "self"
\* every `use` item of a finished program is one rustc accepts (the construction keeps programs valid)
ProgramValid == \A m \in Bridge : \A i \in imps[m] : RustType(imps, m, i.p).k \in {"type", "mod"}
\* the tool's walk ends where Rust's does, for the parameter and for the struct field
ToolAgrees == Done => /\ (~UsesSelf(site.p) => ToolType(imps, site.m, site.p) = RustType(imps, site.m, site.p))
                      /\ (~UsesSelf(fld) => ToolType(imps, MB, fld) = RustType(imps, MB, fld))
\* ... and a leading `self` is the one valid spelling the tool cannot walk (it looks `self` up as a name)
SelfUnsupported == Done => (UsesSelf(site.p) => ToolType(imps, site.m, site.p).k = "fail")
\* the struct field is resolved in the struct's module whatever module uses the struct
FieldInOwnModule == Done => RustType(imps, MB, fld).t.k = "E"
\* an import is transparent: naming it from its own module is naming what it imports
AliasTransparent == \A m \in Bridge : \A i \in imps[m] : RustType(imps, m, <<i.n>>) = RustType(imps, m, i.p)
\* privacy only ever removes programs: the tool (which ignores it) agrees with a Rust in which every import is `pub`
AllPub(im) == [m \in Bridge |-> {[p |-> i.p, n |-> i.n, pub |-> TRUE] : i \in im[m]}]
PrivacyOnlyRestricts == Done => RustType(AllPub(imps), site.m, site.p) = RustType(imps, site.m, site.p)
\* negative model (must be refuted)
BadToolAgrees == Done => (~UsesSelf(site.p) => DResBad(imps, site.m, site.m, site.p, Fuel) = RustType(imps, site.m, site.p))
=============================================================================
