SPECIFICATION Spec
CONSTANTS
  Styles = {"super", "crate"}
  MaxImports = 2
  Renames = {TRUE, FALSE}
  Pubs = {TRUE, FALSE}
  FieldChoice = FALSE
INVARIANTS ProgramValid ToolAgrees SelfUnsupported FieldInOwnModule AliasTransparent PrivacyOnlyRestricts
CHECK_DEADLOCK FALSE
