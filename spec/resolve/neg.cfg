SPECIFICATION Spec
CONSTANTS
  Styles = {"super"}
  MaxImports = 2
  Renames = {TRUE}
  Pubs = {TRUE}
  FieldChoice = FALSE
INVARIANTS BadToolAgrees
CHECK_DEADLOCK FALSE
