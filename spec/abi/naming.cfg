SPECIFICATION Spec
CONSTANTS
  Backend <- MCBackend
  Names <- MCNames
INVARIANTS Injective RefsSubset AppliedOnce InnermostWins Emit
