SPECIFICATION Spec
CONSTANTS
  Backend <- MCBackend
  Names <- MCNames
INVARIANTS Injective RefsSubset DisableIsLocal AppliedOnce InnermostWins Emit
