------------------------- MODULE Trace_CallProtocol -------------------------
(* Events logged by ONE log function shared by the driver (C/C++) and the Rust method bodies, in real   *)
(* program order: {seq, ev, f, v}.  CbInvoke/CbEnter/CbReturn/CbResult are the nested-callback events.   *)
EXTENDS CallProtocol, Json, IOUtils, TLC
Rec == ndJsonDeserialize(IOEnv.TRACE)
VARIABLE l
IsEvent(e) == l <= Len(Rec) /\ Rec[l].ev = e /\ l' = l + 1
TInit == Init /\ l = 1
CbsOf(r) == IF "cbs" \in DOMAIN r THEN {r.cbs[i] : i \in 1..Len(r.cbs)} ELSE {}
TNext == \/ IsEvent("CCall")      /\ CCallCb(Rec[l].f, Rec[l].v, "mr" \in DOMAIN Rec[l], CbsOf(Rec[l]))
         \/ IsEvent("RustEnter")  /\ Enter(Rec[l].f, Rec[l].v)
         \/ IsEvent("RustReturn") /\ Return(Rec[l].f, Rec[l].v)
         \/ IsEvent("CReturn")    /\ CReturn(Rec[l].f, Rec[l].v)
         \* the refusal itself is internal to the binding: compose Reject . CReturn when the caller reports the Utf8Error arm
         \/ (IsEvent("CReturn") /\ stack # <<>> /\ ~rejected /\ Rec[l].v = "err(utf8)"
               /\ (IF stack = <<>> THEN FALSE ELSE (Top.phase = "called" /\ Top.mr /\ Top.f = Rec[l].f /\ Top.cbs = {}))
               /\ Pop /\ UNCHANGED <<rejected, entered>>)
         \/ IsEvent("CbInvoke")   /\ CbCall(Rec[l].f, Rec[l].v)
         \/ IsEvent("CbDrop")     /\ CbDrop(Rec[l].f)
         \/ IsEvent("CbEnter")    /\ Enter(Rec[l].f, Rec[l].v)
         \/ IsEvent("CbReturn")   /\ Return(Rec[l].f, Rec[l].v)
         \/ IsEvent("CbResult")   /\ CReturn(Rec[l].f, Rec[l].v)
         \/ IsEvent("Reject")     /\ Reject
         \/ IsEvent("CWrite")     /\ stack = <<>> /\ UNCHANGED vars       \* observation after the call; checked by the replay leg
TSpec == TInit /\ [][TNext]_<<vars, l>>
Accepted ==
  LET d == TLCGet("stats").diameter IN
  IF d - 1 = Len(Rec) THEN TRUE
  ELSE Print(<<"REJECTED", ToJson([index |-> d, event |-> Rec[d]])>>, FALSE)
Balanced == l = Len(Rec) + 1 => stack = <<>>
=============================================================================
