--------------------------------- MODULE Abi ---------------------------------
(***************************************************************************)
(* The C ABI of a bridge: how every Diplomat type crosses the boundary     *)
(* (book/src/types.md, option.md, result.md, writeable.md, callbacks.md;   *)
(* runtime/src/{result,slices,callback,write}.rs #[repr(C)] definitions),  *)
(* the native signature of an exported function, and C struct layout.      *)
(* Shapes are target-independent; Layout takes the pointer width.          *)
(***************************************************************************)
EXTENDS Naturals, Sequences, FiniteSets, TLC
CONSTANTS StructDefs      \* [name |-> <<field types>>] for the structs of the catalogue

\* ---- abstract types ------------------------------------------------------------------------
Prims == {"u8", "i8", "u16", "i16", "u32", "i32", "u64", "i64", "usize", "isize", "f32", "f64", "bool", "char"}
P(p) == [k |-> "prim", p |-> p]
EnumT == [k |-> "enum"]
StructT(n) == [k |-> "struct", n |-> n]
OptT(s, t) == [k |-> "opt", s |-> s, t |-> t]          \* Option<T> / DiplomatOption<T>, T not a pointer
SliceT(e, m) == [k |-> "slice", e |-> e, m |-> m]      \* m: "imm" | "mut" | "own"
StrT(enc, own) == [k |-> "str", enc |-> enc, own |-> own]
ResT(a, b) == [k |-> "res", ok |-> a, err |-> b]
UnitT == [k |-> "unit"]
K(x) == [k |-> x]       \* "opq" &T | "opqmut" &mut T | "optopq" Option<&T> | "box" Box<T> | "optbox" Option<Box<T>> | "write"

\* ---- C shapes --------------------------------------------------------------------------------
\* scalar shapes also remember which Diplomat primitive they came from (`p`), for vocabularies that distinguish them
IntP(bits, signed, p) == [s |-> "int", bits |-> bits, signed |-> signed, p |-> p]
Int(bits, signed) == IntP(bits, signed, "-")
SizeT(signed) == [s |-> "size", signed |-> signed]       \* size_t / intptr_t: pointer-sized integer
Flt(bits) == [s |-> "float", bits |-> bits]
BoolS == [s |-> "bool"]
PtrS == [s |-> "ptr"]
VoidS == [s |-> "void"]
StructS(fs) == [s |-> "struct", fields |-> fs]
UnionS(fs) == [s |-> "union", fields |-> fs]

PrimShape(p) ==
  CASE p = "u8" -> Int(8, FALSE) [] p = "i8" -> Int(8, TRUE) [] p = "u16" -> Int(16, FALSE) [] p = "i16" -> Int(16, TRUE)
    [] p = "u32" -> Int(32, FALSE) [] p = "i32" -> Int(32, TRUE) [] p = "u64" -> Int(64, FALSE) [] p = "i64" -> Int(64, TRUE)
    [] p = "usize" -> SizeT(FALSE) [] p = "isize" -> SizeT(TRUE)
    [] p = "f32" -> Flt(32) [] p = "f64" -> Flt(64) [] p = "bool" -> BoolS
    [] p = "char" -> IntP(32, FALSE, "char")              \* DiplomatChar = u32 / char32_t
ViewS == StructS(<<PtrS, SizeT(FALSE)>>)                  \* {ptr, len} for every slice and string view
\* {union {payload}; bool is_ok}; unit arms occupy no payload; no union at all if nothing is carried
FlaggedS(payloads) == IF payloads = <<>> THEN StructS(<<BoolS>>) ELSE StructS(<<UnionS(payloads), BoolS>>)

RECURSIVE Shape(_)
Shape(t) ==
  CASE t.k = "prim" -> PrimShape(t.p)
    [] t.k = "enum" -> IntP(32, TRUE, "enum")
    [] t.k = "struct" -> StructS([i \in 1..Len(StructDefs[t.n]) |-> Shape(StructDefs[t.n][i])])
    [] t.k \in {"opq", "opqmut", "optopq", "box", "optbox", "write"} -> PtrS      \* an absent optional pointer is NULL
    [] t.k = "opt" -> FlaggedS(IF t.t.k = "unit" THEN <<>> ELSE <<Shape(t.t)>>)
    [] t.k \in {"slice", "str", "strs"} -> ViewS                   \* strs: &[DiplomatStrSlice] -- a {ptr, len} view of {ptr, len} views
    [] t.k = "res" -> FlaggedS((IF t.ok.k = "unit" THEN <<>> ELSE <<Shape(t.ok)>>) \o (IF t.err.k = "unit" THEN <<>> ELSE <<Shape(t.err)>>))
    [] t.k = "unit" -> VoidS
    [] t.k = "cb" -> StructS(<<PtrS, PtrS, PtrS>>)          \* {data, run_callback, destructor}
    \* `impl Trait`: {data, vtable {destructor, SIZE, ALIGNMENT, one entry point per trait method}} (macro gen_custom_vtable,
    \* tool/templates/c/trait.h.jinja); passed by value like any struct
    [] t.k = "trait" -> StructS(<<PtrS, StructS(<<PtrS, SizeT(FALSE), SizeT(FALSE)>> \o [i \in 1..Len(t.ms) |-> PtrS])>>)

\* ---- native signature ------------------------------------------------------------------------
\* self first, then the parameters in declaration order, the write handle last
SelfShape(sf) == CASE sf.k = "none" -> <<>> [] OTHER -> <<Shape(sf)>>
SigShape(sf, params, write, ret) ==
  [ret |-> Shape(ret),
   params |-> SelfShape(sf) \o [i \in 1..Len(params) |-> Shape(params[i])] \o (IF write THEN <<PtrS>> ELSE <<>>)]

\* ---- C layout ---------------------------------------------------------------------------------
Max(a, b) == IF a > b THEN a ELSE b
RoundUp(n, a) == ((n + a - 1) \div a) * a
RECURSIVE Size(_, _), Align(_, _), Offsets(_, _, _, _)
Align(sh, ptr) ==
  CASE sh.s = "int" -> sh.bits \div 8 [] sh.s = "float" -> sh.bits \div 8 [] sh.s = "bool" -> 1
    [] sh.s \in {"ptr", "size"} -> ptr \div 8
    [] sh.s \in {"struct", "union"} ->
         LET RECURSIVE M(_)
             M(i) == IF i > Len(sh.fields) THEN 1 ELSE Max(Align(sh.fields[i], ptr), M(i + 1))
         IN M(1)
\* offsets of the fields of a struct, computed left to right
Offsets(fs, i, off, ptr) ==
  IF i > Len(fs) THEN <<>>
  ELSE LET o == RoundUp(off, Align(fs[i], ptr)) IN <<o>> \o Offsets(fs, i + 1, o + Size(fs[i], ptr), ptr)
Size(sh, ptr) ==
  CASE sh.s = "int" -> sh.bits \div 8 [] sh.s = "float" -> sh.bits \div 8 [] sh.s = "bool" -> 1
    [] sh.s \in {"ptr", "size"} -> ptr \div 8
    [] sh.s = "struct" ->
         LET offs == Offsets(sh.fields, 1, 0, ptr)
             last == Len(sh.fields)
         IN RoundUp(offs[last] + Size(sh.fields[last], ptr), Align(sh, ptr))
    [] sh.s = "union" ->
         LET RECURSIVE M(_)
             M(i) == IF i > Len(sh.fields) THEN 0 ELSE Max(Size(sh.fields[i], ptr), M(i + 1))
         IN RoundUp(M(1), Align(sh, ptr))
Layout(sh, ptr) == [size |-> Size(sh, ptr), align |-> Align(sh, ptr),
                    offsets |-> IF sh.s = "struct" THEN Offsets(sh.fields, 1, 0, ptr) ELSE <<>>]
=============================================================================
