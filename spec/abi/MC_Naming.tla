---- MODULE MC_Naming ----
EXTENDS Naming, Json
MCBackend == {"c", "cpp", "js", "dart", "kotlin", "nanobind", "demo_gen"}
MCNames == [b \in MCBackend |-> IF b = "demo_gen" THEN {"demo_gen", "js"} ELSE {b}]
Emit == Done => PrintT(<<"CASE", ToJson([pm |-> pm, pt |-> pt, pi |-> pi, pme |-> pme, dis |-> dis,
                        exported |-> Exported, refs |-> [b \in Backend |-> Refs(b)]])>>)
\* negative model: patterns compose (outer applied on top of inner) instead of innermost-wins
RECURSIVE Compose(_, _)
Compose(chain, name) == IF chain = <<>> THEN name ELSE Compose(SubSeq(chain, 1, Len(chain) - 1), ApplyPat(chain[Len(chain)], name))
ComposedAgrees == Done => Compose(<<pm, pi, pme>>, "T_m1") = Exported.T_m1
====
