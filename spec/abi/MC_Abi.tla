------------------------------- MODULE MC_Abi -------------------------------
(* Signature catalogue for C01 / C02 / C07 / C10: structured coverage (every parameter type, every   *)
(* return type, every self kind, alone) as initial states, and random combinations by -simulate.     *)
EXTENDS Abi, Json
MCStructDefs ==
  [Inner |-> <<P("u8"), P("u16")>>,
   Wide  |-> <<P("u64"), P("u8")>>,
   Mix   |-> <<P("bool"), P("f64"), P("i16"), EnumT, P("char"), P("isize")>>,
   Nest  |-> <<StructT("Inner"), P("f32"), StructT("Wide"), P("i8")>>,
   WOpt  |-> <<OptT("dipl", P("u8")), P("u32"), OptT("dipl", StructT("Inner")), OptT("dipl", EnumT)>>,
   Brw   |-> <<K("opq"), SliceT("u32", "imm"), K("optopq"), StrT("utf8", FALSE)>>,
   Os    |-> <<K("box"), K("optbox"), P("u8")>>,
   \* optional slices / strings as FIELDS (the option record around a two-word view); outside the shared catalogue, see ExtraStructs
   OSl   |-> <<OptT("dipl", SliceT("u8", "imm")), P("u16"), OptT("dipl", StrT("utf8", FALSE)), OptT("dipl", SliceT("f64", "imm"))>>]
\* structs only some checks render (emitted separately, so that the signature catalogue and its other users are unchanged)
ExtraStructs == {"OSl"}
InStructs == {"Inner", "Wide", "Mix", "Nest", "WOpt", "Brw"}
OptPayload == {P("u8"), P("i64"), P("f32"), P("bool"), P("char"), P("usize"), EnumT, StructT("Inner"), StructT("Wide"), StructT("Mix")}
SliceElems == {"u8", "i16", "u32", "f64", "usize", "i64", "bool"}
ParamTypes ==
  {P(p) : p \in Prims} \cup {EnumT} \cup {StructT(n) : n \in InStructs}
  \cup {K("opq"), K("opqmut"), K("optopq")}
  \cup {OptT(s, t) : s \in {"std", "dipl"}, t \in OptPayload}
  \cup {SliceT(e, m) : e \in SliceElems, m \in {"imm", "mut", "own"}}
  \cup {StrT(e, o) : e \in {"utf8", "u8", "u16"}, o \in BOOLEAN}
ResOk == {UnitT, P("u8"), P("i64"), P("f64"), EnumT, StructT("Inner"), StructT("Os"), K("box"), K("opq"), K("optbox")}
ResErr == {UnitT, P("u8"), P("i32"), P("bool"), P("f32"), P("isize"), EnumT, StructT("Inner"), StructT("Wide")}
RetTypes ==
  {P(p) : p \in Prims} \cup {EnumT, UnitT} \cup {StructT(n) : n \in InStructs \cup {"Os"}}
  \cup {K("box"), K("optbox"), K("opq"), K("optopq")}
  \cup {OptT(s, t) : s \in {"std", "dipl"}, t \in OptPayload \cup {UnitT}}
  \cup {ResT(a, b) : a \in ResOk, b \in ResErr}
  \cup {StrT("utf8", FALSE), StrT("u16", FALSE), SliceT("u8", "imm"), SliceT("f64", "imm"), SliceT("u32", "mut")}
SelfKinds == {K("none"), K("opq"), K("opqmut"), StructT("Inner"), StructT("Mix"), EnumT}
WriteOK(ret) == ret.k = "unit" \/ (ret.k = "res" /\ ret.ok.k = "unit") \/ (ret.k = "opt" /\ ret.t.k = "unit")
\* borrowed returns need something to borrow from
RetOK(sf, ret) ==
  /\ ((ret.k \in {"opq", "optopq", "str", "slice"} \/ (ret.k = "res" /\ ret.ok.k = "opq")) => sf.k \in {"opq", "opqmut"})
  /\ ((ret.k = "struct" /\ ret.n = "Brw") => sf.k \in {"opq", "opqmut"})
  /\ ((ret.k = "slice" /\ ret.m = "mut") => sf.k = "opqmut")

Sg(sf, ps, w, r) == [self |-> sf, params |-> ps, write |-> w, ret |-> r]
CoverSigs ==
  {Sg(K("opq"), <<t>>, FALSE, UnitT) : t \in ParamTypes}
  \cup {Sg(IF r.k = "slice" /\ r.m = "mut" THEN K("opqmut") ELSE K("opq"), <<>>, FALSE, r) : r \in RetTypes}
  \cup {Sg(sf, <<P("u16")>>, FALSE, P("u32")) : sf \in SelfKinds}
  \cup {Sg(K("opq"), <<P("u8")>>, TRUE, r) : r \in {x \in RetTypes : WriteOK(x)}}
  \cup {Sg(K("none"), <<t>>, FALSE, P("bool")) : t \in {StructT(n) : n \in InStructs}}
  \* several validated strings in one call (each is checked separately by bindings that validate UTF-8)
  \cup {Sg(K("opq"), <<StrT("utf8", FALSE), StrT("utf8", FALSE)>>, FALSE, P("u8")),
        Sg(K("none"), <<StrT("utf8", FALSE), P("u16"), StrT("utf8", FALSE), StrT("u8", FALSE)>>, FALSE, UnitT)}

\* C10: every payload allowed in Option, in parameter and return position, in both spellings; pointer payloads;
\* results over every combination of arms (incl. unit arms)
OptSlicePayload == {StrT("utf8", FALSE), StrT("u8", FALSE), StrT("u16", FALSE), SliceT("u8", "imm"), SliceT("f64", "imm"), SliceT("i16", "imm")}
Payload10 == {P(p) : p \in Prims} \cup {EnumT, StructT("Inner"), StructT("Wide"), StructT("Mix")}
OptEncSigs ==
  {Sg(K("opq"), <<OptT(s, t)>>, FALSE, UnitT) : s \in {"std", "dipl"}, t \in Payload10}
  \cup {Sg(K("opq"), <<>>, FALSE, OptT(s, t)) : s \in {"std", "dipl"}, t \in Payload10 \cup {UnitT}}
  \cup {Sg(K("opq"), <<K("optopq")>>, FALSE, r) : r \in {K("optopq"), K("optbox")}}
  \cup {Sg(K("opq"), <<>>, FALSE, ResT(a, b)) : a \in ResOk, b \in ResErr}
  \cup {Sg(K("none"), <<StructT("WOpt"), StructT("Brw")>>, FALSE, StructT("Os"))}
  \* slices and strings as Option payloads: the std spelling only (DiplomatOption is documented for primitive, enum and
  \* struct payloads); a scalar follows the option so that a wrong record size shifts it
  \cup {Sg(K("opq"), <<OptT("std", t), P("u16")>>, FALSE, UnitT) : t \in OptSlicePayload}
  \* a BORROWED opaque as the error arm (C++: diplomat::result<T, const Opq&>, a different accessor overload than value errors)
  \cup {Sg(K("opq"), <<>>, FALSE, ResT(a, K("opq"))) : a \in {P("u8"), UnitT, P("i64")}}
  \* a VALIDATED string parameter next to a result whose success arm is unit (bindings that check the string first wrap the method's
  \* own outcome in a second result: the inner arm must survive)
  \cup {Sg(K("opq"), <<StrT("utf8", FALSE)>>, FALSE, r) : r \in {ResT(UnitT, EnumT), ResT(UnitT, UnitT), OptT("std", UnitT), OptT("dipl", UnitT),
                                                                  ResT(P("u8"), EnumT), OptT("std", P("u8"))}}
  \* ... and OWNED slices and strings (Option<Box<[T]>>, Option<Box<str>>): the same option record around the same two-word view
  \cup {Sg(K("opq"), <<OptT("std", t), P("u16")>>, FALSE, UnitT) : t \in {SliceT("u8", "own"), SliceT("f64", "own"), StrT("utf8", TRUE), StrT("u16", TRUE)}}
  \cup {Sg(K("opq"), <<>>, FALSE, OptT("std", t)) : t \in {StrT("utf8", FALSE), SliceT("u8", "imm"), SliceT("f64", "imm")}}

\* callbacks (`impl Fn(A...) -> R` parameters): on the wire {data, run_callback(data, A...) -> R, destructor(data)}
CbT(ps, r) == [k |-> "cb", ps |-> ps, r |-> r]
CbArg == {P("u8"), P("i16"), P("u64"), P("f32"), P("f64"), P("bool"), P("char"), P("isize"), EnumT, StructT("Inner"), StructT("Mix")}
CbRet == {UnitT, P("u8"), P("i64"), P("f64"), P("bool"), EnumT, StructT("Inner")}
CbTypes == {CbT(<<a>>, UnitT) : a \in CbArg} \cup {CbT(<<>>, r) : r \in CbRet}
           \cup {CbT(<<a, b>>, r) : a \in {P("u8"), P("f64"), StructT("Inner")}, b \in {P("i16"), EnumT}, r \in {P("bool"), StructT("Inner")}}
           \cup {CbT(<<P("u8"), P("u64"), P("f32"), EnumT>>, P("i64"))}
CbSigs ==
  {Sg(K("opq"), <<P("u16"), c>>, FALSE, P("u32")) : c \in CbTypes}
  \cup {Sg(K("none"), <<c, d>>, FALSE, UnitT) : c \in {CbT(<<P("u8")>>, P("u8"))}, d \in {CbT(<<>>, UnitT), CbT(<<EnumT>>, EnumT)}}
  \cup {Sg(K("opqmut"), <<CbT(<<P("f64")>>, P("f64"))>>, TRUE, UnitT)}
  \cup {Sg(K("opq"), <<CbT(<<P("u8")>>, P("bool")), StrT("utf8", FALSE)>>, FALSE, ResT(P("u8"), EnumT))}
  \* a callback declared AFTER parameters that are passed in memory (aggregates > 16 bytes, the 7th integer): the callback
  \* object itself is passed in memory too, so only then does a reordering of the native parameter list show
  \cup {Sg(K("none"), <<StructT("Mix"), CbT(<<P("u8")>>, P("u8"))>>, FALSE, P("u32"))}
  \cup {Sg(K("opq"), <<StructT("Nest"), CbT(<<>>, UnitT), P("u8")>>, FALSE, P("u8"))}
  \cup {Sg(K("opq"), <<OptT("std", StrT("utf8", FALSE)), CbT(<<P("i16")>>, P("bool"))>>, FALSE, UnitT)}
  \cup {Sg(K("opq"), <<SliceT("u8", "imm"), StructT("WOpt"), CbT(<<EnumT>>, EnumT), CbT(<<>>, P("u8")), StructT("Wide")>>, FALSE, P("i64"))}
  \cup {Sg(K("opq"), <<P("u64"), P("u64"), P("u64"), P("u64"), P("u64"), P("u64"), CbT(<<P("u64")>>, P("u64")), P("u64")>>, FALSE, P("u64"))}
\* native signature of run_callback: the data pointer first, then the arguments in order
\* lists of strings (`&[DiplomatStrSlice]`, `&[DiplomatStr16Slice]`, `&[DiplomatUtf8StrSlice]`) and their optional form: a view of views; the
\* C name of the optional record depends on the encoding (OptionStringsView / OptionStrings16View)
StrsT(enc) == [k |-> "strs", enc |-> enc]
StrsSigs ==
  {Sg(K("opq"), <<StrsT(e), P("u16")>>, FALSE, P("u32")) : e \in {"u8", "u16", "utf8"}}
  \cup {Sg(K("opq"), <<OptT("std", StrsT(e)), P("u16")>>, FALSE, UnitT) : e \in {"u8", "u16"}}
  \cup {Sg(K("none"), <<StrsT("u16"), StrsT("u8")>>, FALSE, P("bool"))}
\* traits (supported by the C backend): named, with 1..3 methods; each method crosses like a callback's run function
TraitT(n, ms) == [k |-> "trait", n |-> n, ms |-> ms]
TraitTypes == {TraitT("TrA", <<CbT(<<P("u8")>>, P("u8"))>>),
               TraitT("TrB", <<CbT(<<P("u32")>>, P("u32")), CbT(<<>>, UnitT), CbT(<<StructT("Inner")>>, P("i32"))>>),
               TraitT("TrC", <<CbT(<<P("f64"), EnumT>>, P("bool")), CbT(<<P("u64")>>, StructT("Inner"))>>)}
TraitSigs ==
  {Sg(K("opq"), <<P("u16"), t>>, FALSE, P("u32")) : t \in TraitTypes}
  \cup {Sg(K("none"), <<t, P("i32")>>, FALSE, P("i32")) : t \in TraitTypes}
  \cup {Sg(K("opq"), <<StructT("Mix"), TraitT("TrB", <<CbT(<<P("u32")>>, P("u32")), CbT(<<>>, UnitT), CbT(<<StructT("Inner")>>, P("i32"))>>),
                        TraitT("TrA", <<CbT(<<P("u8")>>, P("u8"))>>), P("u8")>>, TRUE, UnitT)}
  \cup {Sg(K("opqmut"), <<TraitT("TrC", <<CbT(<<P("f64"), EnumT>>, P("bool")), CbT(<<P("u64")>>, StructT("Inner"))>>), CbT(<<P("u8")>>, P("u8"))>>, FALSE, ResT(P("u8"), EnumT))}
\* a writer next to a returned VALUE (neither (), Option<()> nor Result<(), E>): nothing in the book forbids it, lowering accepts it, and
\* the macro compiles it like any other function -- self, the parameters, the writer, and the value as the result
WValSigs == {Sg(K("opq"), <<P("u8")>>, TRUE, r) : r \in {P("usize"), P("u32"), EnumT, StructT("Inner"), K("box"), OptT("std", P("u8")),
                                                           ResT(P("u32"), EnumT), ResT(K("box"), UnitT)}}
              \cup {Sg(K("none"), <<>>, TRUE, P("bool"))}
\* slices and strings as ARMS of a Result return (the native result record holds the two-word view in its union)
SlResSigs == {Sg(K("opq"), <<>>, FALSE, ResT(ab[1], ab[2])) :
                ab \in {<<StrT("utf8", FALSE), EnumT>>, <<StrT("utf8", FALSE), UnitT>>, <<P("u8"), StrT("utf8", FALSE)>>,
                        <<SliceT("u16", "imm"), StructT("Inner")>>, <<SliceT("u8", "imm"), P("i64")>>, <<StrT("u16", FALSE), P("bool")>>}}
CbShape(c) == [ret |-> Shape(c.r), params |-> <<PtrS>> \o [i \in 1..Len(c.ps) |-> Shape(c.ps[i])]]

VARIABLES sig, stage
vars == <<sig, stage>>
CONSTANTS Mode, MaxParams
Init == IF Mode = "cover" THEN sig \in CoverSigs /\ stage = "done"
        ELSE IF Mode = "optenc" THEN sig \in OptEncSigs /\ stage = "done"
        ELSE IF Mode = "cb" THEN sig \in CbSigs /\ stage = "done"
        ELSE IF Mode = "trait" THEN sig \in TraitSigs /\ stage = "done"
        ELSE IF Mode = "strs" THEN sig \in StrsSigs /\ stage = "done"
        ELSE IF Mode = "wval" THEN sig \in WValSigs /\ stage = "done"
        ELSE IF Mode = "slres" THEN sig \in SlResSigs /\ stage = "done"
        ELSE sig = Sg(K("none"), <<>>, FALSE, UnitT) /\ stage = "self"
PickSelf == stage = "self" /\ \E sf \in SelfKinds : sig' = [sig EXCEPT !.self = sf] /\ stage' = "params"
\* random combinations may also place a callback anywhere in the parameter list
RandParamTypes == ParamTypes \cup {CbT(<<P("u8")>>, P("u8")), CbT(<<StructT("Inner"), EnumT>>, UnitT), CbT(<<>>, P("f64"))}
AddParam == stage = "params" /\ Len(sig.params) < MaxParams
            /\ \E t \in RandParamTypes : sig' = [sig EXCEPT !.params = Append(@, t)] /\ UNCHANGED stage
EndParams == stage = "params" /\ stage' = "ret" /\ UNCHANGED sig
PickRet == stage = "ret" /\ \E r \in RetTypes, w \in BOOLEAN :
              /\ RetOK(sig.self, r) /\ (w => WriteOK(r))
              /\ sig' = [sig EXCEPT !.ret = r, !.write = w] /\ stage' = "done"
Next == PickSelf \/ AddParam \/ EndParams \/ PickRet
Spec == Init /\ [][Next]_vars
Done == stage = "done"

\* ---- properties of the ABI mapping (checked on every type of the catalogue) --------------------
AllTypes == ParamTypes \cup RetTypes
\* C10: both spellings of an option have one encoding; an optional pointer is just a pointer
SpellingIndependent == \A t \in OptPayload \cup {UnitT} : Shape(OptT("std", t)) = Shape(OptT("dipl", t))
NullNiche == Shape(K("optopq")) = Shape(K("opq")) /\ Shape(K("optbox")) = Shape(K("box")) /\ Shape(K("opq")) = PtrS
\* C10: the flag is the last member, unit arms carry no payload
FlagLast == \A t \in AllTypes : t.k \in {"opt", "res"} =>
               LET sh == Shape(t) IN sh.fields[Len(sh.fields)] = BoolS /\ Len(sh.fields) \in {1, 2}
UnitNoPayload == /\ Shape(OptT("std", UnitT)) = StructS(<<BoolS>>)
                 /\ Shape(ResT(UnitT, UnitT)) = StructS(<<BoolS>>)
                 /\ Shape(ResT(UnitT, P("u8"))) = StructS(<<UnionS(<<Int(8, FALSE)>>), BoolS>>)
\* C layout sanity for both pointer widths: aligned offsets, no overlap, size a multiple of the alignment
LayoutSane == \A t \in AllTypes : \A ptr \in {32, 64} :
   LET sh == Shape(t) IN sh.s = "struct" =>
     LET ly == Layout(sh, ptr) IN
       /\ ly.size % ly.align = 0
       /\ \A i \in 1..Len(sh.fields) : ly.offsets[i] % Align(sh.fields[i], ptr) = 0
       /\ \A i \in 1..(Len(sh.fields) - 1) : ly.offsets[i] + Size(sh.fields[i], ptr) <= ly.offsets[i + 1]
       /\ ly.offsets[Len(sh.fields)] + Size(sh.fields[Len(sh.fields)], ptr) <= ly.size
StructLayouts == [n \in DOMAIN StructDefs |-> [p64 |-> Layout(Shape(StructT(n)), 64), p32 |-> Layout(Shape(StructT(n)), 32)]]
SA(sh) == IF sh.s = "void" THEN [size |-> 0, align |-> 1] ELSE [size |-> Size(sh, 64), align |-> Align(sh, 64)]
Emit == Done => LET ss == SigShape(sig.self, sig.params, sig.write, sig.ret) IN
                PrintT(<<"CASE", ToJson([sig |-> sig, shape |-> ss,
                                         lay |-> [ret |-> SA(ss.ret), params |-> [i \in 1..Len(ss.params) |-> SA(ss.params[i])]],
                                         cbs |-> [i \in {j \in 1..Len(sig.params) : sig.params[j].k = "cb"} |-> CbShape(sig.params[i])],
                                         traits |-> [i \in {j \in 1..Len(sig.params) : sig.params[j].k = "trait"} |->
                                                       [q \in 1..Len(sig.params[i].ms) |-> CbShape(sig.params[i].ms[q])]]])>>)
\* a trait object is a data pointer followed by its vtable; the vtable starts with destructor, SIZE, ALIGNMENT
TraitIsDataPlusVtable == \A t \in TraitTypes : LET sh == Shape(t) IN
   sh.fields[1] = PtrS /\ Len(sh.fields[2].fields) = 3 + Len(t.ms) /\ SubSeq(sh.fields[2].fields, 1, 3) = <<PtrS, SizeT(FALSE), SizeT(FALSE)>>
\* a callback object is three pointers on every target
CbIsThreePointers == \A c \in CbTypes : Shape(c) = StructS(<<PtrS, PtrS, PtrS>>) /\ CbShape(c).params[1] = PtrS
EmitDefs == (Mode = "cover" /\ sig = Sg(K("opq"), <<>>, FALSE, UnitT)) =>
               PrintT(<<"DEFS", ToJson([structs |-> [n \in DOMAIN StructDefs \ ExtraStructs |-> StructDefs[n]],
                                        layouts |-> [n \in DOMAIN StructDefs \ ExtraStructs |-> StructLayouts[n]],
                                        shapes |-> [n \in DOMAIN StructDefs \ ExtraStructs |-> Shape(StructT(n))],
                                        xstructs |-> [n \in ExtraStructs |-> StructDefs[n]],
                                        xlayouts |-> [n \in ExtraStructs |-> StructLayouts[n]],
                                        xshapes |-> [n \in ExtraStructs |-> Shape(StructT(n))]])>>)
\* negative model: an Option whose flag comes first
FlaggedBad(payloads) == IF payloads = <<>> THEN StructS(<<BoolS>>) ELSE StructS(<<BoolS, UnionS(payloads)>>)
=============================================================================
