---------------------------- MODULE CallProtocol ----------------------------
(***************************************************************************)
(* One foreign thread calls exported functions through generated bindings. *)
(* Values are tokens: canonical renderings of bit patterns ("u16:ffff",    *)
(* "p:0", "some(u8:1)", "err(e:5)") so that "delivered bit-for-bit" is     *)
(* token equality per call.  The machine: the foreign caller starts a call *)
(* (CCall), the Rust method body starts (Enter) and must see exactly the   *)
(* caller's tokens, finishes with a value (Return) and the caller observes *)
(* it (CReturn).  Calls nest through callbacks: a call may hand over       *)
(* callback objects (`impl Fn` parameters, {data, run_callback, destructor}*)
(* on the wire); the running body may invoke a live callback (CbCall: a    *)
(* nested call in the opposite direction), and every callback handed over  *)
(* is destroyed exactly once, after its last invocation and before the     *)
(* caller sees the call return.  A C++ caller may refuse a call whose &str *)
(* argument is not valid UTF-8 before it reaches Rust.                     *)
(***************************************************************************)
EXTENDS Naturals, Sequences
CONSTANTS MaxDepth
VARIABLES stack,     \* in-flight calls, innermost last: [f, args, mr, phase, ret, cbs, dead]
                     \*   cbs: callbacks handed over with the call that are still alive; dead: those already destroyed
          rejected,  \* the binding refused the innermost call (invalid UTF-8)
          entered    \* ghost: how many times each finished or in-flight top-level call entered Rust (last call only)
vars == <<stack, rejected, entered>>
Init == stack = <<>> /\ rejected = FALSE /\ entered = 0
Top == stack[Len(stack)]
Push(fr) == stack' = Append(stack, fr)
SetTop(fr) == stack' = [stack EXCEPT ![Len(stack)] = fr]
Pop == stack' = SubSeq(stack, 1, Len(stack) - 1)

\* the foreign side calls f(args) through the binding.  mr: the arguments carry invalid UTF-8 in a direct &str parameter
CCallCb(f, args, mr, cbs) ==
  /\ Len(stack) < MaxDepth /\ ~rejected
  /\ IF stack = <<>> THEN TRUE ELSE Top.phase = "entered"        \* nested calls only from inside a running body
  /\ Push([f |-> f, args |-> args, mr |-> mr, phase |-> "called", ret |-> "-", cbs |-> cbs, dead |-> {}])
  /\ entered' = IF stack = <<>> THEN 0 ELSE entered
  /\ UNCHANGED rejected
CCall(f, args, mr) == CCallCb(f, args, mr, {})
\* the running body invokes callback c that came with its call: only while c is alive
CbCall(c, args) ==
  /\ Len(stack) < MaxDepth /\ ~rejected /\ stack # <<>>
  /\ IF stack = <<>> THEN FALSE ELSE (Top.phase = "entered" /\ c \in Top.cbs)
  /\ Push([f |-> c, args |-> args, mr |-> FALSE, phase |-> "called", ret |-> "-", cbs |-> {}, dead |-> {}])
  /\ UNCHANGED <<rejected, entered>>
\* the callee releases callback c (its destructor runs): once, while or after the body runs, never while c itself is running;
\* the callbacks of a call the binding refuses are released by the binding itself, without the call ever reaching Rust
CbDrop(c) ==
  /\ stack # <<>>
  /\ IF stack = <<>> THEN FALSE ELSE ((Top.phase \in {"entered", "returned"} \/ (Top.phase = "called" /\ Top.mr)) /\ c \in Top.cbs)
  /\ SetTop([Top EXCEPT !.cbs = @ \ {c}, !.dead = @ \cup {c}])
  /\ UNCHANGED <<rejected, entered>>
\* the binding refuses the call before it reaches Rust
Reject == /\ stack # <<>> /\ ~rejected
          /\ IF stack = <<>> THEN FALSE ELSE (Top.phase = "called" /\ Top.mr)
          /\ rejected' = TRUE /\ UNCHANGED <<stack, entered>>
\* the callee's body starts: exactly once, with exactly the caller's tokens
Enter(f, args) ==
  /\ stack # <<>> /\ ~rejected
  /\ IF stack = <<>> THEN FALSE ELSE (Top.phase = "called" /\ ~Top.mr /\ f = Top.f /\ args = Top.args)
  /\ SetTop([Top EXCEPT !.phase = "entered"])
  /\ entered' = IF Len(stack) = 1 THEN entered + 1 ELSE entered
  /\ UNCHANGED rejected
\* the callee's body finishes with a value
Return(f, ret) ==
  /\ stack # <<>>
  /\ IF stack = <<>> THEN FALSE ELSE (Top.phase = "entered" /\ f = Top.f)
  /\ SetTop([Top EXCEPT !.phase = "returned", !.ret = ret]) /\ UNCHANGED <<rejected, entered>>
\* the caller observes the result: the same tokens; a refused call yields the error arm without having entered Rust
CReturn(f, ret) ==
  /\ stack # <<>>
  /\ IF stack = <<>> THEN FALSE
     ELSE /\ f = Top.f
          /\ \/ (Top.phase = "returned" /\ ~rejected /\ ret = Top.ret /\ Top.cbs = {} /\ UNCHANGED rejected)
             \/ (Top.phase = "called" /\ rejected /\ ret = "err(utf8)" /\ Top.cbs = {} /\ rejected' = FALSE)
  /\ Pop /\ UNCHANGED entered
Next == \E f \in {"f", "c1", "c2"}, a \in {"x", "y"} :
          \/ \E m \in BOOLEAN, cs \in SUBSET {"c1", "c2"} : f = "f" /\ CCallCb(f, a, m, cs)
          \/ (f # "f" /\ (CbCall(f, a) \/ CbDrop(f)))
          \/ Enter(f, a) \/ Return(f, a) \/ CReturn(f, a) \/ CReturn(f, "err(utf8)") \/ Reject
Spec == Init /\ [][Next]_vars

\* ---- properties -------------------------------------------------------------------------------
\* every frame below the top is inside its body
WellNested == \A i \in 1..Len(stack) : i < Len(stack) => stack[i].phase = "entered"
\* a refused call never reaches Rust
RejectedNeverEnters == rejected => (IF stack = <<>> THEN FALSE ELSE Top.phase = "called")
\* a destroyed callback is never running and never alive again (no use after destruction, no double destruction)
NoUseAfterDrop == \A i \in 1..Len(stack) : /\ stack[i].cbs \cap stack[i].dead = {}
                                          /\ (i < Len(stack) => stack[i + 1].f \notin stack[i].dead)
\* a top-level call enters Rust at most once
AtMostOnce == entered <= 1
\* ... and a call that returned normally entered exactly once
ReturnedMeansEntered == (Len(stack) = 1 /\ (IF stack = <<>> THEN FALSE ELSE Top.phase \in {"entered", "returned"})) => entered = 1
=============================================================================
