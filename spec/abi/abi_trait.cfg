SPECIFICATION Spec
CONSTANTS
  StructDefs <- MCStructDefs
  Mode = "trait"
  MaxParams = 0
INVARIANTS TraitIsDataPlusVtable Emit
