SPECIFICATION Spec
CONSTANTS
  StructDefs <- MCStructDefs
  Mode = "strs"
  MaxParams = 0
INVARIANTS Emit
