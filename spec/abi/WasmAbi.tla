------------------------------- MODULE WasmAbi -------------------------------
(***************************************************************************)
(* Structs as seen by the JS backend (tool/src/js/layout.rs, gen.rs,       *)
(* converter.rs; docs/wasm_abi_quirks.md):                                 *)
(*  - the repr(C) layout with 32-bit pointers (offsets, size, alignment),  *)
(*  - the flattened argument list a struct becomes when passed BY VALUE to *)
(*    a wasm export under the two ABIs:                                    *)
(*      legacy: "direct" for aggregates of <=2 scalars, otherwise "padded  *)
(*              direct" with TYPED padding (unit = alignment of the        *)
(*              preceding field); unions as size/align slots;              *)
(*      spec  : a single scalar direct, anything else one pointer.         *)
(***************************************************************************)
EXTENDS Abi
PTR == 32
IsScalar(sh) == sh.s \in {"int", "float", "bool", "size", "ptr"}

RECURSIVE Leaves(_), HasUnion(_)
Leaves(sh) == IF IsScalar(sh) THEN 1
              ELSE LET RECURSIVE Sum(_)
                       Sum(i) == IF i > Len(sh.fields) THEN 0 ELSE Leaves(sh.fields[i]) + Sum(i + 1)
                   IN Sum(1)
HasUnion(sh) == IF IsScalar(sh) THEN FALSE
                ELSE sh.s = "union" \/ \E i \in 1..Len(sh.fields) : HasUnion(sh.fields[i])

\* scalar leaves with absolute offsets, in declaration order (the byte image of a value is determined by these)
RECURSIVE Flat(_, _)
Flat(sh, off) ==
  IF IsScalar(sh) THEN <<[k |-> "leaf", off |-> off, sh |-> sh, bytes |-> Size(sh, PTR)]>>
  ELSE IF sh.s = "union" THEN (IF sh.fields = <<>> THEN <<>> ELSE Flat(sh.fields[1], off))      \* payload of an option
  ELSE LET offs == Offsets(sh.fields, 1, 0, PTR)
           RECURSIVE Cat(_)
           Cat(i) == IF i > Len(sh.fields) THEN <<>> ELSE Flat(sh.fields[i], off + offs[i]) \o Cat(i + 1)
       IN Cat(1)

Scalar(off, sh) == [k |-> "sc", off |-> off, bytes |-> Size(sh, PTR)]
PadSlots(gap, unit) == [i \in 1..(gap \div unit) |-> [k |-> "pad", bytes |-> unit]]
\* direct: just the scalars
RECURSIVE Direct(_, _)
Direct(sh, off) ==
  IF IsScalar(sh) THEN <<Scalar(off, sh)>>
  ELSE LET offs == Offsets(sh.fields, 1, 0, PTR)
           RECURSIVE Cat(_)
           Cat(i) == IF i > Len(sh.fields) THEN <<>> ELSE Direct(sh.fields[i], off + offs[i]) \o Cat(i + 1)
       IN Cat(1)
\* padded direct: scalars, union chunks, and typed padding after every field up to the next field / the end
RECURSIVE Padded(_, _)
Padded(sh, off) ==
  IF IsScalar(sh) THEN <<Scalar(off, sh)>>
  ELSE IF sh.s = "union" THEN
       LET a == Align(sh, PTR) n == Size(sh, PTR) \div a
       IN [i \in 1..n |-> [k |-> "un", off |-> off + (i - 1) * a, bytes |-> a]]
  ELSE LET offs == Offsets(sh.fields, 1, 0, PTR)
           total == Size(sh, PTR)
           RECURSIVE Cat(_)
           Cat(i) == IF i > Len(sh.fields) THEN <<>>
                     ELSE LET f == sh.fields[i]
                              endf == offs[i] + Size(f, PTR)
                              nxt == IF i = Len(sh.fields) THEN total ELSE offs[i + 1]
                          IN Padded(f, off + offs[i]) \o PadSlots(nxt - endf, Align(f, PTR)) \o Cat(i + 1)
       IN Cat(1)
LegacyArgs(sh) == IF ~HasUnion(sh) /\ Leaves(sh) <= 2 THEN Direct(sh, 0) ELSE Padded(sh, 0)
SpecArgs(sh) == IF ~HasUnion(sh) /\ Leaves(sh) = 1 THEN Direct(sh, 0) ELSE <<[k |-> "ptr"]>>

\* ---- sanity of the flattening (checked by TLC for every struct in scope) -----------------------
\* padded direct accounts for every byte of the struct exactly once
RECURSIVE SumBytes(_, _)
SumBytes(s, i) == IF i > Len(s) THEN 0 ELSE s[i].bytes + SumBytes(s, i + 1)
PaddedCoversStruct(sh) == SumBytes(Padded(sh, 0), 1) = Size(sh, PTR)
\* scalars keep their declaration order and never overlap
Ordered(s) == \A i \in 1..(Len(s) - 1) : (s[i].k # "pad" /\ s[i + 1].k # "pad") => s[i].off + s[i].bytes <= s[i + 1].off
=============================================================================
