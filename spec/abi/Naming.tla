------------------------------- MODULE Naming -------------------------------
(***************************************************************************)
(* Symbol names (core/src/ast/attrs.rs RenameAttr, methods.rs, opaque.rs,  *)
(* modules.rs; book/src/abi.md): every public method `m` of type `T` is    *)
(* exported as `T_m`, every opaque type gets `T_destroy`, and              *)
(* #[diplomat::abi_rename = "pattern"] -- with at most one {0} placeholder *)
(* -- rewrites those names.  Patterns are inherited module -> type (for    *)
(* the destructor) and module -> impl block -> method; the innermost       *)
(* pattern wins and is applied exactly once.                               *)
(* Each backend refers to exactly the exported symbols of the types and    *)
(* methods enabled for it.                                                 *)
(***************************************************************************)
EXTENDS Naturals, Sequences, FiniteSets, TLC
CONSTANTS Backend,
          Names        \* Names[b]: names backend b answers to in #[diplomat::attr(...)]
\* a pattern: none | fixed name | prefix{0}suffix
NoPat == [k |-> "none"]
Fixed(s) == [k |-> "fixed", s |-> s]
Subst(p, q) == [k |-> "subst", p |-> p, q |-> q]
ApplyPat(pat, name) == CASE pat.k = "none" -> name
                         [] pat.k = "fixed" -> pat.s
                         [] pat.k = "subst" -> pat.p \o name \o pat.q
\* innermost non-empty pattern of a chain (outermost first)
RECURSIVE Innermost(_)
Innermost(chain) == IF chain = <<>> THEN NoPat
                    ELSE IF chain[Len(chain)].k # "none" THEN chain[Len(chain)]
                    ELSE Innermost(SubSeq(chain, 1, Len(chain) - 1))

\* reference program:  mod M { opaque T; impl T { m1; m2 }  impl T { m3 }   opaque U; impl U { u1 } }
\* patterns may sit on M, on T, on the first impl block of T and on m1
VARIABLES pm, pt, pi, pme,    \* the four patterns
          dis,                \* an optional backend attribute: [k: "none" | "disable_m1" | "disable_m2" | "disable_i" | "disable_T" | "rename_T", b: backend]
          stage
vars == <<pm, pt, pi, pme, dis, stage>>

\* strings are sequences of characters in TLA+; names are built by concatenation
MethodSym(t, m, chain) == ApplyPat(Innermost(chain), t \o "_" \o m)
DtorSym(t, chain) == ApplyPat(Innermost(chain), t \o "_destroy")
Exported == [ T_m1 |-> MethodSym("T", "m1", <<pm, pi, pme>>),
              T_m2 |-> MethodSym("T", "m2", <<pm, pi>>),
              T_m3 |-> MethodSym("T", "m3", <<pm>>),
              T_destroy |-> DtorSym("T", <<pm, pt>>),
              U_u1 |-> MethodSym("U", "u1", <<pm>>),
              U_destroy |-> DtorSym("U", <<pm>>) ]
Items == {"T_m1", "T_m2", "T_m3", "T_destroy", "U_u1", "U_destroy"}
\* which items a backend's bindings contain
\* disabling one method (or one impl block) removes exactly that: what is declared after it stays
EnabledFor(b) == CASE dis.k = "disable_m2" /\ dis.b \in Names[b] -> Items \ {"T_m2"}
                   [] dis.k = "disable_m1" /\ dis.b \in Names[b] -> Items \ {"T_m1"}
                   [] dis.k = "disable_i" /\ dis.b \in Names[b] -> Items \ {"T_m1", "T_m2"}
                   [] dis.k = "disable_T" /\ dis.b \in Names[b] -> {"U_u1", "U_destroy"}
                   [] OTHER -> Items
Refs(b) == {Exported[i] : i \in EnabledFor(b)}
AllExported == {Exported[i] : i \in Items}

Pats(place) == {NoPat, Subst("ns" \o place \o "_", ""), Subst("", "_" \o place)}
               \cup (IF place \in {"t", "me"} THEN {Fixed("fx_" \o place)} ELSE {})
               \* the identity pattern "{0}": not empty -- on an inner item it switches an inherited pattern off again
               \cup (IF place # "m" THEN {Subst("", "")} ELSE {})
Init == stage = "choose" /\ pm = NoPat /\ pt = NoPat /\ pi = NoPat /\ pme = NoPat /\ dis = [k |-> "none", b |-> "c"]
Choose == /\ stage = "choose"
          /\ pm' \in Pats("m") /\ pt' \in Pats("t") /\ pi' \in Pats("i") /\ pme' \in Pats("me")
          /\ dis' \in {[k |-> "none", b |-> "c"]} \cup {[k |-> kk, b |-> bb] : kk \in {"disable_m1", "disable_m2", "disable_i", "disable_T", "rename_T"}, bb \in {"js", "dart", "cpp"}}
          /\ stage' = "done"
Spec == Init /\ [][Choose]_vars
Done == stage = "done"

\* ---- properties -----------------------------------------------------------------------------
\* distinct items never collide on one symbol (otherwise the library could not link)
Injective == Done => Cardinality(AllExported) = Cardinality(Items)
\* a backend never refers to something that is not exported, and refers to everything it has enabled
RefsSubset == Done => \A b \in Backend : Refs(b) \subseteq AllExported
\* renaming or disabling for a backend never changes what the Rust library exports
ExportIndependentOfBackendAttrs == Done => AllExported = {Exported[i] : i \in Items}
\* disabling is per item: a disabled method never takes a later method (or the destructor) of its type with it
DisableIsLocal == Done => \A b \in Backend : /\ (dis.k \in {"disable_m1", "disable_m2", "disable_i"} => {"T_m3", "T_destroy"} \subseteq EnabledFor(b))
                                             /\ {"U_u1", "U_destroy"} \subseteq EnabledFor(b)
\* the pattern is applied exactly once: the plain name occurs exactly once inside a substituted symbol
AppliedOnce == Done => (pme.k = "subst" => Exported.T_m1 = pme.p \o "T_m1" \o pme.q)
InnermostWins == Done => /\ (pme.k = "none" /\ pi.k = "subst" => Exported.T_m1 = pi.p \o "T_m1" \o pi.q)
                         /\ (pi.k = "none" /\ pm.k = "subst" => Exported.T_m2 = pm.p \o "T_m2" \o pm.q)
                         /\ (pt.k = "none" => Exported.T_destroy = ApplyPat(pm, "T_destroy"))
=============================================================================
