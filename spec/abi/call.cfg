SPECIFICATION Spec
CONSTANT MaxDepth = 3
INVARIANTS WellNested RejectedNeverEnters AtMostOnce ReturnedMeansEntered
