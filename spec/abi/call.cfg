SPECIFICATION Spec
CONSTANT MaxDepth = 3
INVARIANTS NoUseAfterDrop WellNested RejectedNeverEnters AtMostOnce ReturnedMeansEntered
