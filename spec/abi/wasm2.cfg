SPECIFICATION Spec
CONSTANTS
  StructDefs <- MCStructDefs
  MaxFields = 2
INVARIANTS Covers InOrder SmallIsDirect Emit
