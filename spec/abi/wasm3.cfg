SPECIFICATION Spec
CONSTANTS
  StructDefs <- MCStructDefs
  MaxFields = 3
INVARIANTS Covers InOrder SmallIsDirect Emit
