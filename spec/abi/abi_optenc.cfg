SPECIFICATION Spec
CONSTANTS
  StructDefs <- MCStructDefs
  Mode = "optenc"
  MaxParams = 0
INVARIANTS SpellingIndependent NullNiche FlagLast UnitNoPayload Emit
