SPECIFICATION Spec
CONSTANTS
  Backend <- MCBackend
  Names <- MCNames
INVARIANTS ComposedAgrees
