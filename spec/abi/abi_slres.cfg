SPECIFICATION Spec
CONSTANTS
  StructDefs <- MCStructDefs
  Mode = "slres"
  MaxParams = 0
INVARIANTS Emit
