SPECIFICATION Spec
CONSTANTS
  StructDefs <- MCStructDefs
  Mode = "random"
  MaxParams = 3
INVARIANTS Emit
