SPECIFICATION TSpec
CONSTANT MaxDepth = 8
INVARIANTS NoUseAfterDrop WellNested RejectedNeverEnters AtMostOnce Balanced
POSTCONDITION Accepted
