SPECIFICATION TSpec
CONSTANT MaxDepth = 8
INVARIANTS WellNested RejectedNeverEnters AtMostOnce Balanced
POSTCONDITION Accepted
