SPECIFICATION Spec
CONSTANTS
  StructDefs <- MCStructDefs
  Mode = "cb"
  MaxParams = 0
INVARIANTS CbIsThreePointers Emit
