SPECIFICATION Spec
CONSTANTS
  StructDefs <- MCStructDefs
  Mode = "wval"
  MaxParams = 0
INVARIANTS Emit
