SPECIFICATION Spec
CONSTANTS
  StructDefs <- MCStructDefs
  MaxFields = 5
INVARIANTS Covers InOrder SmallIsDirect Emit
