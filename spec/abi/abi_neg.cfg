SPECIFICATION Spec
CONSTANTS
  StructDefs <- MCStructDefs
  Mode = "cover"
  MaxParams = 0
  FlaggedS <- FlaggedBad
INVARIANTS FlagLast
