SPECIFICATION Spec
CONSTANTS
  StructDefs <- MCStructDefs
  Mode = "cover"
  MaxParams = 0
INVARIANTS SpellingIndependent NullNiche FlagLast UnitNoPayload LayoutSane Emit EmitDefs
