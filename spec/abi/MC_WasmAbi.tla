----------------------------- MODULE MC_WasmAbi -----------------------------
EXTENDS WasmAbi, Json
\* N1: a newtype (one primitive): a struct whose only field is N1 is still a single scalar (newtype chains)
MCStructDefs == [S2 |-> <<P("u8"), P("u16")>>, S3 |-> <<P("u32"), P("u8"), P("u16")>>, SW |-> <<P("u8"), P("i64")>>, N1 |-> <<P("u32")>>]
FieldTypes == {P(p) : p \in Prims} \cup {EnumT, K("opq"),
               SliceT("u8", "imm"), StructT("S2"), StructT("S3"), StructT("SW"), StructT("N1"),
               OptT("dipl", P("u8")), OptT("dipl", P("u32")), OptT("dipl", P("bool")), OptT("dipl", P("i64")), OptT("dipl", P("f64")),
               OptT("dipl", StructT("S2")), OptT("dipl", SliceT("u8", "imm"))}
CONSTANT MaxFields
VARIABLES fields, stage
vars == <<fields, stage>>
Init == fields = <<>> /\ stage = "build"
Add == stage = "build" /\ Len(fields) < MaxFields /\ \E t \in FieldTypes : fields' = Append(fields, t) /\ UNCHANGED stage
Finish == stage = "build" /\ Len(fields) >= 1 /\ stage' = "done" /\ UNCHANGED fields
Spec == Init /\ [][Add \/ Finish]_vars
Done == stage = "done"
Sh == StructS([i \in 1..Len(fields) |-> Shape(fields[i])])
Covers == Done => PaddedCoversStruct(Sh)
InOrder == Done => Ordered(LegacyArgs(Sh)) /\ Ordered(Flat(Sh, 0))
\* a struct of at most two scalars never gets padding slots under the legacy ABI
SmallIsDirect == Done => ((~HasUnion(Sh) /\ Leaves(Sh) <= 2) => \A i \in 1..Len(LegacyArgs(Sh)) : LegacyArgs(Sh)[i].k = "sc")
Emit == Done => PrintT(<<"CASE", ToJson([fields |-> fields, layout |-> Layout(Sh, 32), flat |-> Flat(Sh, 0),
                                         legacy |-> LegacyArgs(Sh), spec |-> SpecArgs(Sh), shape |-> Sh])>>)
\* negative model: padding typed by the NEXT field's alignment
=============================================================================
