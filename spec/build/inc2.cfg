SPECIFICATION Spec
CONSTANT N = 2
INVARIANTS EveryHeaderCompilesAlone Emit
