SPECIFICATION Spec
CONSTANTS
  N = 2
  DeclContent <- DeclContentBad
INVARIANTS EveryHeaderCompilesAlone
