------------------------------- MODULE Includes -------------------------------
(***************************************************************************)
(* The include / forward-declaration discipline of the C and C++ backends  *)
(* (tool/src/c/header.rs, c/ty.rs gen_ty_name, cpp/header.rs):             *)
(* every type T gets a declaration header T.d and an implementation header *)
(* T.h.  T.d includes U.d for every struct U it holds BY VALUE, forward-    *)
(* declares every type it only points to, then defines T.  T.h includes    *)
(* T.d and the .d header of every type its methods mention, then declares  *)
(* the methods.  Compiling a header = depth-first processing of includes   *)
(* with include guards.  Property: no name is used before a sufficient     *)
(* declaration -- for every reference graph (cycles through pointers and   *)
(* methods included), whichever header is compiled alone or first.         *)
(***************************************************************************)
EXTENDS Naturals, Sequences, FiniteSets, TLC
CONSTANTS N             \* number of types; they are named 1..N
Ty == 1..N
VARIABLES kind,         \* kind[t] \in {"opaque","struct"}
          val,          \* val \subseteq Ty \X Ty : struct a holds struct b by value (acyclic)
          ptr,          \* ptr \subseteq Ty \X Ty : struct a has a pointer field to opaque b
          meth,         \* meth \subseteq Ty \X Ty : a method of a mentions b (by value if struct, by pointer if opaque)
          stage
vars == <<kind, val, ptr, meth, stage>>

\* ---- header contents as the design prescribes ------------------------------------------------
\* entries: [e |-> "include", f] | [e |-> "fwd", n] | [e |-> "def", n] | [e |-> "use", n, need |-> "fwd" | "def"]
SeqOf(S) == LET RECURSIVE G(_)
                G(R) == IF R = {} THEN <<>> ELSE LET x == CHOOSE y \in R : \A z \in R : y <= z IN <<x>> \o G(R \ {x})
            IN G(S)
Map(s, Op(_)) == [i \in 1..Len(s) |-> Op(s[i])]
DeclFile(t) == <<"d", t>>
ImplFile(t) == <<"h", t>>
Inc(f) == [e |-> "include", f |-> f]
Fwd(n) == [e |-> "fwd", n |-> n]
Def(n) == [e |-> "def", n |-> n]
Use(n, need) == [e |-> "use", n |-> n, need |-> need]
ValOf(t) == {b \in Ty : <<t, b>> \in val}
PtrOf(t) == {b \in Ty : <<t, b>> \in ptr}
MethOf(t) == {b \in Ty : <<t, b>> \in meth}
DeclContent(t) ==
         Map(SeqOf(ValOf(t)), LAMBDA b : Inc(DeclFile(b)))          \* by-value members need the full definition
         \o Map(SeqOf(PtrOf(t)), LAMBDA b : Fwd(b))                 \* pointees only need a name
         \o Map(SeqOf(ValOf(t)), LAMBDA b : Use(b, "def"))
         \o Map(SeqOf(PtrOf(t)), LAMBDA b : Use(b, "fwd"))
         \o <<Def(t)>>
ImplContent(t) ==
         <<Inc(DeclFile(t))>>
         \o Map(SeqOf(MethOf(t)), LAMBDA b : Inc(DeclFile(b)))
         \o Map(SeqOf(MethOf(t)), LAMBDA b : Use(b, IF kind[b] = "struct" THEN "def" ELSE "fwd"))
         \o <<Use(t, IF kind[t] = "struct" THEN "def" ELSE "fwd")>>
Content(f) == IF f[1] = "d" THEN DeclContent(f[2]) ELSE ImplContent(f[2])

\* ---- a C compiler's view: process a translation unit that includes `root` --------------------
\* state of the compilation: work stack of (file, position), set of guarded files, declared names
RECURSIVE Compile(_, _, _, _)
\* returns TRUE iff no use-before-declaration occurs.  stack: sequence of [f, i]
Compile(stack, guarded, fwd, def) ==
  IF stack = <<>> THEN TRUE
  ELSE LET top == stack[Len(stack)]
           c == Content(top.f)
       IN IF top.i > Len(c) THEN Compile(SubSeq(stack, 1, Len(stack) - 1), guarded, fwd, def)
          ELSE LET en == c[top.i]
                   rest == [stack EXCEPT ![Len(stack)] = [f |-> top.f, i |-> top.i + 1]]
               IN CASE en.e = "include" ->
                         IF en.f \in guarded THEN Compile(rest, guarded, fwd, def)
                         ELSE Compile(Append(rest, [f |-> en.f, i |-> 1]), guarded \cup {en.f}, fwd, def)
                    [] en.e = "fwd" -> Compile(rest, guarded, fwd \cup {en.n}, def)
                    [] en.e = "def" -> Compile(rest, guarded, fwd \cup {en.n}, def \cup {en.n})
                    [] en.e = "use" -> IF (en.need = "def" /\ en.n \in def) \/ (en.need = "fwd" /\ en.n \in fwd)
                                         THEN Compile(rest, guarded, fwd, def) ELSE FALSE
CompilesAlone(f) == Compile(<<[f |-> f, i |-> 1]>>, {f}, {}, {})
\* two headers included one after the other in one translation unit
CompilesInOrder(f, g) ==
  Compile(<<[f |-> <<"tu", f, g>>, i |-> 1]>>, {}, {}, {})

Files == {DeclFile(t) : t \in Ty} \cup {ImplFile(t) : t \in Ty}

\* ---- graph builder ----------------------------------------------------------------------------
Less(a, b) == a < b         \* by-value edges only go "upwards", so the struct graph is acyclic
Init == stage = "choose" /\ kind = [t \in Ty |-> "opaque"] /\ val = {} /\ ptr = {} /\ meth = {}
Choose == /\ stage = "choose"
          /\ \E k \in [Ty -> {"opaque", "struct"}] :
               \E v \in SUBSET {p \in Ty \X Ty : k[p[1]] = "struct" /\ k[p[2]] = "struct" /\ Less(p[1], p[2])} :
                 \E q \in SUBSET {p \in Ty \X Ty : k[p[1]] = "struct" /\ k[p[2]] = "opaque"} :
                   \E m \in SUBSET (Ty \X Ty) :
                     kind' = k /\ val' = v /\ ptr' = q /\ meth' = m
          /\ stage' = "done"
Spec == Init /\ [][Choose]_vars
Done == stage = "done"

\* ---- property (C09, design level) -------------------------------------------------------------
EveryHeaderCompilesAlone == Done => \A f \in Files : CompilesAlone(f)
=============================================================================
