---- MODULE MC_Includes ----
EXTENDS Includes, Json
Emit == Done => PrintT(<<"CASE", ToJson([kind |-> kind, val |-> val, ptr |-> ptr, meth |-> meth])>>)
\* negative model: the declaration header forgets to include by-value members
DeclContentBad(t) ==
         Map(SeqOf(ValOf(t)), LAMBDA b : Fwd(b)) \o Map(SeqOf(ValOf(t)), LAMBDA b : Use(b, "def")) \o <<Def(t)>>
====
