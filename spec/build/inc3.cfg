SPECIFICATION Spec
CONSTANT N = 3
INVARIANTS EveryHeaderCompilesAlone
