SPECIFICATION Spec
CONSTANT MaxParams = 2
INVARIANTS Emit
