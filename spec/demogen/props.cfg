SPECIFICATION Spec
CONSTANT MaxParams = 2
INVARIANTS OnlyAskable ExplicitShrinks ReceiverFirst DistinctPaths
