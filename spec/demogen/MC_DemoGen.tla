----------------------------- MODULE MC_DemoGen -----------------------------
EXTENDS DemoGen, Json, TLC
Emit == PrintT(<<"CASE", ToJson([m |-> m, explicit |-> explicit, terminus |-> IsTerminus(m, explicit), error |-> IsTerminus(m, explicit) /\ HasError(m),
                                 owner |-> Owner(m),
                                 questions |-> IF IsTerminus(m, explicit) /\ ~HasError(m) THEN Questions(m) ELSE <<>>])>>)
\* negative model: a rule set that asks the user for an opaque it cannot build instead of reporting it
AskableBad == {"number", "boolean", "string", "Array<number>", "enumerator"}
OnlyAskableBad == (IsTerminus(m, explicit) /\ ~HasError(m)) => \A i \in 1..Len(Questions(m)) : Questions(m)[i].use \in AskableBad
=============================================================================
