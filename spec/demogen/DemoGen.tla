------------------------------ MODULE DemoGen ------------------------------
(***************************************************************************)
(* EXTENSION SPEC (outside the 17 listed properties): which methods the    *)
(* demo_gen backend turns into "render termini" and which user inputs each *)
(* terminus asks for (tool/src/demo_gen/mod.rs, terminus.rs;               *)
(* book/src/demo_gen/*.md).                                                *)
(*                                                                         *)
(* A method is a terminus iff it returns a write-out, is not disabled for  *)
(* the backend and -- under demo_gen.explicit_generation -- carries        *)
(* #[diplomat::demo(generate)].  Its inputs are found by walking the       *)
(* receiver and the parameters: primitives, enums, strings and slices are  *)
(* asked from the user; a struct is built from its fields; an opaque is    *)
(* built by its default constructor (walking that constructor's own        *)
(* parameters), unless its type is marked `external`, in which case the    *)
(* renderer is asked for it (typeUse "external"); an opaque without a      *)
(* default constructor is an error.  Labels are the path of names from the *)
(* terminus down to the input ("Sn:S:A"), unless input(label = ..) says    *)
(* otherwise.                                                              *)
(***************************************************************************)
EXTENDS Naturals, Sequences, FiniteSets
\* ---- the fixed type universe of the replay (rendered verbatim by py/demogen.py) -----------------------------------
\*   enum En | struct St { a: u8, e: En } | struct Sn { s: St, #[label "Flag B"] b: bool }
\*   opaque OpC: default constructor make(val_x: u8, e: En) | opaque OpR: constructor new(c: &OpC, k: u16)
\*   opaque OpN: no constructor | opaque OpX: #[diplomat::demo(external)]
Prim(p) == [k |-> "prim", p |-> p]
Opq(n) == [k |-> "opq", n |-> n]
St(n) == [k |-> "st", n |-> n]
ParamTy == {Prim("u8"), Prim("bool"), Prim("f64"), [k |-> "enum"], [k |-> "str"], [k |-> "slice"], [k |-> "opt"],
            Opq("OpC"), Opq("OpR"), Opq("OpN"), Opq("OpX"), St("St"), St("Sn")}
P(n, t, l, d) == [name |-> n, ty |-> t, label |-> l, dflt |-> d]
Ctor == [OpC |-> <<P("val_x", Prim("u8"), "", ""), P("e", [k |-> "enum"], "", "")>>,
         OpR |-> <<P("c", Opq("OpC"), "", ""), P("k", Prim("u16"), "", "")>>]
Fields == [St |-> <<P("a", Prim("u8"), "", ""), P("e", [k |-> "enum"], "", "")>>,
           Sn |-> <<P("s", St("St"), "", ""), P("b", Prim("bool"), "Flag B", "")>>]
JsPrim(p) == IF p = "bool" THEN "boolean" ELSE "number"

\* ---- flattening an input into the questions asked from the user -------------------------------------------------
\* a question: [path: names from the terminus down to this input, label: custom label or "", type, use, dflt]; use = "ERR" marks an
\* opaque that cannot be built
Q(path, p, ty, use) == [path |-> path, label |-> p.label, type |-> ty, use |-> use, dflt |-> p.dflt]
RECURSIVE Flat(_, _), FlatSeq(_, _, _)
Flat(p, owner) ==
  LET t == p.ty  path == Append(owner, p.name) IN
  CASE t.k = "prim" -> <<Q(path, p, JsPrim(t.p), JsPrim(t.p))>>
    [] t.k = "opt" -> <<Q(path, p, "number", "number")>>                 \* DiplomatOption<u8>: the inner type is asked for
    [] t.k = "enum" -> <<Q(path, p, "En", "enumerator")>>
    [] t.k = "str" -> <<Q(path, p, "string", "string")>>
    [] t.k = "slice" -> <<Q(path, p, "Array<number>", "Array<number>")>>
    [] t.k = "st" -> FlatSeq(Fields[t.n], path, 1)
    [] t.k = "opq" -> IF t.n = "OpX" THEN <<Q(path, p, "OpX", "external")>>
                      ELSE IF t.n = "OpN" THEN <<Q(path, p, "OpN", "ERR")>>
                      ELSE FlatSeq(Ctor[t.n], path, 1)
FlatSeq(ps, owner, i) == IF i > Len(ps) THEN <<>> ELSE Flat(ps[i], owner) \o FlatSeq(ps, owner, i + 1)

\* ---- methods -----------------------------------------------------------------------------------------------------
CONSTANTS MaxParams
Names == <<"a", "val_x">>                   \* parameter names by position (one needs camel-casing)
MParam == {[ty |-> t, labelled |-> l] : t \in ParamTy, l \in BOOLEAN} \ {[ty |-> t, labelled |-> TRUE] : t \in ParamTy \ {Prim("u8"), [k |-> "enum"]}}
Method == [self : {"none", "OpC", "OpN", "St"}, params : UNION {[1..n -> MParam] : n \in 0..MaxParams},
           write : BOOLEAN, gen : BOOLEAN, dis : BOOLEAN]
Owner(m) == IF m.self = "none" THEN "OpC" ELSE m.self          \* static methods live on OpC
SelfParam(m) == IF m.self = "none" THEN <<>>
                ELSE <<P(m.self, IF m.self = "St" THEN St("St") ELSE Opq(m.self), "", "")>>     \* the receiver is named after its type
MethodParams(m) == [i \in 1..Len(m.params) |->
                      P(Names[i], m.params[i].ty, IF m.params[i].labelled THEN "My Label" ELSE "", IF m.params[i].labelled THEN "7" ELSE "")]
IsTerminus(m, explicit) == m.write /\ ~m.dis /\ (explicit => m.gen)
Questions(m) == FlatSeq(SelfParam(m) \o MethodParams(m), <<>>, 1)
HasError(m) == \E i \in 1..Len(Questions(m)) : Questions(m)[i].use = "ERR"

\* ---- properties of the rules themselves -----------------------------------------------------------------------------
\* every terminus asks only for things a user can type or the renderer can supply
Askable == {"number", "boolean", "string", "Array<number>", "enumerator", "external"}
VARIABLES m, explicit
vars == <<m, explicit>>
Init == m \in Method /\ explicit \in BOOLEAN
Spec == Init /\ [][FALSE]_vars
OnlyAskable == (IsTerminus(m, explicit) /\ ~HasError(m)) => \A i \in 1..Len(Questions(m)) : Questions(m)[i].use \in Askable
\* explicit generation only ever removes termini
ExplicitShrinks == IsTerminus(m, TRUE) => IsTerminus(m, FALSE)
\* the receiver's questions come first and are prefixed by the receiver's type name
ReceiverFirst == (m.self # "none" /\ ~HasError(m)) =>
                   \A i \in 1..Len(FlatSeq(SelfParam(m), <<>>, 1)) : Questions(m)[i].path[1] = m.self
\* a label is never empty and paths of different parameters never coincide
DistinctPaths == ~HasError(m) => \A i, j \in 1..Len(Questions(m)) : i # j => Questions(m)[i].path # Questions(m)[j].path
=============================================================================
