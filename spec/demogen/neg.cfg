SPECIFICATION Spec
CONSTANT MaxParams = 1
INVARIANTS OnlyAskableBad
