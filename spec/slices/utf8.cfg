SPECIFICATION Spec
CONSTANT MaxLen = 5
INVARIANTS Equivalent PartitionOK EmitTable
