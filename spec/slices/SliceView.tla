----------------------------- MODULE SliceView -----------------------------
(* FFI views of slices and strings (runtime/src/slices.rs).                   *)
(* A Rust value (&[T], &mut [T], Box<[T]>, &str, Box<str>) is exported to its *)
(* repr(C) view {ptr,len}, possibly replaced by foreign code with the C-land  *)
(* empty view {NULL,0}, read/written through the view's Deref/DerefMut, and   *)
(* imported back.  Pointers are abstract: "null", "dangling" (what Rust uses  *)
(* for empty slices: non-null, never dereferenced), the allocation "A", or     *)
(* "A+1": one element into "A" (a sub-range of a live buffer -- in particular *)
(* an EMPTY sub-range, which has length 0 and a real pointer).                *)
EXTENDS Naturals, Sequences, FiniteSets
CONSTANTS MaxLen, MaxSteps
Kind == {"imm", "mut", "own", "str", "ownstr"}
Owned(k) == k \in {"own", "ownstr"}
Mutable(k) == k \in {"mut", "own"}
VARIABLES val,      \* [where: "none"|"rust"|"ffi", k, ptr, len]
          data,     \* contents of allocation "A" (sequence of naturals), <<>> if none
          alive,    \* allocation "A" currently allocated
          frees,    \* how many times "A" has been freed
          orig,     \* [ptr,len,data] of the Rust value as first made (for RoundTrip)
          bad,      \* ghost: an access touched freed/NULL memory
          scratch,  \* a buffer foreign code got from diplomat_alloc(n * size_of<T>, align_of<T>): [st: none | live | freed, n]
          steps
vars == <<val, data, alive, frees, orig, bad, scratch, steps>>
None == [where |-> "none", k |-> "imm", ptr |-> "null", len |-> 0]

\* ---- the conversions, as documented ------------------------------------------------------
From(r)  == [where |-> "ffi", k |-> r.k, ptr |-> r.ptr, len |-> r.len]          \* identity on {ptr,len}
Into(v)  == IF v.ptr = "null" THEN [where |-> "rust", k |-> v.k, ptr |-> "dangling", len |-> 0]
            ELSE [where |-> "rust", k |-> v.k, ptr |-> v.ptr, len |-> v.len]
InA(p) == p \in {"A", "A+1"}
Off(p) == IF p = "A+1" THEN 1 ELSE 0
ContentsOf(v, d) == IF InA(v.ptr) THEN SubSeq(d, 1 + Off(v.ptr), v.len + Off(v.ptr)) ELSE <<>>          \* NULL/dangling: empty
Contents(v) == ContentsOf(v, data)

Init == /\ val = None /\ data = <<>> /\ alive = FALSE /\ frees = 0
        /\ orig = [ptr |-> "null", len |-> 0, data |-> <<>>] /\ bad = FALSE /\ steps = 0
        /\ scratch = [st |-> "none", n |-> 0]
Tick == steps < MaxSteps /\ steps' = steps + 1

\* Rust creates a value of n elements (n = 0: no allocation, dangling pointer)
RustMake(k, n) ==
  /\ Tick /\ val.where = "none" /\ ~alive /\ frees = 0
  /\ LET p == IF n = 0 THEN "dangling" ELSE "A" d == [i \in 1..n |-> 64 + i] IN
       /\ val' = [where |-> "rust", k |-> k, ptr |-> p, len |-> n]
       /\ data' = d /\ alive' = (n > 0)
       /\ orig' = [ptr |-> p, len |-> n, data |-> d]
  /\ UNCHANGED <<frees, bad>>
\* Rust borrows the sub-range [1, 1+m) of a live buffer of n elements (m = 0: an empty range with a real pointer)
RustMakeSub(k, n, m) ==
  /\ Tick /\ val.where = "none" /\ ~alive /\ frees = 0 /\ ~Owned(k) /\ n >= 1 /\ m < n
  /\ LET d == [i \in 1..n |-> 64 + i] IN
       /\ val' = [where |-> "rust", k |-> k, ptr |-> "A+1", len |-> m]
       /\ data' = d /\ alive' = TRUE
       /\ orig' = [ptr |-> "A+1", len |-> m, data |-> d]
  /\ UNCHANGED <<frees, bad>>
\* Rust -> FFI view  (From<&[T]> for DiplomatSlice, From<Box<[T]>> for DiplomatOwnedSlice, ...)
Export == /\ Tick /\ val.where = "rust" /\ val' = From(val) /\ UNCHANGED <<data, alive, frees, orig, bad>>
\* foreign code passes the C-land empty slice instead
ForeignNull(k) ==
  /\ Tick /\ val.where = "none" /\ ~alive /\ frees = 0
  /\ val' = [where |-> "ffi", k |-> k, ptr |-> "null", len |-> 0]
  /\ orig' = [ptr |-> "dangling", len |-> 0, data |-> <<>>]
  /\ UNCHANGED <<data, alive, frees, bad>>
\* FFI view -> Rust  (From<DiplomatSlice> for &[T], ...)
Import == /\ Tick /\ val.where = "ffi" /\ val' = Into(val) /\ UNCHANGED <<data, alive, frees, orig, bad>>
\* Deref on the view itself
ReadView == /\ Tick /\ val.where = "ffi"
            /\ bad' = (bad \/ (InA(val.ptr) /\ ~alive))
            /\ UNCHANGED <<val, data, alive, frees, orig>>
\* DerefMut on the view: store v at index i
WriteView(i) == /\ Tick /\ val.where = "ffi" /\ Mutable(val.k) /\ i \in 1..val.len
                /\ data' = [data EXCEPT ![i + Off(val.ptr)] = 99]
                /\ bad' = (bad \/ ~alive)
                /\ UNCHANGED <<val, alive, frees, orig>>
\* Drop of an owned view / of the Box: frees the allocation iff there is one
DropOwned == /\ Tick /\ val.where \in {"ffi", "rust"} /\ Owned(val.k)
             /\ IF val.ptr = "A" THEN alive' = FALSE /\ frees' = frees + 1 /\ bad' = (bad \/ ~alive)
                ELSE UNCHANGED <<alive, frees, bad>>
             /\ val' = None /\ UNCHANGED <<data, orig>>
\* end of a borrow: the owner of the backing store releases it
EndBorrow == /\ Tick /\ val.where \in {"ffi", "rust"} /\ ~Owned(val.k)
             /\ IF alive THEN alive' = FALSE /\ frees' = frees + 1 ELSE UNCHANGED <<alive, frees>>
             /\ val' = None /\ UNCHANGED <<data, orig, bad>>
ViewNext == \/ \E k \in Kind, n \in 0..MaxLen : RustMake(k, n)
            \/ \E k \in Kind, n \in 1..MaxLen, m \in 0..MaxLen : RustMakeSub(k, n, m)
            \/ \E k \in Kind : ForeignNull(k)
            \/ Export \/ Import \/ ReadView \/ DropOwned \/ EndBorrow
            \/ \E i \in 1..MaxLen : WriteView(i)
\* foreign code makes an OWNED view of n >= 1 elements in memory it got from diplomat_alloc (how JS and C pass a Box<[T]>): Rust
\* releases it with the layout of [T; n], which is the layout it was allocated with
ForeignMake(k, n) ==
  /\ Tick /\ val.where = "none" /\ ~alive /\ frees = 0 /\ Owned(k) /\ n >= 1
  /\ LET d == [i \in 1..n |-> 64 + i] IN
       /\ val' = [where |-> "ffi", k |-> k, ptr |-> "A", len |-> n]
       /\ data' = d /\ alive' = TRUE
       /\ orig' = [ptr |-> "A", len |-> n, data |-> d]
  /\ UNCHANGED <<frees, bad>>
\* diplomat_alloc(n * size, align) / diplomat_free(p, n * size, align) as a pair, n = 0 included (an empty buffer is still a
\* buffer: what alloc hands out, free must take back)
ForeignAlloc(n) == /\ Tick /\ scratch.st = "none" /\ scratch' = [st |-> "live", n |-> n]
                   /\ UNCHANGED <<val, data, alive, frees, orig, bad>>
ForeignFree == /\ Tick /\ scratch.st = "live" /\ scratch' = [scratch EXCEPT !.st = "freed"]
               /\ UNCHANGED <<val, data, alive, frees, orig, bad>>
Next == \/ (ViewNext /\ UNCHANGED scratch)
        \/ (\E k \in Kind, n \in 1..MaxLen : ForeignMake(k, n) /\ UNCHANGED scratch)
        \/ (\E n \in 0..MaxLen : ForeignAlloc(n)) \/ ForeignFree
Spec == Init /\ [][Next]_vars

\* ---- properties (C16) ----------------------------------------------------------------------
\* converting there and back yields the same pointer/length; NULL+0 is the empty slice
RoundTrip == val.where = "rust" => (val.ptr = orig.ptr /\ val.len = orig.len)
ViewFaithful == val.where = "ffi" => (val.len = orig.len /\ (val.ptr = orig.ptr \/ (val.ptr = "null" /\ orig.len = 0)))
NullIsEmpty == (val.where = "ffi" /\ val.ptr = "null") => Contents(val) = <<>>
NoBadAccess == ~bad
FreedOnce == frees <= 1
NoLeak == (val.where = "none" /\ steps > 0) => ~alive
Finished == val.where = "none" /\ steps > 0 /\ scratch.st # "live"
=============================================================================
