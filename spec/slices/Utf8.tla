-------------------------------- MODULE Utf8 --------------------------------
(* UTF-8 well-formedness over byte classes.  Two independent formulations:   *)
(*   - an automaton (state = what must come next), executed byte by byte;    *)
(*   - the declarative definition of Unicode Table 3-7 (well-formed UTF-8    *)
(*     byte sequences): a string is well formed iff it is a concatenation of *)
(*     code-unit sequences listed in the table.                              *)
(* TLC proves them equal on every class string up to MaxLen and emits the    *)
(* automaton's table; the harness executes that TABLE (data, not logic)      *)
(* over concrete bytes against the exported diplomat_is_str.                 *)
EXTENDS Naturals, Sequences, TLC, Json
CONSTANT MaxLen
Class == {"00_7F", "80_8F", "90_9F", "A0_BF", "C0_C1", "C2_DF", "E0", "E1_EC", "ED", "EE_EF",
          "F0", "F1_F3", "F4", "F5_FF"}
\* inclusive byte ranges of the classes (decimal)
Range == [c \in Class |->
  CASE c = "00_7F" -> <<0, 127>>   [] c = "80_8F" -> <<128, 143>> [] c = "90_9F" -> <<144, 159>>
    [] c = "A0_BF" -> <<160, 191>> [] c = "C0_C1" -> <<192, 193>> [] c = "C2_DF" -> <<194, 223>>
    [] c = "E0" -> <<224, 224>>    [] c = "E1_EC" -> <<225, 236>> [] c = "ED" -> <<237, 237>>
    [] c = "EE_EF" -> <<238, 239>> [] c = "F0" -> <<240, 240>>    [] c = "F1_F3" -> <<241, 243>>
    [] c = "F4" -> <<244, 244>>    [] c = "F5_FF" -> <<245, 255>>]
\* the classes partition 0..255
Partition == /\ \A b \in 0..255 : \E c \in Class : Range[c][1] <= b /\ b <= Range[c][2]
             /\ \A c, d \in Class : c # d => (Range[c][2] < Range[d][1] \/ Range[d][2] < Range[c][1])
Cont  == {"80_8F", "90_9F", "A0_BF"}
\* ---- automaton ---------------------------------------------------------------------------
DState == {"start", "c1", "c2", "c3", "e0", "ed", "f0", "f4", "bad"}
Delta(st, c) ==
  CASE st = "start" ->
         (CASE c = "00_7F" -> "start" [] c = "C2_DF" -> "c1" [] c = "E0" -> "e0"
            [] c \in {"E1_EC", "EE_EF"} -> "c2" [] c = "ED" -> "ed" [] c = "F0" -> "f0"
            [] c = "F1_F3" -> "c3" [] c = "F4" -> "f4" [] OTHER -> "bad")
    [] st = "c1" -> IF c \in Cont THEN "start" ELSE "bad"
    [] st = "c2" -> IF c \in Cont THEN "c1" ELSE "bad"
    [] st = "c3" -> IF c \in Cont THEN "c2" ELSE "bad"
    [] st = "e0" -> IF c = "A0_BF" THEN "c1" ELSE "bad"
    [] st = "ed" -> IF c \in {"80_8F", "90_9F"} THEN "c1" ELSE "bad"
    [] st = "f0" -> IF c \in {"90_9F", "A0_BF"} THEN "c2" ELSE "bad"
    [] st = "f4" -> IF c = "80_8F" THEN "c2" ELSE "bad"
    [] OTHER -> "bad"
RECURSIVE Run(_, _)
Run(st, w) == IF w = <<>> THEN st ELSE Run(Delta(st, Head(w)), Tail(w))
AcceptDFA(w) == Run("start", w) = "start"
\* ---- declarative: Table 3-7 ---------------------------------------------------------------
Unit(w) ==
  \/ Len(w) = 1 /\ w[1] = "00_7F"
  \/ Len(w) = 2 /\ w[1] = "C2_DF" /\ w[2] \in Cont
  \/ Len(w) = 3 /\ w[1] = "E0" /\ w[2] = "A0_BF" /\ w[3] \in Cont
  \/ Len(w) = 3 /\ w[1] \in {"E1_EC", "EE_EF"} /\ w[2] \in Cont /\ w[3] \in Cont
  \/ Len(w) = 3 /\ w[1] = "ED" /\ w[2] \in {"80_8F", "90_9F"} /\ w[3] \in Cont
  \/ Len(w) = 4 /\ w[1] = "F0" /\ w[2] \in {"90_9F", "A0_BF"} /\ w[3] \in Cont /\ w[4] \in Cont
  \/ Len(w) = 4 /\ w[1] = "F1_F3" /\ w[2] \in Cont /\ w[3] \in Cont /\ w[4] \in Cont
  \/ Len(w) = 4 /\ w[1] = "F4" /\ w[2] = "80_8F" /\ w[3] \in Cont /\ w[4] \in Cont
RECURSIVE WellFormed(_)
WellFormed(w) == w = <<>> \/ \E n \in 1..(IF Len(w) < 4 THEN Len(w) ELSE 4) :
                                Unit(SubSeq(w, 1, n)) /\ WellFormed(SubSeq(w, n + 1, Len(w)))
\* ---- machine: feed one class per step ------------------------------------------------------
VARIABLES w
Init == w = <<>>
Feed == Len(w) < MaxLen /\ \E c \in Class : w' = Append(w, c)
Spec == Init /\ [][Feed]_w
Equivalent == AcceptDFA(w) <=> WellFormed(w)
PartitionOK == Partition
Table == [st \in DState \ {"bad"} |-> [c \in Class |-> Delta(st, c)]]
EmitTable == w = <<>> => PrintT(<<"TABLE", ToJson([delta |-> Table, range |-> Range])>>)
\* negative model: an automaton that forgets the E0 / ED / F0 / F4 second-byte restrictions
DeltaLax(st, c) == IF st \in {"e0", "ed"} THEN (IF c \in Cont THEN "c1" ELSE "bad")
                   ELSE IF st \in {"f0", "f4"} THEN (IF c \in Cont THEN "c2" ELSE "bad") ELSE Delta(st, c)
RECURSIVE RunLax(_, _)
RunLax(st, x) == IF x = <<>> THEN st ELSE RunLax(DeltaLax(st, Head(x)), Tail(x))
EquivalentLax == (RunLax("start", w) = "start") <=> WellFormed(w)
=============================================================================
