SPECIFICATION HSpec
CONSTANTS
  MaxLen = 2
  MaxSteps = 6
CONSTRAINT Stop
INVARIANTS RoundTrip ViewFaithful NullIsEmpty NoBadAccess FreedOnce NoLeak Emit
