SPECIFICATION HSpec
CONSTANTS
  MaxLen = 3
  MaxSteps = 7
CONSTRAINT Stop
INVARIANTS RoundTrip ViewFaithful NullIsEmpty NoBadAccess FreedOnce NoLeak Emit
