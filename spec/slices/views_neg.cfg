SPECIFICATION SpecN
CONSTANTS
  MaxLen = 2
  MaxSteps = 5
INVARIANTS RoundTrip
