SPECIFICATION Spec
CONSTANT MaxLen = 4
INVARIANTS Equivalent PartitionOK EmitTable
