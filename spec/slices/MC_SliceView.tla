---------------------------- MODULE MC_SliceView ----------------------------
EXTENDS SliceView, TLC, Json
VARIABLE hist
Obs == [where |-> val.where, k |-> val.k, ptr |-> val.ptr, len |-> val.len, contents |-> Contents(val),
        alive |-> alive, frees |-> frees]
HInit == Init /\ hist = <<>>
Log(e) == hist' = Append(hist, e)
HNext ==
  \/ \E k \in Kind, n \in 1..MaxLen : ForeignMake(k, n) /\ UNCHANGED scratch /\ Log([op |-> "ForeignMake", k |-> k, n |-> n, ptr |-> "A", len |-> n, contents |-> ContentsOf(val', data')])
  \/ \E n \in 0..MaxLen : ForeignAlloc(n) /\ Log([op |-> "ForeignAlloc", n |-> n, ptr |-> "null", len |-> 0, contents |-> <<>>])
  \/ ForeignFree /\ Log([op |-> "ForeignFree", n |-> scratch.n, ptr |-> "null", len |-> 0, contents |-> <<>>])
  \/ \E k \in Kind, n \in 0..MaxLen : RustMake(k, n) /\ UNCHANGED scratch /\ Log([op |-> "RustMake", k |-> k, n |-> n, ptr |-> val'.ptr, len |-> val'.len, contents |-> ContentsOf(val', data')])
  \/ \E k \in Kind, n \in 1..MaxLen, m \in 0..MaxLen : RustMakeSub(k, n, m) /\ UNCHANGED scratch /\ Log([op |-> "RustMake", k |-> k, n |-> n, sub |-> m, ptr |-> val'.ptr, len |-> val'.len, contents |-> ContentsOf(val', data')])
  \/ \E k \in Kind : ForeignNull(k) /\ UNCHANGED scratch /\ Log([op |-> "ForeignNull", k |-> k, ptr |-> "null", len |-> 0, contents |-> <<>>])
  \/ Export /\ UNCHANGED scratch /\ Log([op |-> "Export", ptr |-> val'.ptr, len |-> val'.len, contents |-> ContentsOf(val', data')])
  \/ Import /\ UNCHANGED scratch /\ Log([op |-> "Import", ptr |-> val'.ptr, len |-> val'.len, contents |-> ContentsOf(val', data')])
  \/ ReadView /\ UNCHANGED scratch /\ Log([op |-> "ReadView", ptr |-> val.ptr, len |-> val.len, contents |-> Contents(val)])
  \/ \E i \in 1..MaxLen : WriteView(i) /\ UNCHANGED scratch /\ Log([op |-> "WriteView", i |-> i, ptr |-> val.ptr, len |-> val.len, contents |-> ContentsOf(val, data')])
  \/ DropOwned /\ UNCHANGED scratch /\ Log([op |-> "DropOwned", ptr |-> "null", len |-> 0, contents |-> <<>>, freed |-> (frees' > frees)])
  \/ EndBorrow /\ UNCHANGED scratch /\ Log([op |-> "EndBorrow", ptr |-> "null", len |-> 0, contents |-> <<>>, freed |-> (frees' > frees)])
HSpec == HInit /\ [][HNext]_<<vars, hist>>
Emit == Finished => PrintT(<<"BEH", ToJson(hist)>>)
\* after the value is gone nothing more happens in a behaviour
Stop == ~Finished
\* negative model: Into() without NULL normalisation keeps the null pointer
IntoNoNorm(v) == [where |-> "rust", k |-> v.k, ptr |-> v.ptr, len |-> v.len]
ImportN == /\ Tick /\ val.where = "ffi" /\ val' = IntoNoNorm(val) /\ UNCHANGED <<data, alive, frees, orig, bad>>
NextN == UNCHANGED scratch /\ ((\E k \in Kind, n \in 0..MaxLen : RustMake(k, n)) \/ (\E k \in Kind, n \in 1..MaxLen, m \in 0..MaxLen : RustMakeSub(k, n, m)) \/ (\E k \in Kind : ForeignNull(k)) \/ Export \/ ImportN \/ ReadView \/ DropOwned \/ EndBorrow)
SpecN == Init /\ hist = <<>> /\ [][NextN /\ UNCHANGED hist]_<<vars, hist>>
=============================================================================
