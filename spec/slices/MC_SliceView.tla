---------------------------- MODULE MC_SliceView ----------------------------
EXTENDS SliceView, TLC, Json
VARIABLE hist
Obs == [where |-> val.where, k |-> val.k, ptr |-> val.ptr, len |-> val.len, contents |-> Contents(val),
        alive |-> alive, frees |-> frees]
HInit == Init /\ hist = <<>>
Log(e) == hist' = Append(hist, e)
HNext ==
  \/ \E k \in Kind, n \in 0..MaxLen : RustMake(k, n) /\ Log([op |-> "RustMake", k |-> k, n |-> n, ptr |-> val'.ptr, len |-> val'.len, contents |-> ContentsOf(val', data')])
  \/ \E k \in Kind, n \in 1..MaxLen, m \in 0..MaxLen : RustMakeSub(k, n, m) /\ Log([op |-> "RustMake", k |-> k, n |-> n, sub |-> m, ptr |-> val'.ptr, len |-> val'.len, contents |-> ContentsOf(val', data')])
  \/ \E k \in Kind : ForeignNull(k) /\ Log([op |-> "ForeignNull", k |-> k, ptr |-> "null", len |-> 0, contents |-> <<>>])
  \/ Export /\ Log([op |-> "Export", ptr |-> val'.ptr, len |-> val'.len, contents |-> ContentsOf(val', data')])
  \/ Import /\ Log([op |-> "Import", ptr |-> val'.ptr, len |-> val'.len, contents |-> ContentsOf(val', data')])
  \/ ReadView /\ Log([op |-> "ReadView", ptr |-> val.ptr, len |-> val.len, contents |-> Contents(val)])
  \/ \E i \in 1..MaxLen : WriteView(i) /\ Log([op |-> "WriteView", i |-> i, ptr |-> val.ptr, len |-> val.len, contents |-> ContentsOf(val, data')])
  \/ DropOwned /\ Log([op |-> "DropOwned", ptr |-> "null", len |-> 0, contents |-> <<>>, freed |-> (frees' > frees)])
  \/ EndBorrow /\ Log([op |-> "EndBorrow", ptr |-> "null", len |-> 0, contents |-> <<>>, freed |-> (frees' > frees)])
HSpec == HInit /\ [][HNext]_<<vars, hist>>
Emit == (val.where = "none" /\ steps > 0) => PrintT(<<"BEH", ToJson(hist)>>)
\* after the value is gone nothing more happens in a behaviour
Stop == ~(val.where = "none" /\ steps > 0)
\* negative model: Into() without NULL normalisation keeps the null pointer
IntoNoNorm(v) == [where |-> "rust", k |-> v.k, ptr |-> v.ptr, len |-> v.len]
ImportN == /\ Tick /\ val.where = "ffi" /\ val' = IntoNoNorm(val) /\ UNCHANGED <<data, alive, frees, orig, bad>>
NextN == (\E k \in Kind, n \in 0..MaxLen : RustMake(k, n)) \/ (\E k \in Kind, n \in 1..MaxLen, m \in 0..MaxLen : RustMakeSub(k, n, m)) \/ (\E k \in Kind : ForeignNull(k)) \/ Export \/ ImportN \/ ReadView \/ DropOwned \/ EndBorrow
SpecN == Init /\ hist = <<>> /\ [][NextN /\ UNCHANGED hist]_<<vars, hist>>
=============================================================================
