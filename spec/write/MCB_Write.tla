------------------------------ MODULE MCB_Write ------------------------------
(* Behaviour emission for replay against the real runtime (history variable, no VIEW). *)
EXTENDS MC_Write
\* ---- history for replay (beh.cfg only; not part of the VIEW-free inv run) ---------------
VARIABLE hist
Obs(w) == [len |-> w.len, cap |-> w.cap, failed |-> w.failed, content |-> Content(w),
           null |-> BytesIsNull(w), acclen |-> LenOrZero(w)]
HInit == Init /\ hist = <<[ev |-> "New", kind |-> s.kind, cap |-> s.cap, st |-> Obs(s)]>>
HNext ==
  \/ \E c \in Chunks : WriteBegin(c) /\ hist' = Append(hist, [ev |-> "WriteBegin", api |-> "str", chunk |-> c, st |-> Obs(s')])
  \/ \E c \in Chunks : WriteCharBegin(c) /\ hist' = Append(hist, [ev |-> "WriteBegin", api |-> "char", chunk |-> c, st |-> Obs(s')])
  \/ \E n \in 1..MaxCap : GrowOk(n) /\ hist' = Append(hist, [ev |-> "GrowOk", req |-> Needed(s), newcap |-> n, st |-> Obs(s')])
  \/ GrowFail /\ hist' = Append(hist, [ev |-> "GrowFail", req |-> Needed(s), st |-> Obs(s')])
  \/ Copy /\ hist' = Append(hist, [ev |-> "Copy", st |-> Obs(s')])
  \/ (Flush /\ calls = MaxCalls /\ hist[Len(hist)].ev # "Flush"
      /\ hist' = Append(hist, [ev |-> "Flush", nul |-> IF s.kind = "fixed" THEN s.len + 1 ELSE 0, st |-> Obs(s')]))
HSpec == HInit /\ [][HNext]_<<vars, hist>>
\* a behaviour is complete after the final flush
Emit == (calls = MaxCalls /\ s.pc = "idle" /\ hist[Len(hist)].ev = "Flush") => PrintT(<<"BEH", ToJson(hist)>>)

=============================================================================
