SPECIFICATION Spec
CONSTANTS
  Chunks <- MCChunks
  Kinds <- MCKinds
  MaxCap = 12
  MaxCalls = 5
INVARIANTS TypeOK InBounds Exact NoPartial GrowOnlyWhenNeeded CopyFits NulInside
PROPERTIES Sticky FailLosesWholeChunk
