SPECIFICATION HSpec
CONSTANTS
  Chunks <- MCChunks
  Kinds <- MCKindsReplay
  MaxCap = 7
  MaxCalls = 4
INVARIANTS Emit InBounds Exact
