SPECIFICATION TSpec
CONSTANTS
  Chunks = {}
  Kinds = {}
  MaxCap = 100000
  MaxCalls = 100000
INVARIANTS InBounds Exact NoPartial
POSTCONDITION Accepted
