SPECIFICATION Spec
CONSTANTS
  Chunks <- MCChunks
  Kinds <- MCKinds
  MaxCap = 8
  MaxCalls = 4
INVARIANTS TypeOK InBounds Exact NoPartial GrowOnlyWhenNeeded CopyFits NulInside
PROPERTIES Sticky FailLosesWholeChunk
