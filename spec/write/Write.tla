------------------------------- MODULE Write -------------------------------
(***************************************************************************)
(* DiplomatWrite: a foreign-owned growable byte buffer written by Rust     *)
(* (runtime/src/write.rs, tool/templates/cpp/runtime.hpp.jinja).           *)
(*                                                                         *)
(* One action per critical section of `write_str`:                         *)
(*   WriteBegin  sticky-failure test and computation of `needed`           *)
(*   GrowOk/GrowFail   the foreign grow() callback                         *)
(*   Copy        the memcpy and the publication of `len`                   *)
(* plus Flush (macro emits it after every method taking a write) and the   *)
(* two accessors of the Rust-owned writer, which are functions of state.   *)
(*                                                                         *)
(* The writer state is ONE record `s` and every action is `s' = F(s,..)`   *)
(* so that trace specifications can compose steps the implementation does  *)
(* not expose separately (Rust-owned and fixed writers grow internally).   *)
(***************************************************************************)
EXTENDS Naturals, Sequences, FiniteSets
CONSTANTS Chunks,      \* set of byte sequences that may be written
          Kinds,       \* subset of {"caller","rust_owned","fixed","cpp_string"}
          MaxCap,      \* bound on capacities explored
          MaxCalls     \* bound on number of write_str calls
VARIABLES s,           \* the DiplomatWrite as seen by both sides
          accepted,    \* ghost: the text the buffer held at creation (std::string writer) followed by the chunks written
                       \*        before the first failed growth
          touchedMax,  \* ghost: highest (1-based) buffer index ever stored to
          calls        \* number of write_str calls started
vars == <<s, accepted, touchedMax, calls>>

Max(a, b) == IF a > b THEN a ELSE b
Fresh(n) == [i \in 1..n |-> "?"]          \* "?" = never written by Rust

\* ---- state transformers ---------------------------------------------------------------
New(k, c) == [kind |-> k, cap |-> c, size |-> IF k = "fixed" THEN c + 1 ELSE c,
              buf |-> Fresh(IF k = "fixed" THEN c + 1 ELSE c),
              len |-> 0, failed |-> FALSE, pc |-> "idle", pending |-> <<>>]
\* the C++ writer wraps a std::string: capacity AND length are the string's current length, the text in it stays (writes append)
PreText(c) == [i \in 1..c |-> 112]
NewStr(c) == [New("cpp_string", c) EXCEPT !.buf = PreText(c), !.len = c]
Needed(w) == w.len + Len(w.pending)
FBegin(w, c) == [w EXCEPT !.pending = c,
                          !.pc = IF w.failed THEN "idle"
                                 ELSE IF w.len + Len(c) > w.cap THEN "grow" ELSE "copy"]
FGrowOk(w, n) == [w EXCEPT !.cap = n, !.size = n,
                           !.buf = [i \in 1..n |-> IF i <= w.cap THEN w.buf[i] ELSE "?"],
                           !.pc = "copy"]
FGrowFail(w) == [w EXCEPT !.failed = TRUE, !.pc = "idle", !.pending = <<>>]
FCopy(w) == [w EXCEPT !.buf = [i \in 1..w.size |->
                                 IF i > w.len /\ i <= Needed(w) THEN w.pending[i - w.len] ELSE w.buf[i]],
                      !.len = Needed(w), !.pc = "idle", !.pending = <<>>]
FFlush(w) == IF w.kind = "fixed" THEN [w EXCEPT !.buf[w.len + 1] = 0] ELSE w

\* which growth outcomes a writer kind can produce
CanGrowTo(w, n) == /\ w.kind # "fixed"                    \* fixed: grow() always returns false
                   /\ n >= Needed(w)                     \* contract of grow()
                   /\ w.kind = "cpp_string" => n = Needed(w)   \* std::string::resize(requested)
CanFail(w) == w.kind \in {"caller", "fixed"}              \* Vec / std::string abort instead

\* ---- actions ---------------------------------------------------------------------------
\* capacity 0 is the common start: an empty std::string, and diplomat_buffer_write_create(0) from the JS/Dart/Kotlin runtimes
Init == /\ \E k \in Kinds, c \in 0..MaxCap : IF k = "cpp_string" THEN s = NewStr(c) /\ accepted = PreText(c)
                                                ELSE s = New(k, c) /\ accepted = <<>>
        /\ touchedMax = 0 /\ calls = 0

WriteBegin(c) ==
  /\ s.pc = "idle" /\ calls < MaxCalls
  /\ s' = FBegin(s, c) /\ calls' = calls + 1
  /\ UNCHANGED <<accepted, touchedMax>>

\* `write_char(ch)` is the same critical section entered with the UTF-8 encoding of one character (fmt::Write's provided
\* method forwards to write_str; an implementation that overrides it must behave identically)
IsOneChar(c) == \/ (Len(c) = 1 /\ c[1] < 128) \/ (Len(c) = 2 /\ c[1] \in 192..223)
                \/ (Len(c) = 3 /\ c[1] \in 224..239) \/ (Len(c) = 4 /\ c[1] \in 240..247)
WriteCharBegin(c) == IsOneChar(c) /\ WriteBegin(c)

GrowOk(n) ==
  /\ s.pc = "grow" /\ n <= MaxCap /\ CanGrowTo(s, n)
  /\ s' = FGrowOk(s, n)
  /\ UNCHANGED <<accepted, touchedMax, calls>>

GrowFail ==
  /\ s.pc = "grow" /\ CanFail(s)
  /\ s' = FGrowFail(s)
  /\ UNCHANGED <<accepted, touchedMax, calls>>

Copy ==
  /\ s.pc = "copy"
  /\ s' = FCopy(s)
  /\ accepted' = accepted \o s.pending
  /\ touchedMax' = IF s.pending = <<>> THEN touchedMax ELSE Max(touchedMax, Needed(s))
  /\ UNCHANGED calls

Flush ==
  /\ s.pc = "idle"
  /\ s' = FFlush(s)
  /\ touchedMax' = IF s.kind = "fixed" THEN Max(touchedMax, s.len + 1) ELSE touchedMax
  /\ UNCHANGED <<accepted, calls>>

Next == \/ \E c \in Chunks : WriteBegin(c) \/ WriteCharBegin(c)
        \/ \E n \in 1..MaxCap : GrowOk(n)
        \/ GrowFail \/ Copy \/ Flush
Spec == Init /\ [][Next]_vars

\* ---- what foreign code observes --------------------------------------------------------
Content(w)   == [i \in 1..w.len |-> w.buf[i]]
\* accessors of the Rust-owned writer (diplomat_buffer_write_get_bytes / _len)
BytesIsNull(w) == w.failed
LenOrZero(w)   == IF w.failed THEN 0 ELSE w.len

\* ---- properties (C12) ------------------------------------------------------------------
TypeOK    == /\ s.len \in 0..MaxCap /\ s.cap \in 0..MaxCap /\ s.failed \in BOOLEAN
             /\ s.pc \in {"idle", "grow", "copy"} /\ Len(s.buf) = s.size
InBounds  == /\ s.len <= s.cap
             /\ touchedMax <= s.size                       \* never a byte beyond the buffer
             /\ s.kind # "fixed" => touchedMax <= s.cap
             /\ s.kind = "fixed" => s.cap = s.size - 1     \* room for the NUL of Flush
Exact     == s.pc = "idle" => Content(s) = accepted        \* exactly the accepted chunks
NoPartial == s.pc = "idle" => Len(accepted) = s.len        \* never a partial chunk
GrowOnlyWhenNeeded == s.pc = "grow" => Needed(s) > s.cap
CopyFits  == s.pc = "copy" => Needed(s) <= s.cap
\* failure is sticky: once set, nothing observable changes any more
Sticky    == [][s.failed => (s'.failed /\ s'.len = s.len /\ s'.cap = s.cap /\ accepted' = accepted
                             /\ \A i \in 1..s.len : s'.buf[i] = s.buf[i])]_vars
\* a failed growth loses exactly the chunk that needed it (and everything after)
FailLosesWholeChunk == [][(~s.failed /\ s'.failed) => (accepted' = accepted /\ s'.len = s.len)]_vars
\* the NUL written by flushing a fixed writer lands inside the caller's array, right after the text
NulInside == (s.kind = "fixed" /\ s.pc = "idle") => s.len + 1 <= s.size
=============================================================================
