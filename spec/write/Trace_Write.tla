---------------------------- MODULE Trace_Write ----------------------------
(* Trace validation: NDJSON events recorded from the real diplomat-runtime   *)
(* (harness `dv c12-record`, and the C/C++ drivers of leg (d)) must be a     *)
(* behaviour of Write.  Many runs are concatenated; a New event resets.      *)
(*                                                                           *)
(* Grain of atomicity: for caller-supplied writers the foreign grow()        *)
(* callback is an observed event (it is logged from inside the callback, in  *)
(* program order).  For Rust-owned, fixed and std::string writers growth is  *)
(* internal, so WriteEnd composes  Grow . Copy  using the state transformers.*)
EXTENDS Write, Json, IOUtils, TLC
Rec == ndJsonDeserialize(IOEnv.TRACE)
VARIABLE l
tvars == <<vars, l>>
IsEvent(e) == l <= Len(Rec) /\ Rec[l].ev = e /\ l' = l + 1
ObsMatches(r, w) == /\ r.len = w.len /\ r.failed = w.failed
                    /\ r.content = Content(w)
                    /\ r.cap = w.cap
                    /\ r.mem_ok /\ ~r.panic
InternalGrow(k) == k \in {"rust_owned", "fixed", "cpp_string"}

TInit == /\ s = New("caller", 1) /\ accepted = <<>> /\ touchedMax = 0 /\ calls = 0 /\ l = 1

TNew == /\ IsEvent("New")
        /\ s' = IF Rec[l].kind = "cpp_string" THEN NewStr(Rec[l].cap) ELSE New(Rec[l].kind, Rec[l].cap)
        /\ ("len" \in DOMAIN Rec[l] => Rec[l].len = s'.len)     \* a writer over a std::string starts AFTER the text already there
        /\ accepted' = (IF Rec[l].kind = "cpp_string" THEN PreText(Rec[l].cap) ELSE <<>>) /\ touchedMax' = 0 /\ calls' = 0

TWriteBegin == IsEvent("WriteBegin") /\ WriteBegin(Rec[l].chunk)

TGrow == /\ IsEvent("Grow")
         /\ ~InternalGrow(s.kind)
         /\ s.pc = "grow" /\ Rec[l].req = Needed(s)          \* grow is asked for exactly `needed`
         /\ IF Rec[l].ok THEN GrowOk(Rec[l].newcap) ELSE GrowFail

TWriteEnd ==
  /\ IsEvent("WriteEnd")
  /\ ~Rec[l].err
  /\ IF s.pc = "copy" THEN Copy
     ELSE IF s.pc = "idle" THEN UNCHANGED vars                \* sticky failure or failed growth
     ELSE \* pc = "grow" and no Grow event was logged: only legal when growth is internal
          /\ InternalGrow(s.kind)
          /\ IF Rec[l].failed
               THEN CanFail(s) /\ s' = FGrowFail(s) /\ UNCHANGED <<accepted, touchedMax, calls>>
               ELSE /\ CanGrowTo(s, Rec[l].cap)
                    /\ s' = FCopy(FGrowOk(s, Rec[l].cap))
                    /\ accepted' = accepted \o s.pending
                    /\ touchedMax' = Max(touchedMax, Needed(s))
                    /\ UNCHANGED calls
  /\ ObsMatches(Rec[l], s')

TFlush == /\ IsEvent("Flush")
          /\ Flush
          /\ ObsMatches(Rec[l], s')
          /\ s.kind = "fixed" => Rec[l].nulbyte = 0          \* NUL right after the text

TAcc == /\ IsEvent("Acc")
        /\ Rec[l].null = BytesIsNull(s) /\ Rec[l].acclen = LenOrZero(s)
        /\ UNCHANGED vars

\* diplomat_buffer_write_destroy: every byte the runtime allocated for the writer (at creation and while growing) is released
TDestroy == /\ IsEvent("Destroy")
            /\ s.kind = "rust_owned" /\ s.pc = "idle"
            /\ Rec[l].leaked = 0
            /\ UNCHANGED vars

\* the generated C / C++ method returned its string to the caller: exactly what Rust wrote (last sentence of C12)
TReturned == /\ IsEvent("Returned")
             /\ s.pc = "idle" /\ ~s.failed
             /\ Rec[l].text = accepted
             /\ UNCHANGED vars

TNext == TNew \/ TWriteBegin \/ TGrow \/ TWriteEnd \/ TFlush \/ TAcc \/ TDestroy \/ TReturned
TSpec == TInit /\ [][TNext]_tvars

Accepted ==
  LET d == TLCGet("stats").diameter IN
  IF d - 1 = Len(Rec) THEN TRUE
  ELSE Print(<<"REJECTED", ToJson([index |-> d, event |-> Rec[d]])>>, FALSE)
=============================================================================
