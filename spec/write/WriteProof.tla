---------------------------- MODULE WriteProof ----------------------------
(* Unbounded proof (TLAPS) of the core of C12's InBounds: for ANY set of chunks, any capacities and any number of  *)
(* calls, the writer never publishes a length beyond its capacity, and a copy is only ever started when it fits. *)
EXTENDS Write, TLAPS

ASSUME ChunksAreSeqs == \A c \in Chunks : c \in Seq(Nat)
ASSUME MaxCapNat == MaxCap \in Nat

Fields == {"kind", "cap", "size", "buf", "len", "failed", "pc", "pending"}
TypeInv == /\ DOMAIN s = Fields
           /\ s = [x \in Fields |-> s[x]]
           /\ s.len \in Nat /\ s.cap \in Nat
           /\ s.pending \in Seq(Nat)
           /\ s.pc \in {"idle", "grow", "copy"}
           /\ s.kind \in Kinds
           /\ s.failed \in BOOLEAN
LenCapInv == /\ TypeInv
             /\ s.len <= s.cap
             /\ (s.pc = "copy" => s.len + Len(s.pending) <= s.cap)
             \* never a partial chunk: the published length is exactly the total length of the accepted chunks
             /\ accepted \in Seq(Nat) /\ Len(accepted) = s.len

LEMMA PreTextSeq == \A c \in Nat : PreText(c) \in Seq(Nat) /\ Len(PreText(c)) = c
  BY DEF PreText

LEMMA InitOK == Init => LenCapInv
<1> SUFFICES ASSUME Init PROVE LenCapInv
  OBVIOUS
<1>1. PICK k \in Kinds, c \in 0..MaxCap : IF k = "cpp_string" THEN s = NewStr(c) /\ accepted = PreText(c)
                                                               ELSE s = New(k, c) /\ accepted = <<>>
  BY DEF Init
<1>2. c \in Nat
  BY MaxCapNat
<1>3. CASE k = "cpp_string"
  <2>1. s = NewStr(c) /\ accepted = PreText(c)
    BY <1>1, <1>3
  <2>2. accepted \in Seq(Nat) /\ Len(accepted) = c
    BY <2>1, <1>2, PreTextSeq
  <2> QED
    BY <2>1, <2>2, <1>2, <1>3 DEF NewStr, New, Fresh, LenCapInv, TypeInv, Fields
<1>4. CASE k # "cpp_string"
  BY <1>1, <1>2, <1>4 DEF New, Fresh, LenCapInv, TypeInv, Fields
<1> QED
  BY <1>3, <1>4

LEMMA StepOK == LenCapInv /\ [Next]_vars => LenCapInv'
<1> SUFFICES ASSUME LenCapInv, [Next]_vars PROVE LenCapInv'
  OBVIOUS
<1> USE DEF LenCapInv, TypeInv, Fields
<1>1. ASSUME NEW c \in Chunks, WriteBegin(c) PROVE LenCapInv'
  BY <1>1, ChunksAreSeqs DEF WriteBegin, FBegin
<1>1b. ASSUME NEW c \in Chunks, WriteCharBegin(c) PROVE LenCapInv'
  BY <1>1b, ChunksAreSeqs DEF WriteCharBegin, WriteBegin, FBegin
<1>2. ASSUME NEW n \in 1..MaxCap, GrowOk(n) PROVE LenCapInv'
  BY <1>2, MaxCapNat DEF GrowOk, FGrowOk, CanGrowTo, Needed
<1>3. ASSUME GrowFail PROVE LenCapInv'
  BY <1>3 DEF GrowFail, FGrowFail
<1>4. ASSUME Copy PROVE LenCapInv'
  BY <1>4 DEF Copy, FCopy, Needed
<1>5. ASSUME Flush PROVE LenCapInv'
  BY <1>5 DEF Flush, FFlush
<1>6. ASSUME UNCHANGED vars PROVE LenCapInv'
  BY <1>6 DEF vars
<1> QED
  BY <1>1, <1>1b, <1>2, <1>3, <1>4, <1>5, <1>6 DEF Next

THEOREM Safety == Spec => []LenCapInv
  BY InitOK, StepOK, PTL DEF Spec
=============================================================================
