SPECIFICATION SpecN4
CONSTANTS
  Chunks <- MCChunksSmall
  Kinds <- MCKinds
  MaxCap = 5
  MaxCalls = 3
INVARIANTS InBounds Exact NoPartial
PROPERTIES Sticky
