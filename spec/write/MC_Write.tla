------------------------------ MODULE MC_Write ------------------------------
(* Bounded instance of Write: invariants (inv.cfg) and behaviour emission (beh.cfg). *)
EXTENDS Write, TLC, Json
\* "", "a", "bc", U+20AC (3 bytes), U+1F600 (4 bytes)
MCChunks == {<<>>, <<97>>, <<98, 99>>, <<226, 130, 172>>, <<240, 159, 152, 128>>}
MCChunksSmall == {<<>>, <<97>>, <<98, 99>>, <<226, 130, 172>>}
MCKinds == {"caller", "rust_owned", "fixed", "cpp_string"}
MCKindsReplay == {"caller", "fixed"}

\* ---- negative models (must be refuted) --------------------------------------------------
\* N1: copy although the growth failed (flag set but bytes still written)
BadGrowFail == /\ s.pc = "grow" /\ CanFail(s)
               /\ s' = [FCopy(s) EXCEPT !.failed = TRUE]
               /\ accepted' = accepted /\ touchedMax' = Max(touchedMax, Needed(s)) /\ UNCHANGED calls
NextN1 == (\E c \in Chunks : WriteBegin(c)) \/ (\E n \in 1..MaxCap : GrowOk(n)) \/ BadGrowFail \/ Copy \/ Flush
SpecN1 == Init /\ [][NextN1]_vars
\* N2: off-by-one growth test (>= for >) is harmless, but `needed > cap + 1` is not
BadBegin(c) == /\ s.pc = "idle" /\ calls < MaxCalls
               /\ s' = [FBegin(s, c) EXCEPT !.pc = IF s.failed THEN "idle" ELSE IF s.len + Len(c) > s.cap + 1 THEN "grow" ELSE "copy"]
               /\ calls' = calls + 1 /\ UNCHANGED <<accepted, touchedMax>>
NextN2 == (\E c \in Chunks : BadBegin(c)) \/ (\E n \in 1..MaxCap : GrowOk(n)) \/ GrowFail \/ Copy \/ Flush
SpecN2 == Init /\ [][NextN2]_vars
\* N3: fixed writer keeps no byte for the terminator (cap = size)
InitN3 == /\ \E c \in 1..MaxCap : s = [New("fixed", c) EXCEPT !.size = c, !.buf = Fresh(c)]
          /\ accepted = <<>> /\ touchedMax = 0 /\ calls = 0
SpecN3 == InitN3 /\ [][Next]_vars
\* N4: failure not sticky: a later small chunk is written after a failed growth
BadBegin4(c) == /\ s.pc = "idle" /\ calls < MaxCalls
                /\ s' = [FBegin(s, c) EXCEPT !.pc = IF s.len + Len(c) > s.cap THEN "grow" ELSE "copy"]
                /\ calls' = calls + 1 /\ UNCHANGED <<accepted, touchedMax>>
NextN4 == (\E c \in Chunks : BadBegin4(c)) \/ (\E n \in 1..MaxCap : GrowOk(n)) \/ GrowFail \/ Copy \/ Flush
SpecN4 == Init /\ [][NextN4]_vars
=============================================================================
