SPECIFICATION HSpec
CONSTANTS
  Chunks <- MCChunksSmall
  Kinds <- MCKindsReplay
  MaxCap = 5
  MaxCalls = 3
INVARIANTS Emit InBounds Exact
