------------------------------- MODULE MC_Gate -------------------------------
EXTENDS Gate, Json
CONSTANT Depth          \* 1, 2 or 3
T0 == Leaf
Wrap1(S) == {Ref(t) : t \in S} \cup {MutRef(t) : t \in S} \cup {Box(t) : t \in S}
            \cup {Opt(s, t) : s \in {"std", "dipl"}, t \in S}
T1 == T0 \cup Wrap1(T0)
ResArm == T0 \cup {Ref(L("opaque")), Box(L("opaque")), Opt("std", Ref(L("opaque"))), Opt("std", L("prim")),
                   Opt("dipl", L("struct")), Box(L("struct")), Ref(L("struct")), Opt("std", L("str_std"))}
R0 == Res(L("prim"), L("unit"))
R1 == Res(L("prim"), L("enum"))
NestedRes == {Res(R1, L("unit")), Res(L("prim"), R1), Opt("std", R0), Opt("dipl", R0), Box(R0), Ref(R0), Res(R0, L("unit")), Res(L("unit"), R0)}
T2 == T1 \cup Wrap1(T1 \ T0) \cup {Res(a, b) : a \in ResArm, b \in ResArm} \cup NestedRes
\* depth 3: one more wrapper around every depth-2 type that is not a Result (Option<Option<&T>>, &Box<Option<T>>, ...)
T3 == T2 \cup Wrap1(Wrap1(T1 \ T0))
Ty == IF Depth = 1 THEN T1 \cup {Res(a, b) : a \in {L("unit"), L("prim"), L("zst"), L("struct"), Box(L("opaque")), Ref(L("opaque"))},
                                           b \in {L("unit"), L("enum"), L("opaque"), Ref(L("opaque")), Opt("std", Ref(L("opaque"))), L("str_std")}} ELSE IF Depth = 2 THEN T2 ELSE T3

HasKind(t, K) == Mentions(t, K)
SelfTypes == {Ref(L("opaque")), MutRef(L("opaque")), L("opaque"), L("struct"), Ref(L("struct")), MutRef(L("struct")), L("outstruct"), L("enum"),
              Ref(L("enum")), MutRef(L("enum"))}
\* the renderer can only produce Rust that rustc would parse/accept syntactically in that position
InGrammar(p, t) ==
  /\ p = "self" => t \in SelfTypes
  /\ p # "self" => TRUE
  /\ (HasKind(t, {"cb", "cb_ref", "trait"}) => p \in {"param", "lastparam", "ret"})
  /\ (HasKind(t, {"strs"}) => p \notin {"field", "outfield"})        \* `&[DiplomatStrSlice]` has an elided lifetime: rustc refuses it in a field
  /\ (Elided(p) => HasKind(t, Borrowing))          \* otherwise identical to "ret"   \* impl Trait: argument/return position only
  /\ (HasKind(t, {"write"}) => p \in {"param", "lastparam", "ret", "ret_elided", "ret_w", "ret_w_elided", "field", "outfield"})

VARIABLES stage, pos, ty, urefs
vars == <<stage, pos, ty, urefs>>
Init == stage = "choose" /\ pos = "param" /\ ty = L("prim") /\ urefs = FALSE
Choose == /\ stage = "choose"
          /\ \E p \in Pos, t \in Ty, u \in BOOLEAN :
               /\ InGrammar(p, t)
               /\ (u => (p = "cbparam" \/ HasKind(t, {"cb_ref"})))      \* the switch only matters there
               /\ pos' = p /\ ty' = t /\ urefs' = u
          /\ stage' = "done"
Spec == Init /\ [][Choose]_vars

Done == stage = "done"
Op == LowerCfg(pos, ty, urefs, TRUE)
\* the two formulations agree on the verdict ...
Agree == Done => (Op.ok <=> WellFormed(pos, ty, urefs, TRUE))
\* ... and on the demanded features whenever the shape is accepted
AgreeFeatures == (Done /\ Op.ok) => Op.need = Features(pos, ty)
\* a rejected shape violates at least one named rule (so every rejection is explained)
Explained == (Done /\ ~Op.ok) => Violated(pos, ty, urefs, TRUE) # {}
Emit == Done => PrintT(<<"CASE", ToJson([pos |-> pos, ty |-> ty, urefs |-> urefs, accept |-> Op.ok,
                                          need |-> Op.need, rules |-> Violated(pos, ty, urefs, TRUE)])>>)
\* negative models: a rule set that forgets one clause must disagree with the walk
D_BoxBad(p, o) == TRUE
D_ResultBad(p, o) == o.t.k = "res" => p = "ret"
=============================================================================
