SPECIFICATION Spec
CONSTANTS
  Depth = 1
  D_OutStruct <- D_BoxBad
INVARIANTS Agree
