SPECIFICATION Spec
CONSTANTS
  Depth = 2
  D_Result <- D_ResultBad
INVARIANTS Agree
