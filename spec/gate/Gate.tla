-------------------------------- MODULE Gate --------------------------------
(***************************************************************************)
(* The lowering gate (core/src/hir/lowering.rs, type_context.rs validate): *)
(* which API shapes does diplomat-tool accept?                             *)
(*                                                                         *)
(* Two formulations over the same type grammar:                            *)
(*   - DECLARATIVE: the documented rules (book/src/types.md, option.md,    *)
(*     result.md, structs.md, opaque.md, writeable.md, callbacks.md and    *)
(*     the statement of property C05), each a predicate over every         *)
(*     occurrence of a subterm together with its context;                  *)
(*   - OPERATIONAL: a recursive walk shaped like lower_type /              *)
(*     lower_out_type / lower_return_type / lower_self_param.              *)
(* TLC checks that they agree on every (position, type) in scope, and the  *)
(* builder machine emits each case with the verdict and the set of backend *)
(* features the shape requires; the harness replays them through the real  *)
(* lowering for every backend profile.                                     *)
(***************************************************************************)
EXTENDS Naturals, Sequences, FiniteSets, TLC

LeafKinds == {"prim", "enum", "struct", "zst", "outstruct", "opaque", "unit", "write", "ordering",
              "str_std", "str_dipl", "str_own", "str_static",
              "slice_std", "slice_dipl", "slice_mut", "slice_own", "slice_static",
              "strs", "cb", "cb_ref", "trait"}
Leaf == {[k |-> x] : x \in LeafKinds}
L(x) == [k |-> x]
Ref(t) == [k |-> "ref", t |-> t]
MutRef(t) == [k |-> "mutref", t |-> t]
Box(t) == [k |-> "box", t |-> t]
Opt(s, t) == [k |-> "opt", s |-> s, t |-> t]
Res(a, b) == [k |-> "res", ok |-> a, err |-> b]

Pos == {"param", "lastparam", "ret", "ret_elided", "ret_w", "ret_w_elided", "field", "outfield", "cbparam", "cbret", "self"}
\* "ret_elided": a return type whose borrowed parts use elided (anonymous) lifetimes
\* "ret_w", "ret_w_elided": the same two, in a method that also takes a trailing `&mut DiplomatWrite`
\*   (lower_return_type: the write replaces the unit success value, every other rule is unchanged)
IsRet(p) == p \in {"ret", "ret_elided", "ret_w", "ret_w_elided"}
Elided(p) == p \in {"ret_elided", "ret_w_elided"}
\* direction of data flow: "in" = foreign -> Rust, "out" = Rust -> foreign
Dir(p) == IF IsRet(p) \/ p \in {"outfield", "cbparam"} THEN "out" ELSE "in"
InStruct(p) == p \in {"field", "outfield"}

Named(t) == t.k \in {"struct", "zst", "outstruct", "opaque", "enum"}
Data(t) == t.k \in {"prim", "enum", "struct", "zst", "outstruct"}   \* "structs, enums, primitives"
IsRef(t) == t.k \in {"ref", "mutref"}
PtrOpaque(t) == IsRef(t) /\ t.t.k = "opaque"
BoxOpaque(t) == t.k = "box" /\ t.t.k = "opaque"
StrLike(t) == t.k \in {"str_std", "str_dipl", "str_own", "str_static"}
SliceLike(t) == t.k \in {"slice_std", "slice_dipl", "slice_mut", "slice_own", "slice_static"}
Owned(t) == t.k \in {"str_own", "slice_own"}
Static(t) == t.k \in {"str_static", "slice_static"}
StdSpelled(t) == t.k \in {"str_std", "str_own", "str_static", "slice_std", "slice_mut", "slice_own", "slice_static", "strs"}
Callbackish(t) == t.k \in {"cb", "cb_ref", "trait"}

RECURSIVE Mentions(_, _)
Mentions(t, K) == t.k \in K \/ CASE t.k \in {"ref", "mutref", "box", "opt"} -> Mentions(t.t, K)
                                 [] t.k = "res" -> Mentions(t.ok, K) \/ Mentions(t.err, K)
                                 [] OTHER -> FALSE
\* callback signatures are parsed before lowering: only anonymous lifetimes may appear in them
\* (book/src/callbacks.md), so a named lifetime -- in this grammar: 'static -- is refused outright
CbLifetimeOK(t) == ~Mentions(t, {"str_static", "slice_static"})

\* kinds that carry a (non-static) lifetime of their own
Borrowing == {"ref", "mutref", "str_std", "str_dipl", "slice_std", "slice_dipl", "slice_mut"}

\* ======================= OPERATIONAL ====================================================
\* result of lowering one type: accepted?, and which backend features were demanded on the way
OKn(n) == [ok |-> TRUE, need |-> n]
OK == OKn({})
NO == [ok |-> FALSE, need |-> {}]
NOn(n) == [ok |-> FALSE, need |-> n]
Both(a, b) == [ok |-> a.ok /\ b.ok, need |-> a.need \cup b.need]
WithNeed(r, n) == [ok |-> r.ok, need |-> r.need \cup n]

RECURSIVE LIn(_, _)
\* lower_type: parameters, struct fields, callback results.  top: directly the parameter's type
LIn(t, top) ==
  CASE t.k \in {"prim", "enum", "struct"} -> OK
    [] t.k \in {"zst", "outstruct", "opaque", "ordering", "unit", "write", "res", "box"} -> NO
    [] t.k \in {"str_std", "str_dipl", "str_own", "slice_std", "slice_dipl", "slice_mut", "slice_own", "strs"} -> OK
    [] t.k \in {"str_static", "slice_static"} -> OKn({"static_slices"})
    [] t.k \in {"cb", "cb_ref"} -> OKn({"callbacks"})
    [] t.k = "trait" -> OKn({"traits"})
    [] t.k \in {"ref", "mutref"} -> IF t.t.k = "opaque" THEN OK ELSE NO
    [] t.k = "opt" ->
         IF IsRef(t.t) THEN (IF t.t.t.k = "opaque" /\ t.s = "std" THEN OK ELSE NO)
         ELSE IF t.t.k = "opaque" THEN NO
         ELSE IF t.t.k \in {"struct", "zst", "outstruct", "enum"} THEN WithNeed(LIn(t.t, FALSE), {"option"})
         ELSE IF t.t.k = "prim" THEN OKn({"option"})
         ELSE IF t.t.k = "strs" THEN OK
         ELSE IF StrLike(t.t) \/ SliceLike(t.t) THEN LIn(t.t, FALSE)
         ELSE NO

RECURSIVE LOut(_, _, _)
\* lower_out_type(ty, in_struct, in_result_option)
LOut(t, ins, iro) ==
  CASE t.k \in {"prim", "enum", "struct", "outstruct"} -> OK
    [] t.k = "ordering" -> IF ins THEN NO ELSE OK
    [] t.k = "zst" -> IF iro THEN OK ELSE NO
    [] t.k \in {"opaque", "unit", "write", "res", "strs", "str_own", "slice_own", "cb", "cb_ref", "trait"} -> NO
    [] t.k \in {"str_std", "str_dipl", "str_static", "slice_std", "slice_dipl", "slice_mut", "slice_static"} -> OK
    [] t.k \in {"ref", "mutref"} -> IF t.t.k = "opaque" THEN OK ELSE NO
    [] t.k = "box" -> IF t.t.k = "opaque" THEN OK ELSE NO
    [] t.k = "opt" ->
         IF IsRef(t.t) \/ t.t.k = "box" THEN (IF t.t.t.k = "opaque" /\ t.s = "std" THEN OK ELSE NO)
         ELSE IF t.t.k = "opaque" THEN NO
         ELSE IF t.t.k \in {"struct", "zst", "outstruct", "enum"} THEN
                IF ins /\ t.s = "std" THEN NO ELSE WithNeed(LOut(t.t, ins, TRUE), {"option"})
         ELSE IF t.t.k = "prim" THEN (IF ins /\ t.s = "std" THEN NO ELSE OKn({"option"}))
         ELSE NO

\* lower_return_type
LRet(t) ==
  CASE t.k = "res" -> Both(IF t.ok.k = "unit" THEN OK ELSE LOut(t.ok, FALSE, TRUE),
                            IF t.err.k = "unit" THEN OK ELSE LOut(t.err, FALSE, TRUE))
    [] t.k = "opt" -> IF IsRef(t.t) \/ t.t.k = "box" THEN LOut(t, FALSE, TRUE)
                      ELSE IF t.t.k = "unit" THEN OK
                      ELSE LOut(t.t, FALSE, TRUE)
    [] t.k = "unit" -> OK
    [] OTHER -> LOut(t, FALSE, FALSE)

\* does a lowered out-type mention a non-static lifetime, other than through a slice?
HasBorrowNonSlice(t) == PtrOpaque(t) \/ (t.k = "opt" /\ PtrOpaque(t.t))
\* lower_callback_param
LCbParam(t, unsafeRefs) ==
  LET r == LOut(t, FALSE, FALSE) IN
  IF r.ok /\ HasBorrowNonSlice(t) /\ ~unsafeRefs THEN NOn(r.need) ELSE r

\* is_ffi_safe (struct fields)
FfiSafe(t) ==
  CASE t.k = "opt" -> IF IsRef(t.t) \/ t.t.k = "box" THEN t.s = "std" ELSE t.s = "dipl"
    [] StdSpelled(t) \/ t.k \in {"unit", "write", "res", "ordering"} -> FALSE
    [] OTHER -> TRUE

\* lower_self_param
LSelf(t) == CASE t.k \in {"struct", "enum"} -> OK
              [] IsRef(t) /\ t.t.k = "opaque" -> OK
              [] OTHER -> NO

\* the whole gate for one (position, type), under a lowering configuration
Lower(p, t, unsafeRefs, checkOutFields) ==
  CASE p = "param" -> LIn(t, TRUE)
    [] p = "lastparam" -> IF t.k = "mutref" /\ t.t.k = "write" THEN OK ELSE LIn(t, TRUE)
    [] p \in {"ret", "ret_w"} -> LRet(t)
    [] Elided(p) -> IF Mentions(t, Borrowing) THEN [ok |-> FALSE, need |-> LRet(t).need] ELSE LRet(t)
    [] p = "field" -> Both(LIn(t, TRUE), IF FfiSafe(t) THEN OK ELSE NO)
    [] p = "outfield" -> Both(LOut(t, TRUE, FALSE), IF checkOutFields /\ ~FfiSafe(t) THEN NO ELSE OK)
    [] p = "cbparam" -> IF ~CbLifetimeOK(t) THEN NO ELSE WithNeed(LCbParam(t, unsafeRefs), {"callbacks"})
    [] p = "cbret" -> WithNeed(IF t.k = "unit" THEN OK ELSE LIn(t, FALSE), {"callbacks"})
    [] p = "self" -> LSelf(t)
\* cb_ref parameters (a callback taking &Opaque) additionally need the unsafe-references switch
LowerCfg(p, t, unsafeRefs, checkOutFields) ==
  LET r == Lower(p, t, unsafeRefs, checkOutFields) IN
  IF r.ok /\ t.k = "cb_ref" /\ ~unsafeRefs THEN NOn(r.need) ELSE r

\* ======================= DECLARATIVE ====================================================
\* occurrences of subterms with their context
\*   par: kind of the parent node ("top" if none), gpar: kind of the grandparent
\*   ps: spelling of the parent if it is an option
\*   iro: directly inside a Result arm or an Option of a return value / an Option payload
Occ(t, par, gpar, ps, iro) == [t |-> t, par |-> par, gpar |-> gpar, ps |-> ps, iro |-> iro]
RECURSIVE Occs(_, _, _, _, _, _)
Occs(p, t, par, gpar, ps, iro) ==
  {Occ(t, par, gpar, ps, iro)} \cup
  CASE t.k \in {"ref", "mutref", "box"} -> Occs(p, t.t, t.k, par, "-", FALSE)
    [] t.k = "opt" -> Occs(p, t.t, "opt", par, t.s, TRUE)
    [] t.k = "res" -> Occs(p, t.ok, "res", par, "-", TRUE) \cup Occs(p, t.err, "res", par, "-", TRUE)
    [] OTHER -> {}
AllOccs(p, t) == Occs(p, t, "top", "none", "-", FALSE)
Top(o) == o.par = "top"
\* the payload of a top-level Option/Result return is "top of a return arm"
RetArm(p, o) == IsRet(p) /\ (o.par = "res" \/ o.par = "opt") /\ o.gpar = "top"

\* D1 opaques only behind references, or (in outputs) Box
D_Opaque(p, o) == o.t.k = "opaque" =>
     \/ o.par \in {"ref", "mutref"}
     \/ (o.par = "box" /\ Dir(p) = "out")
\* D2 Box only of opaques and only in outputs (no owned opaques in inputs)
D_Box(p, o) == o.t.k = "box" => (o.t.t.k = "opaque" /\ Dir(p) = "out")
\* D3 references only to opaques (or the trailing &mut DiplomatWrite); nothing may wrap a reference but Option
D_Ref(p, o) == IsRef(o.t) =>
     /\ \/ o.t.t.k = "opaque"
        \/ (o.t.k = "mutref" /\ o.t.t.k = "write" /\ p = "lastparam" /\ Top(o))
     /\ o.par \in {"top", "opt", "res"}
\* D4 out-structs never in inputs
D_OutStruct(p, o) == o.t.k = "outstruct" => Dir(p) = "out"
\* D5 Result only as the top-level return type
D_Result(p, o) == o.t.k = "res" => (IsRet(p) /\ Top(o))
\* D6 Option payloads
D_Option(p, o) == o.t.k = "opt" =>
  LET c == o.t.t IN
     /\ o.par \in {"top", "res"} \/ (o.par = "opt" /\ IsRet(p) /\ o.gpar = "top")   \* options do not nest, except Option<Option<T>> returns
     /\ o.par = "res" => ~(StrLike(c) \/ SliceLike(c) \/ c.k = "strs")
     /\ \/ PtrOpaque(c) /\ o.t.s = "std"                                     \* Option<&T> is the nullable pointer
        \/ BoxOpaque(c) /\ o.t.s = "std" /\ Dir(p) = "out"
        \/ Data(c) /\ ~(InStruct(p) /\ o.t.s = "std" /\ p = "outfield")     \* std Option of non-pointers never in struct fields (fields: via FFI-safety)
        \/ (StrLike(c) \/ SliceLike(c) \/ c.k = "strs") /\ (Dir(p) = "in" \/ (IsRet(p) /\ Top(o)))
        \/ c.k = "unit" /\ IsRet(p) /\ Top(o)
        \/ c.k = "opt" /\ IsRet(p) /\ Top(o)
        \/ c.k = "ordering" /\ IsRet(p) /\ Top(o)
\* D7 DiplomatWrite only as `&mut DiplomatWrite` in last position
D_Write(p, o) == o.t.k = "write" => (o.par = "mutref" /\ p = "lastparam" /\ o.gpar = "top")
\* D8 unit only as return value, Result arm, or Option<()> return
D_Unit(p, o) == o.t.k = "unit" => \/ ((IsRet(p) \/ p = "cbret") /\ Top(o))
                                  \/ RetArm(p, o)
\* D9 zero-sized structs: never an argument or field; in returns only inside Result/Option
D_Zst(p, o) == o.t.k = "zst" => (Dir(p) = "out" /\ o.iro)
\* D10 cmp::Ordering only in return types, never in struct fields
D_Ordering(p, o) == o.t.k = "ordering" => (Dir(p) = "out" /\ ~InStruct(p) /\ o.par \in {"top", "res", "opt"}
                                            /\ (o.par = "opt" => RetArm(p, o)))
\* D11 owned slices and slices-of-strings are input-only
D_InputOnlySlices(p, o) == (Owned(o.t) \/ o.t.k = "strs") => Dir(p) = "in"
\* D12 callbacks and trait objects: only directly as parameters
D_Callback(p, o) == Callbackish(o.t) => (p \in {"param", "lastparam"} /\ Top(o))
\* D13 struct fields are FFI-safe: runtime slice types, DiplomatOption for non-pointers, Option for pointers
D_FfiSafe(p, o, checkOutFields) ==
  ((p = "field" \/ (p = "outfield" /\ checkOutFields)) /\ Top(o)) =>
     /\ ~StdSpelled(o.t)
     /\ o.t.k = "opt" => (IF IsRef(o.t.t) \/ o.t.t.k = "box" THEN o.t.s = "std" ELSE o.t.s = "dipl")
\* D14 callback parameters may not be references that could be persisted (unless explicitly allowed)
D_CbRefs(p, o, unsafeRefs) ==
  /\ (p = "cbparam" /\ PtrOpaque(o.t)) => unsafeRefs
  /\ o.t.k = "cb_ref" => unsafeRefs
\* D16 only anonymous lifetimes on callback parameters
D_CbLifetimes(p, o) == (p = "cbparam" /\ Static(o.t)) => FALSE
\* D17 no elided lifetimes in return types (validation after lowering)
D_Elision(p, o) == (Elided(p) /\ o.t.k \in Borrowing) => FALSE
\* D15 self: opaques by reference, structs and enums by value
D_Self(p, o) == (p = "self" /\ Top(o)) => (o.t.k \in {"struct", "enum"} \/ PtrOpaque(o.t))

WellFormed(p, t, unsafeRefs, checkOutFields) ==
  \A o \in AllOccs(p, t) :
     /\ D_Opaque(p, o) /\ D_Box(p, o) /\ D_Ref(p, o) /\ D_OutStruct(p, o) /\ D_Result(p, o) /\ D_Option(p, o)
     /\ D_Write(p, o) /\ D_Unit(p, o) /\ D_Zst(p, o) /\ D_Ordering(p, o) /\ D_InputOnlySlices(p, o)
     /\ D_Callback(p, o) /\ D_FfiSafe(p, o, checkOutFields) /\ D_CbRefs(p, o, unsafeRefs) /\ D_Self(p, o) /\ D_CbLifetimes(p, o) /\ D_Elision(p, o)

\* names of the rules an occurrence set violates (reported with every rejected case)
Violated(p, t, unsafeRefs, checkOutFields) ==
  LET O == AllOccs(p, t) IN
  {r \in {"opaque", "box", "ref", "outstruct", "result", "option", "write", "unit", "zst", "ordering",
          "input_only_slices", "callback", "ffi_safe", "cb_refs", "self", "cb_lifetimes", "elision"} :
     \E o \in O :
       CASE r = "opaque" -> ~D_Opaque(p, o) [] r = "box" -> ~D_Box(p, o) [] r = "ref" -> ~D_Ref(p, o)
         [] r = "outstruct" -> ~D_OutStruct(p, o) [] r = "result" -> ~D_Result(p, o) [] r = "option" -> ~D_Option(p, o)
         [] r = "write" -> ~D_Write(p, o) [] r = "unit" -> ~D_Unit(p, o) [] r = "zst" -> ~D_Zst(p, o)
         [] r = "ordering" -> ~D_Ordering(p, o) [] r = "input_only_slices" -> ~D_InputOnlySlices(p, o)
         [] r = "callback" -> ~D_Callback(p, o) [] r = "ffi_safe" -> ~D_FfiSafe(p, o, checkOutFields)
         [] r = "cb_refs" -> ~D_CbRefs(p, o, unsafeRefs) [] r = "self" -> ~D_Self(p, o)
         [] r = "cb_lifetimes" -> ~D_CbLifetimes(p, o) [] r = "elision" -> ~D_Elision(p, o)}

\* features a well-formed shape requires from the backend
Features(p, t) ==
  LET O == AllOccs(p, t) IN
  UNION {
    (IF o.t.k = "opt" /\ Data(o.t.t) /\ ~(IsRet(p) /\ Top(o)) THEN {"option"} ELSE {}) \cup
    (IF Static(o.t) /\ Dir(p) = "in" THEN {"static_slices"} ELSE {}) \cup
    (IF o.t.k \in {"cb", "cb_ref"} THEN {"callbacks"} ELSE {}) \cup
    (IF o.t.k = "trait" THEN {"traits"} ELSE {}) : o \in O }
  \cup (IF p \in {"cbparam", "cbret"} THEN {"callbacks"} ELSE {})
=============================================================================
