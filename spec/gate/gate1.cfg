SPECIFICATION Spec
CONSTANT Depth = 1
INVARIANTS Agree AgreeFeatures Explained
