SPECIFICATION Spec
CONSTANT Depth = 3
INVARIANTS Agree AgreeFeatures Explained Emit
