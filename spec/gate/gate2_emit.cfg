SPECIFICATION Spec
CONSTANT Depth = 2
INVARIANTS Agree AgreeFeatures Explained Emit
