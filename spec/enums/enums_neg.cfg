SPECIFICATION Spec
CONSTANTS
  Values <- MCValuesSmall
  MaxVariants = 3
INVARIANTS PositionIffBad
