---- MODULE MC_Enums ----
EXTENDS Enums, Json
MCValues == {-2147483647, -3, -1, 0, 1, 2, 5, 2147483645}
MCValuesSmall == {-3, 0, 1, 2, 5}
Emit == Done => PrintT(<<"CASE", ToJson([lits |-> lits, discs |-> Discs(lits), contiguous |-> Contiguous(lits)])>>)
\* negative model: "contiguous" tested as "sorted and gap-free from the first value" (forgets the start at 0)
ContigBad(ls) == \A i \in 2..Len(ls) : Disc(ls, i) = Disc(ls, i - 1) + 1
PositionIffBad == Done =>
   ((\A i \in 1..Len(lits) : PosToNative(lits, i) = Disc(lits, i)) <=> ContigBad(lits))
====
