SPECIFICATION Spec
CONSTANTS
  Values <- MCValues
  MaxVariants = 8
INVARIANTS TableCorrect PositionIffContiguous Emit
