SPECIFICATION Spec
CONSTANTS
  Values <- MCValues
  MaxVariants = 3
INVARIANTS TableCorrect PositionIffContiguous FirstIsZero Successor Emit
