-------------------------------- MODULE Enums --------------------------------
(***************************************************************************)
(* C-like enums (core/src/ast/enums.rs; per-backend enum templates).        *)
(* Disc is rustc's numbering rule: an explicit literal, otherwise the      *)
(* previous discriminant + 1, the first one 0.  Backends represent an enum *)
(* either by a TABLE (name -> number, searched in both directions) or, as   *)
(* a fast path, by POSITION (index / ordinal / array slot).  The position   *)
(* scheme is only correct for enums numbered 0..n-1 in order; TLC checks    *)
(* that this condition is exactly the one under which it is sound.          *)
(***************************************************************************)
EXTENDS Integers, Sequences, FiniteSets, TLC
CONSTANTS Values,      \* explicit discriminant literals that may be written
          MaxVariants
NoLit == [has |-> FALSE, v |-> 0]
Lit(n) == [has |-> TRUE, v |-> n]
VARIABLES lits, stage     \* lits[i]: Lit(n) for an explicit literal n of variant i, or NoLit
vars == <<lits, stage>>

RECURSIVE Disc(_, _)
Disc(ls, i) == IF ls[i].has THEN ls[i].v ELSE IF i = 1 THEN 0 ELSE Disc(ls, i - 1) + 1
Discs(ls) == [i \in 1..Len(ls) |-> Disc(ls, i)]
\* rustc refuses duplicate discriminants and overflow of the (i32-sized here) representation
Valid(ls) == /\ \A i, j \in 1..Len(ls) : i # j => Disc(ls, i) # Disc(ls, j)
             /\ \A i \in 1..Len(ls) : Disc(ls, i) <= 2147483647 /\ Disc(ls, i) >= -2147483647 - 1

\* ---- representation schemes -----------------------------------------------------------------
\* TABLE: the binding stores Disc and searches it
TableToNative(ls, i) == Disc(ls, i)
TableFromNative(ls, n) == CHOOSE i \in 1..Len(ls) : Disc(ls, i) = n
\* POSITION: variant i is sent as i-1 and a received number n selects variant n+1
PosToNative(ls, i) == i - 1
PosFromNative(ls, n) == n + 1
Contiguous(ls) == \A i \in 1..Len(ls) : Disc(ls, i) = i - 1

Init == lits = <<>> /\ stage = "build"
AddVariant == /\ stage = "build" /\ Len(lits) < MaxVariants
              /\ \E l \in {Lit(n) : n \in Values} \cup {NoLit} : lits' = Append(lits, l)
              /\ \A i \in 1..Len(lits') : Disc(lits', i) <= 2147483646          \* keep TLC's own integers from overflowing
              /\ UNCHANGED stage
Finish == stage = "build" /\ Len(lits) >= 1 /\ Valid(lits) /\ stage' = "done" /\ UNCHANGED lits
Next == AddVariant \/ Finish
Spec == Init /\ [][Next]_vars
Done == stage = "done"

\* ---- properties (C11) -------------------------------------------------------------------------
\* the table scheme always round-trips and sends rustc's number
TableCorrect == Done => \A i \in 1..Len(lits) : TableFromNative(lits, TableToNative(lits, i)) = i
\* the position scheme is correct exactly for enums numbered 0..n-1 in order
PositionIffContiguous == Done =>
   ((\A i \in 1..Len(lits) : PosToNative(lits, i) = Disc(lits, i) /\ PosFromNative(lits, Disc(lits, i)) = i) <=> Contiguous(lits))
\* first variant without a literal is 0, implicit ones continue from the previous
FirstIsZero == Done => (~lits[1].has => Disc(lits, 1) = 0)
Successor == Done => \A i \in 2..Len(lits) : ~lits[i].has => Disc(lits, i) = Disc(lits, i - 1) + 1
=============================================================================
