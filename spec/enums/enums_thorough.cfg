SPECIFICATION Spec
CONSTANTS
  Values <- MCValuesSmall
  MaxVariants = 5
INVARIANTS TableCorrect PositionIffContiguous FirstIsZero Successor Emit
