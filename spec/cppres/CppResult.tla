----------------------------- MODULE CppResult -----------------------------
(***************************************************************************)
(* EXTENSION SPEC (outside the 17 listed properties): the value semantics  *)
(* of diplomat::result<T, E> in the generated C++ runtime header           *)
(* (tool/templates/cpp/runtime.hpp.jinja): construction from Ok / Err,     *)
(* default construction, copy, move, is_ok / is_err, the rvalue accessors  *)
(* ok() && / err() &&, set_ok / set_err and replace_ok.                    *)
(*                                                                         *)
(* A result is in exactly one arm; an accessor for the other arm yields    *)
(* nothing; taking the payload out (or moving the whole result) leaves the *)
(* arm as it was with a moved-from payload; copies are independent;        *)
(* replace_ok keeps an error and otherwise installs the new success value. *)
(* Payloads are instrumented values: every constructed payload object is   *)
(* destroyed exactly once (no leak, no double destruction), checked by a   *)
(* live-object counter at the end of every behaviour.                      *)
(***************************************************************************)
EXTENDS Naturals, Sequences, FiniteSets
CONSTANTS Slots, Vals, MaxSteps
Moved == 0                                   \* the value a moved-from payload shows
Arm(a, v) == [arm |-> a, v |-> v]
VARIABLES r, steps, last
vars == <<r, steps, last>>
\* result() = default: the variant default-constructs its first alternative, Ok<T>{} -- a default result IS ok, with a default payload (9)
Dflt == 9
Init == r = [s \in Slots |-> Arm("ok", Dflt)] /\ steps = 0 /\ last = [op |-> "Init"]
Tick == steps < MaxSteps /\ steps' = steps + 1
Obs(s) == [ok |-> r[s].arm = "ok", err |-> r[s].arm = "err", v |-> r[s].v]
MakeOk(s, v) == Tick /\ r' = [r EXCEPT ![s] = Arm("ok", v)] /\ last' = [op |-> "MakeOk", s |-> s, v |-> v]
MakeErr(s, v) == Tick /\ r' = [r EXCEPT ![s] = Arm("err", v)] /\ last' = [op |-> "MakeErr", s |-> s, v |-> v]
SetOk(s, v) == Tick /\ r' = [r EXCEPT ![s] = Arm("ok", v)] /\ last' = [op |-> "SetOk", s |-> s, v |-> v]
SetErr(s, v) == Tick /\ r' = [r EXCEPT ![s] = Arm("err", v)] /\ last' = [op |-> "SetErr", s |-> s, v |-> v]
Copy(s, t) == Tick /\ s # t /\ r' = [r EXCEPT ![t] = r[s]] /\ last' = [op |-> "Copy", s |-> s, t |-> t]
\* move construction/assignment: the target takes the state, the source keeps its arm with a moved-from payload
Move(s, t) == Tick /\ s # t /\ r' = [r EXCEPT ![t] = r[s], ![s] = Arm(r[s].arm, Moved)] /\ last' = [op |-> "Move", s |-> s, t |-> t]
\* std::move(x).ok(): the payload if x is ok (x keeps the arm, payload moved-from), nothing otherwise (x untouched)
TakeOk(s) == Tick /\ last' = [op |-> "TakeOk", s |-> s, some |-> r[s].arm = "ok", got |-> IF r[s].arm = "ok" THEN r[s].v ELSE Moved]
             /\ r' = [r EXCEPT ![s] = IF r[s].arm = "ok" THEN Arm("ok", Moved) ELSE @]
TakeErr(s) == Tick /\ last' = [op |-> "TakeErr", s |-> s, some |-> r[s].arm = "err", got |-> IF r[s].arm = "err" THEN r[s].v ELSE Moved]
              /\ r' = [r EXCEPT ![s] = IF r[s].arm = "err" THEN Arm("err", Moved) ELSE @]
\* t = s.replace_ok(v): an error is carried over (moved out of s), otherwise the new success value; s keeps its arm
ReplaceOk(s, t, v) == Tick /\ s # t /\ last' = [op |-> "ReplaceOk", s |-> s, t |-> t, v |-> v]
                      /\ r' = [r EXCEPT ![t] = IF r[s].arm = "err" THEN r[s] ELSE Arm("ok", v),
                                        ![s] = IF r[s].arm = "err" THEN Arm("err", Moved) ELSE @]
Next == \E s \in Slots, t \in Slots, v \in Vals :
          MakeOk(s, v) \/ MakeErr(s, v) \/ SetOk(s, v) \/ SetErr(s, v) \/ Copy(s, t) \/ Move(s, t) \/ TakeOk(s) \/ TakeErr(s) \/ ReplaceOk(s, t, v)
Spec == Init /\ [][Next]_vars
\* ---- properties -------------------------------------------------------------------------------
OneArm == \A s \in Slots : r[s].arm \in {"ok", "err"}
\* an accessor for the other arm yields nothing and changes nothing; the own arm yields what was stored
TakeLaw == [][(last'.op = "TakeOk" => (last'.some <=> r[last'.s].arm = "ok") /\ (last'.some => last'.got = r[last'.s].v) /\ (~last'.some => r' = r))
              /\ (last'.op = "TakeErr" => (last'.some <=> r[last'.s].arm = "err") /\ (~last'.some => r' = r))]_vars
\* a copy does not disturb its source, and later changes to either do not show in the other
CopyLaw == [][last'.op = "Copy" => r'[last'.s] = r[last'.s] /\ r'[last'.t] = r[last'.s]]_vars
\* an error survives replace_ok
ErrSticky == [][(last'.op = "ReplaceOk" /\ r[last'.s].arm = "err") => (r'[last'.t].arm = "err" /\ r'[last'.t].v = r[last'.s].v)]_vars
=============================================================================
