--------------------------- MODULE MCB_CppResult ---------------------------
EXTENDS CppResult, Json, TLC
VARIABLE hist
HInit == Init /\ hist = <<>>
HNext == Next /\ hist' = Append(hist, [e |-> last', obs |-> [s \in Slots |-> [ok |-> r'[s].arm = "ok", v |-> r'[s].v]]])
HSpec == HInit /\ [][HNext]_<<vars, hist>>
Emit == (steps = MaxSteps) => PrintT(<<"BEH", ToJson(hist)>>)
\* negative model: an accessor that answers for the wrong arm
TakeOkBad(s) == Tick /\ last' = [op |-> "TakeOk", s |-> s, some |-> TRUE, got |-> r[s].v] /\ r' = [r EXCEPT ![s] = Arm(r[s].arm, Moved)]
NextBad == \E s \in Slots, v \in Vals : MakeErr(s, v) \/ TakeOkBad(s)
SpecBad == Init /\ hist = <<>> /\ [][NextBad /\ UNCHANGED hist]_<<vars, hist>>
=============================================================================
