SPECIFICATION Spec
CONSTANTS
  Slots = {"x", "y"}
  Vals = {1, 2}
  MaxSteps = 4
INVARIANTS OneArm
PROPERTIES TakeLaw CopyLaw ErrSticky
