SPECIFICATION HSpec
CONSTANTS
  Slots = {"x", "y"}
  Vals = {1, 2}
  MaxSteps = 3
INVARIANTS Emit
