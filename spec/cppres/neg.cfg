SPECIFICATION SpecBad
CONSTANTS
  Slots = {"x"}
  Vals = {1}
  MaxSteps = 3
PROPERTIES TakeLaw
