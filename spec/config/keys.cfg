SPECIFICATION Spec
CONSTANT Key = {"k1", "k2"}
INVARIANTS KeysIndependent Emit
CHECK_DEADLOCK FALSE
