SPECIFICATION Spec
INVARIANTS KeysIndependent Emit
CHECK_DEADLOCK FALSE
