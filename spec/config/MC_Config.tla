---- MODULE MC_Config ----
EXTENDS Config, Json
MCLang == {"target", "other"}
Emit == pcnt = 5 => PrintT(<<"CASE", ToJson([srcs |-> srcs, target |-> target, effective |-> effective])>>)
\* negative model: the command line is read before the file
SourceBad == <<"cli", "file", "attr">>
ApplyBad == /\ pcnt <= 3
            /\ LET s == SourceBad[pcnt] IN
               /\ shared' = IF srcs[s] = "shared" THEN s ELSE shared
               /\ scoped' = [l \in Lang |-> IF srcs[s] = l THEN s ELSE scoped[l]]
            /\ pcnt' = pcnt + 1
            /\ UNCHANGED <<srcs, target, effective>>
SpecBad == Init /\ [][ApplyBad \/ Resolve]_vars
====
