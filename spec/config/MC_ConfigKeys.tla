--------------------------- MODULE MC_ConfigKeys ---------------------------
EXTENDS ConfigKeys, Json, TLC
Emit == pcnt = 5 => PrintT(<<"CASE", ToJson([sets |-> sets, eff |-> eff])>>)
=============================================================================
