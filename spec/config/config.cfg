SPECIFICATION Spec
CONSTANT Lang <- MCLang
INVARIANTS Precedence OnlyThatLanguage Emit
