SPECIFICATION SpecBad
CONSTANT Lang <- MCLang
INVARIANTS Precedence
