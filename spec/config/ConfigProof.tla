---------------------------- MODULE ConfigProof ----------------------------
(* Unbounded proof (TLAPS) of C17's Precedence for ANY set of languages: after the three sources have been applied in    *)
(* order and the target resolved, the effective value is the documented one (last writer of the target-scoped key,       *)
(* otherwise last writer of the shared key).                                                                              *)
EXTENDS Config, TLAPS

Srcs == {"file", "cli", "attr"}
\* last source among the first k (in application order) that sets scope sc
LastUpTo(sc, k) == IF k >= 3 /\ srcs["attr"] = sc THEN "attr"
                   ELSE IF k >= 2 /\ srcs["cli"] = sc THEN "cli"
                   ELSE IF k >= 1 /\ srcs["file"] = sc THEN "file" ELSE None
TypeInv == /\ srcs \in [Srcs -> Scope]
           /\ target \in Lang
           /\ pcnt \in 1..5
Inv == /\ TypeInv
       /\ pcnt <= 4 => (/\ shared = LastUpTo("shared", pcnt - 1)
                        /\ \A l \in Lang : scoped[l] = LastUpTo(l, pcnt - 1))
       /\ pcnt = 5 => effective = Documented

ASSUME LangNotReserved == "shared" \notin Lang /\ "absent" \notin Lang

LEMMA InitOK == Init => Inv
  BY DEF Init, Inv, TypeInv, LastUpTo, Srcs, None

LEMMA StepOK == Inv /\ [Next]_vars => Inv'
<1> SUFFICES ASSUME Inv, [Next]_vars PROVE Inv'
  OBVIOUS
<1> USE DEF Inv, TypeInv, Srcs, None, Scope
<1>1. ASSUME Apply PROVE Inv'
  <2>1. CASE pcnt = 1
    BY <1>1, <2>1, LangNotReserved DEF Apply, Source, LastUpTo
  <2>2. CASE pcnt = 2
    BY <1>1, <2>2, LangNotReserved DEF Apply, Source, LastUpTo
  <2>3. CASE pcnt = 3
    BY <1>1, <2>3, LangNotReserved DEF Apply, Source, LastUpTo
  <2> QED
    BY <1>1, <2>1, <2>2, <2>3 DEF Apply
<1>2. ASSUME Resolve PROVE Inv'
  BY <1>2, LangNotReserved DEF Resolve, Documented, LastWriter, LastUpTo
<1>3. ASSUME UNCHANGED vars PROVE Inv'
  BY <1>3 DEF vars, Documented, LastWriter, LastUpTo
<1> QED
  BY <1>1, <1>2, <1>3 DEF Next

THEOREM Safety == Spec => []Inv
  BY InitOK, StepOK, PTL DEF Spec
THEOREM PrecedenceHolds == Spec => [](pcnt = 5 => effective = Documented)
  BY Safety, PTL DEF Inv
=============================================================================
