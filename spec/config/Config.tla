------------------------------- MODULE Config -------------------------------
(***************************************************************************)
(* Effective configuration of one setting (tool/src/config.rs, main.rs,    *)
(* lib.rs gen; book/src/config.md):                                        *)
(*   config.toml  <  --config on the command line  <  #[diplomat::config]  *)
(* and a language-scoped key (kotlin.lib_name) overrides the shared key    *)
(* for that language only.  One action per source, applied in the order    *)
(* the tool reads them, then Resolve for the target language.              *)
(***************************************************************************)
EXTENDS Naturals, Sequences, FiniteSets, TLC
CONSTANTS Lang          \* languages: the target and another one
None == "<unset>"
Source == <<"file", "cli", "attr">>          \* application order == precedence order (lowest first)
Scope == {"absent", "shared"} \cup Lang     \* what a source says about the key: nothing, key = v, or <lang>.key = v
VARIABLES srcs,       \* srcs[s] = scope in which source s sets the key (its value is the source's name: all distinct)
          pcnt,       \* index of the next source to apply (1..3), 4 = resolve, 5 = done
          shared,     \* current value of the shared key
          scoped,     \* scoped[l]: current value of l.key
          target,     \* backend being run
          effective
vars == <<srcs, pcnt, shared, scoped, target, effective>>

Init == /\ srcs \in [{"file", "cli", "attr"} -> Scope]
        /\ target \in Lang
        /\ pcnt = 1 /\ shared = None /\ scoped = [l \in Lang |-> None] /\ effective = None

\* Config::set for the pair a source contributes (read_file / read_cli_settings / top-level attributes)
Apply == /\ pcnt <= 3
         /\ LET s == Source[pcnt] IN
            /\ shared' = IF srcs[s] = "shared" THEN s ELSE shared
            /\ scoped' = [l \in Lang |-> IF srcs[s] = l THEN s ELSE scoped[l]]
         /\ pcnt' = pcnt + 1
         /\ UNCHANGED <<srcs, target, effective>>
\* Config::get_overridden(target)
Resolve == /\ pcnt = 4
           /\ effective' = IF scoped[target] # None THEN scoped[target] ELSE shared
           /\ pcnt' = 5
           /\ UNCHANGED <<srcs, shared, scoped, target>>
Next == Apply \/ Resolve
Spec == Init /\ [][Next]_vars

\* ---- the documented rule, stated declaratively ----------------------------------------------
LastWriter(sc) == IF srcs["attr"] = sc THEN "attr" ELSE IF srcs["cli"] = sc THEN "cli"
                  ELSE IF srcs["file"] = sc THEN "file" ELSE None
Documented == IF LastWriter(target) # None THEN LastWriter(target) ELSE LastWriter("shared")
Precedence == pcnt = 5 => effective = Documented
OnlyThatLanguage == pcnt = 5 => ((\A s \in {"file", "cli", "attr"} : srcs[s] # target) => effective = LastWriter("shared"))
=============================================================================
