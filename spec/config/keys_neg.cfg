SPECIFICATION SpecWipe
CONSTANT Key = {"k1", "k2"}
INVARIANTS KeysIndependent
CHECK_DEADLOCK FALSE
