SPECIFICATION SpecWipe
INVARIANTS KeysIndependent
CHECK_DEADLOCK FALSE
