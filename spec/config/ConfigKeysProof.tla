-------------------------- MODULE ConfigKeysProof --------------------------
(* Unbounded proof (TLAPS) of KeysIndependent for ANY set of keys: the effective value of every key is the value given by the  *)
(* last source that assigns THAT key, whatever else the sources assign.                                                        *)
EXTENDS ConfigKeys, TLAPS
Srcs == {"file", "cli", "attr"}
LastUpTo(k, n) == IF n >= 3 /\ k \in sets["attr"] THEN "attr"
                  ELSE IF n >= 2 /\ k \in sets["cli"] THEN "cli"
                  ELSE IF n >= 1 /\ k \in sets["file"] THEN "file" ELSE None
Inv == /\ sets \in [Srcs -> SUBSET Key]
       /\ pcnt \in 1..5
       /\ pcnt <= 4 => \A k \in Key : cur[k] = LastUpTo(k, pcnt - 1)
       /\ pcnt = 5 => \A k \in Key : eff[k] = LastWriter(k)
LEMMA InitOK == Init => Inv
  BY DEF Init, Inv, LastUpTo, Srcs, None
LEMMA StepOK == Inv /\ [Next]_vars => Inv'
<1> SUFFICES ASSUME Inv, [Next]_vars PROVE Inv'
  OBVIOUS
<1> USE DEF Inv, Srcs, None
<1>1. ASSUME Apply PROVE Inv'
  <2>1. CASE pcnt = 1
    BY <1>1, <2>1 DEF Apply, Source, LastUpTo
  <2>2. CASE pcnt = 2
    BY <1>1, <2>2 DEF Apply, Source, LastUpTo
  <2>3. CASE pcnt = 3
    BY <1>1, <2>3 DEF Apply, Source, LastUpTo
  <2> QED
    BY <1>1, <2>1, <2>2, <2>3 DEF Apply
<1>2. ASSUME Resolve PROVE Inv'
  BY <1>2 DEF Resolve, LastWriter, LastUpTo
<1>3. ASSUME UNCHANGED vars PROVE Inv'
  BY <1>3 DEF vars, LastWriter, LastUpTo
<1> QED
  BY <1>1, <1>2, <1>3 DEF Next
THEOREM Safety == Spec => []Inv
  BY InitOK, StepOK, PTL DEF Spec
THEOREM Independent == Spec => []KeysIndependent
  BY Safety, PTL DEF Inv, KeysIndependent
=============================================================================
