----------------------------- MODULE ConfigKeys -----------------------------
(* Two DIFFERENT keys of one backend (tool/src/config.rs Config::set, the backends' own `set`: demo_gen/mod.rs, kotlin/mod.rs).  *)
(* Each of the three sources may assign either key, both or none; sources are applied in precedence order.  The effective value   *)
(* of a key is that of the last source that assigns THAT key: assigning one key never changes, resets or defaults another.        *)
EXTENDS Naturals, Sequences, FiniteSets
None == "<unset>"
Source == <<"file", "cli", "attr">>
CONSTANT Key       \* the keys of one backend (the replay uses two)
VARIABLES sets,      \* sets[s]: the keys source s assigns (the value it gives is the source's name)
          pcnt, cur, eff
vars == <<sets, pcnt, cur, eff>>
Init == sets \in [{"file", "cli", "attr"} -> SUBSET Key] /\ pcnt = 1 /\ cur = [k \in Key |-> None] /\ eff = [k \in Key |-> None]
Apply == /\ pcnt <= 3
         /\ cur' = [k \in Key |-> IF k \in sets[Source[pcnt]] THEN Source[pcnt] ELSE cur[k]]
         /\ pcnt' = pcnt + 1 /\ UNCHANGED <<sets, eff>>
Resolve == pcnt = 4 /\ eff' = cur /\ pcnt' = 5 /\ UNCHANGED <<sets, cur>>
Next == Apply \/ Resolve
Spec == Init /\ [][Next]_vars
LastWriter(k) == IF k \in sets["attr"] THEN "attr" ELSE IF k \in sets["cli"] THEN "cli" ELSE IF k \in sets["file"] THEN "file" ELSE None
KeysIndependent == pcnt = 5 => \A k \in Key : eff[k] = LastWriter(k)
\* negative model: a setter of k2 that also (re)initialises k1
ApplyWipe == /\ pcnt <= 3
             /\ cur' = [k \in Key |-> IF k \in sets[Source[pcnt]] THEN Source[pcnt]
                                      ELSE IF k = "k1" /\ "k2" \in sets[Source[pcnt]] THEN None ELSE cur[k]]
             /\ pcnt' = pcnt + 1 /\ UNCHANGED <<sets, eff>>
SpecWipe == Init /\ [][ApplyWipe \/ Resolve]_vars
=============================================================================
