#!/bin/sh
# Offline setup after a fresh restore: build the harness and the real diplomat-tool binary from /repo.
set -e
cd "$(dirname "$0")"
mkdir -p work/tmp evidence
export CARGO_NET_OFFLINE=true
[ -f harness/Cargo.lock ] || cp /repo/Cargo.lock harness/Cargo.lock
(cd harness && cargo build --offline --release --bin dv)
cargo build --offline --release -p diplomat-tool --bin diplomat-tool --manifest-path /repo/Cargo.toml --target-dir work/rtarget
echo setup ok
