//! C03 leg (a) — ownership of the runtime's FFI-safe containers (spec/own/Ownership.tla).
//! Payloads count their drops; allocations that must be released exactly once are watched by the
//! quarantining allocator, so a double drop / double free is *observed*, never undefined.
use crate::track;
use crate::util::*;
use core::ffi::c_void;
use diplomat_runtime::*;
use serde_json::{json, Map, Value};
use std::cell::{Cell, RefCell};
use std::collections::BTreeMap;

thread_local! {
    static DROPS: RefCell<BTreeMap<String, u64>> = RefCell::new(BTreeMap::new());
    static NEXT_CLONE: Cell<Option<&'static str>> = Cell::new(None);
    static CB_RUNS: Cell<u64> = Cell::new(0);
}

fn intern(s: &str) -> &'static str {
    Box::leak(s.to_string().into_boxed_str())
}

pub struct P {
    id: &'static str,
}
impl Drop for P {
    fn drop(&mut self) {
        DROPS.with(|d| *d.borrow_mut().entry(self.id.to_string()).or_insert(0) += 1);
    }
}
impl Clone for P {
    fn clone(&self) -> P {
        let id = NEXT_CLONE.with(|n| n.take()).expect("clone without a designated fresh payload id");
        P { id }
    }
}
impl core::fmt::Debug for P {
    fn fmt(&self, f: &mut core::fmt::Formatter) -> core::fmt::Result {
        write!(f, "P({})", self.id)
    }
}

unsafe extern "C" fn cb_run(data: *mut c_void) {
    let p = &*(data as *const P);
    let _ = p.id.len();
    CB_RUNS.with(|c| c.set(c.get() + 1));
}
unsafe extern "C" fn cb_dtor(data: *mut c_void) {
    drop(Box::from_raw(data as *mut P));
}

enum C {
    Res(DiplomatResult<P, P>),
    // the same result with a trivially droppable type on the OTHER arm (what `Result<(), Box<E>>` / `Result<Box<T>, ()>`
    // look like): ownership is the same, but Drop/Clone/From take different paths (needs_drop, zero-sized arms)
    ResErrOnly(DiplomatResult<u32, P>),
    ResOkOnly(DiplomatResult<P, ()>),
    Opt(DiplomatOption<P>),
    Osl(DiplomatOwnedSlice<P>),
    Cb(DiplomatCallback<()>),
    Foreign(*mut C), // bitwise-moved into "foreign" memory
}

struct World {
    lean: bool, // instantiate results with a trivially droppable other arm
    rust: BTreeMap<String, P>,
    handles: BTreeMap<String, *mut P>,
    conts: BTreeMap<String, C>,
    watched: Vec<(String, usize)>, // (what, slot)
    made: Vec<String>,
}

impl World {
    fn new() -> World {
        DROPS.with(|d| d.borrow_mut().clear());
        track::reset();
        World { lean: false, rust: BTreeMap::new(), handles: BTreeMap::new(), conts: BTreeMap::new(), watched: vec![], made: vec![] }
    }
    fn drops(&self) -> Map<String, Value> {
        let mut m = Map::new();
        DROPS.with(|d| {
            for p in &self.made {
                m.insert(p.clone(), json!(d.borrow().get(p).copied().unwrap_or(0)));
            }
        });
        m
    }
    fn overfreed(&self) -> Option<String> {
        for (w, s) in &self.watched {
            if track::frees(*s) > 1 {
                return Some(format!("{w} released {} times", track::frees(*s)));
            }
        }
        None
    }
    fn unreleased(&self) -> Option<String> {
        for (w, s) in &self.watched {
            if track::frees(*s) != 1 {
                return Some(format!("{w} released {} times at quiescence", track::frees(*s)));
            }
        }
        None
    }

    /// Perform one API step.  Err(msg) = the implementation misbehaved in a way visible here.
    fn step(&mut self, ev: &Value) -> Result<(), String> {
        let op = ev["op"].as_str().unwrap();
        let pid = ev.get("p").and_then(|x| x.as_str()).map(|s| s.to_string());
        let cid = ev.get("c").and_then(|x| x.as_str()).map(|s| s.to_string());
        match op {
            "RustMake" => {
                let p = pid.unwrap();
                self.made.push(p.clone());
                self.rust.insert(p.clone(), P { id: intern(&p) });
            }
            "ReturnBox" => {
                let p = pid.unwrap();
                let v = self.rust.remove(&p).unwrap();
                let raw = Box::into_raw(Box::new(v));
                self.watched.push((format!("Box<{p}>"), track::watch(raw)));
                self.handles.insert(p, raw);
            }
            "BorrowCall" => {
                let h = self.handles[&pid.unwrap()];
                let _ = unsafe { let r: &P = &*h; r.id.len() };
            }
            "Destroy" => {
                let h = self.handles.remove(&pid.unwrap()).unwrap();
                // what the generated `Type_destroy(this: Box<Type>) {}` does
                drop(unsafe { Box::from_raw(h) });
            }
            "RustDrop" => {
                drop(self.rust.remove(&pid.unwrap()).unwrap());
            }
            "Wrap" => {
                let c = cid.unwrap();
                let kind = ev["kind"].as_str().unwrap();
                let ps: Vec<String> = ev["ps"].as_array().unwrap().iter().map(|x| x.as_str().unwrap().to_string()).collect();
                let mut vals: Vec<P> = ps.iter().map(|p| self.rust.remove(p).unwrap()).collect();
                let cont = match kind {
                    "res" => {
                        let v = vals.pop().unwrap();
                        match (self.lean, ev["arm"] == "ok") {
                            (false, true) => C::Res(Ok(v).into()),
                            (false, false) => C::Res(Err(v).into()),
                            (true, true) => C::ResOkOnly(Ok(v).into()),
                            (true, false) => C::ResErrOnly(Err(v).into()),
                        }
                    }
                    "opt" => C::Opt(vals.pop().into()),
                    "oslice" => {
                        let b: Box<[P]> = vals.into_boxed_slice();
                        if !b.is_empty() {
                            self.watched.push((format!("Box<[P]> of {c}"), track::watch(b.as_ptr())));
                        }
                        C::Osl(b.into())
                    }
                    "cb" => {
                        let raw = Box::into_raw(Box::new(vals.pop().unwrap()));
                        self.watched.push((format!("callback data of {c}"), track::watch(raw)));
                        let run: unsafe extern "C" fn(*mut c_void, ...) -> () = unsafe { core::mem::transmute(cb_run as unsafe extern "C" fn(*mut c_void)) };
                        C::Cb(DiplomatCallback { data: raw as *mut c_void, run_callback: run, destructor: Some(cb_dtor) })
                    }
                    k => panic!("kind {k}"),
                };
                self.conts.insert(c, cont);
            }
            "PassToForeign" => {
                let c = cid.unwrap();
                let v = self.conts.remove(&c).unwrap();
                self.conts.insert(c, C::Foreign(Box::into_raw(Box::new(v))));
            }
            "PassToRust" => {
                let c = cid.unwrap();
                match self.conts.remove(&c).unwrap() {
                    C::Foreign(raw) => {
                        let v = unsafe { core::ptr::read(raw) };
                        unsafe { std::alloc::dealloc(raw as *mut u8, std::alloc::Layout::new::<C>()) };
                        self.conts.insert(c, v);
                    }
                    _ => panic!("not foreign"),
                }
            }
            "Peek" => match &self.conts[&cid.unwrap()] {
                C::Res(r) => {
                    let _ = format!("{:?}", r);
                    match r.as_ref() {
                        Ok(p) | Err(p) => {
                            let _ = p.id.len();
                        }
                    }
                }
                C::ResErrOnly(r) => {
                    let _ = format!("{:?}", r);
                    if let Err(p) = r.as_ref() {
                        let _ = p.id.len();
                    }
                }
                C::ResOkOnly(r) => {
                    let _ = format!("{:?}", r);
                    if let Ok(p) = r.as_ref() {
                        let _ = p.id.len();
                    }
                }
                C::Opt(o) => {
                    let _ = o.as_ref().map(|p| p.id.len());
                }
                C::Osl(s) => {
                    let _: usize = s.iter().map(|p| p.id.len()).sum();
                }
                C::Cb(cb) => unsafe { (cb.run_callback)(cb.data) },
                C::Foreign(_) => panic!("peek at foreign"),
            },
            "Unwrap" => {
                let c = cid.unwrap();
                let variant = ev.get("variant").and_then(|v| v.as_u64()).unwrap_or(0);
                match self.conts.remove(&c).unwrap() {
                    C::Res(r) => {
                        let std: Result<P, P> = r.into();
                        let want_ok = ev["arm"] == "ok";
                        if std.is_ok() != want_ok {
                            return Err(format!("result arm changed: expected ok={want_ok}"));
                        }
                        match std {
                            Ok(p) | Err(p) => {
                                self.rust.insert(p.id.to_string(), p);
                            }
                        }
                    }
                    C::ResErrOnly(r) => {
                        let std: Result<u32, P> = r.into();
                        match std {
                            Err(p) if ev["arm"] != "ok" => {
                                self.rust.insert(p.id.to_string(), p);
                            }
                            _ => return Err("result arm changed".into()),
                        }
                    }
                    C::ResOkOnly(r) => {
                        let std: Result<P, ()> = r.into();
                        match std {
                            Ok(p) if ev["arm"] == "ok" => {
                                self.rust.insert(p.id.to_string(), p);
                            }
                            _ => return Err("result arm changed".into()),
                        }
                    }
                    C::Opt(o) => {
                        let std: Option<P> = match variant % 3 {
                            0 => o.into_option(),
                            1 => o.into(),
                            _ => o.into_converted_option::<P>(),
                        };
                        if let Some(p) = std {
                            self.rust.insert(p.id.to_string(), p);
                        }
                    }
                    C::Osl(s) => {
                        let b: Box<[P]> = s.into();
                        for p in b.into_vec() {
                            self.rust.insert(p.id.to_string(), p);
                        }
                    }
                    _ => panic!("unwrap of cb/foreign"),
                }
            }
            "DropContainer" => {
                drop(self.conts.remove(&cid.unwrap()).unwrap());
            }
            "CloneInto" => {
                let c = cid.unwrap();
                let c2 = ev["c2"].as_str().unwrap().to_string();
                let q = ev["q"].as_str().unwrap();
                NEXT_CLONE.with(|n| n.set(Some(intern(q))));
                let cl = match &self.conts[&c] {
                    C::Res(r) => C::Res(r.clone()),
                    C::ResErrOnly(r) => C::ResErrOnly(r.clone()),
                    C::ResOkOnly(r) => C::ResOkOnly(r.clone()),
                    C::Opt(o) => C::Opt(o.clone()),
                    _ => panic!("clone of non result"),
                };
                if NEXT_CLONE.with(|n| n.take()).is_none() {
                    self.made.push(q.to_string());
                }
                self.conts.insert(c2, cl);
            }
            other => panic!("unknown op {other}"),
        }
        if let Some(m) = self.overfreed() {
            return Err(m);
        }
        Ok(())
    }
}

fn replay_one(beh: &[Value], lean: bool) -> Option<Value> {
    track::layout_check_start();
    let r = replay_inner(beh, lean);
    let (bad, want, got) = track::layout_check_stop();
    if r.is_none() && bad > 0 {
        return Some(json!({"step": beh.len(), "what": "memory released with a layout different from the one it was allocated with",
            "allocated_size": want, "released_size": got, "mismatches": bad}));
    }
    r
}

fn replay_inner(beh: &[Value], lean: bool) -> Option<Value> {
    let mut w = World::new();
    w.lean = lean;
    for (i, ev) in beh.iter().enumerate() {
        let r = guarded(|| w.step(ev));
        match r {
            Err(p) => return Some(json!({"step": i, "op": ev["op"], "what": "panic", "panic": p})),
            Ok(Err(m)) => return Some(json!({"step": i, "op": ev["op"], "kind": ev.get("kind"), "what": m})),
            Ok(Ok(())) => {}
        }
        let got = w.drops();
        let exp = ev["st"]["drops"].as_object().unwrap();
        for (p, n) in &got {
            if exp.get(p) != Some(n) {
                return Some(json!({"step": i, "op": ev["op"], "kind": ev.get("kind"), "what": "drop counts differ",
                    "expected": exp, "observed": got}));
            }
        }
    }
    // behaviours end quiescent: everything made was dropped exactly once, every watched allocation released once
    if let Some(m) = w.unreleased() {
        return Some(json!({"step": beh.len(), "what": m}));
    }
    None
}

pub fn replay(args: &[String]) -> i32 {
    let behs = read_ndjson(&args[0]);
    let mut out = Out::create(&args[1]);
    let (mut n, mut bad) = (0u64, 0u64);
    for b in &behs {
        // every behaviour is replayed with both instantiations of the results' other arm
        for lean in [false, true] {
            n += 1;
            if let Some(mut m) = replay_one(b.as_array().unwrap(), lean) {
                bad += 1;
                m["behaviour"] = b.clone();
                m["other_arm"] = json!(if lean { "trivially droppable" } else { "payload type" });
                if bad <= 300 {
                    out.line(&m);
                }
            }
        }
    }
    out.finish();
    println!("{}", json!({"replayed": n, "mismatches": bad}));
    0
}

// ------------------------------------------------------------------------------------------
// record: seeded random histories on the real types -> NDJSON for Trace_Ownership.tla
pub fn record(args: &[String]) -> i32 {
    let seed: u64 = args[0].parse().unwrap();
    let runs: usize = args[1].parse().unwrap();
    let mut out = Out::create(&args[2]);
    let mut rng = Rng::new(seed);
    let conts: [(&str, &str); 8] = [("res1", "res"), ("res2", "res"), ("opt1", "opt"), ("opt2", "opt"), ("osl1", "oslice"),
        ("osl2", "oslice"), ("cb1", "cb"), ("cb2", "cb")];
    let mut nev = 0u64;
    for _ in 0..runs {
        let mut w = World::new();
        w.lean = rng.chance(1, 2);
        out.line(&json!({"op": "Reset"}));
        nev += 1;
        // shadow state used only to pick *legal* next operations (the contract of the foreign side)
        let mut next_p = 1;
        let mut cstate: BTreeMap<&str, &str> = conts.iter().map(|(c, _)| (*c, "free")).collect();
        let mut carm: BTreeMap<&str, &str> = BTreeMap::new();
        let mut held: BTreeMap<&str, Vec<String>> = BTreeMap::new();
        let nsteps = 4 + rng.below(14);
        let mut k = 0;
        let mut tries = 0;
        while (k < nsteps || !quiescent(&w, &cstate)) && tries < 400 {
            tries += 1;
            let finishing = k >= nsteps;
            let choice = if finishing { 4 + rng.below(8) } else { rng.below(12) };
            let mut ev: Option<Value> = None;
            match choice {
                0 | 1 if next_p <= 12 => {
                    ev = Some(json!({"op": "RustMake", "p": format!("p{next_p}")}));
                    next_p += 1;
                }
                2 | 3 => {
                    // wrap
                    let free: Vec<&(&str, &str)> = conts.iter().filter(|(c, _)| cstate[c] == "free").collect();
                    if free.is_empty() { continue; }
                    let (c, kind) = **rng.pick(&free);
                    let avail: Vec<String> = w.rust.keys().cloned().collect();
                    let take = |n: usize, rng: &mut Rng| -> Option<Vec<String>> {
                        if avail.len() < n { return None; }
                        let mut a = avail.clone();
                        let mut r = vec![];
                        for _ in 0..n { let i = rng.below(a.len() as u64) as usize; r.push(a.remove(i)); }
                        Some(r)
                    };
                    let ps = match kind {
                        "res" | "cb" => take(1, &mut rng),
                        "opt" => take(rng.below(2) as usize, &mut rng),
                        _ => take(rng.below(avail.len() as u64 + 1).min(3) as usize, &mut rng),
                    };
                    let Some(ps) = ps else { continue };
                    let arm = if kind == "res" { if rng.chance(1, 2) { "ok" } else { "err" } } else { "-" };
                    carm.insert(c, arm);
                    held.insert(c, ps.clone());
                    cstate.insert(c, "rust");
                    ev = Some(json!({"op": "Wrap", "c": c, "kind": kind, "ps": ps, "arm": arm}));
                }
                4 => {
                    let v: Vec<String> = w.rust.keys().cloned().collect();
                    if v.is_empty() { continue; }
                    let p = rng.pick(&v).clone();
                    ev = Some(if rng.chance(1, 2) && !finishing { json!({"op": "ReturnBox", "p": p}) } else { json!({"op": "RustDrop", "p": p}) });
                }
                5 => {
                    let v: Vec<String> = w.handles.keys().cloned().collect();
                    if v.is_empty() { continue; }
                    let p = rng.pick(&v).clone();
                    ev = Some(if rng.chance(1, 2) && !finishing { json!({"op": "BorrowCall", "p": p}) } else { json!({"op": "Destroy", "p": p}) });
                }
                6 | 7 | 8 | 9 => {
                    let inr: Vec<&(&str, &str)> = conts.iter().filter(|(c, _)| cstate[c] == "rust").collect();
                    if inr.is_empty() {
                        let inf: Vec<&(&str, &str)> = conts.iter().filter(|(c, _)| cstate[c] == "foreign").collect();
                        if inf.is_empty() { continue; }
                        let (c, _) = **rng.pick(&inf);
                        cstate.insert(c, "rust");
                        ev = Some(json!({"op": "PassToRust", "c": c}));
                    } else {
                        let (c, kind) = **rng.pick(&inr);
                        match choice {
                            6 if !finishing => { cstate.insert(c, "foreign"); ev = Some(json!({"op": "PassToForeign", "c": c})); }
                            7 if !finishing => { ev = Some(json!({"op": "Peek", "c": c})); }
                            8 if kind != "cb" => {
                                cstate.insert(c, "consumed");
                                ev = Some(json!({"op": "Unwrap", "c": c, "kind": kind, "arm": carm[c], "variant": rng.below(3)}));
                            }
                            _ => { cstate.insert(c, "dropped"); ev = Some(json!({"op": "DropContainer", "c": c})); }
                        }
                    }
                }
                10 => {
                    let inf: Vec<&(&str, &str)> = conts.iter().filter(|(c, _)| cstate[c] == "foreign").collect();
                    if inf.is_empty() { continue; }
                    let (c, _) = **rng.pick(&inf);
                    cstate.insert(c, "rust");
                    ev = Some(json!({"op": "PassToRust", "c": c}));
                }
                11 if next_p <= 12 => {
                    // clone a result/option into a free container of the same kind
                    let srcs: Vec<&(&str, &str)> = conts.iter().filter(|(c, k)| cstate[c] == "rust" && (*k == "res" || *k == "opt")).collect();
                    if srcs.is_empty() { continue; }
                    let (c, kind) = **rng.pick(&srcs);
                    let dst: Vec<&(&str, &str)> = conts.iter().filter(|(d, k)| cstate[d] == "free" && *k == kind).collect();
                    if dst.is_empty() { continue; }
                    let (c2, _) = **rng.pick(&dst);
                    let q = format!("p{next_p}");
                    if !held.get(c).map(|h| h.is_empty()).unwrap_or(true) { next_p += 1; }
                    cstate.insert(c2, "rust");
                    let a = carm[c];
                    carm.insert(c2, a);
                    held.insert(c2, if held.get(c).map(|h| h.is_empty()).unwrap_or(true) { vec![] } else { vec![q.clone()] });
                    ev = Some(json!({"op": "CloneInto", "c": c, "c2": c2, "q": q}));
                }
                _ => {}
            }
            let Some(mut e) = ev else { continue };
            let r = guarded(|| w.step(&e));
            e["drops"] = Value::Object(w.drops());
            e["panic"] = json!(r.is_err());
            e["memerr"] = json!(match &r { Ok(Err(m)) => m.clone(), _ => String::new() });
            out.line(&e);
            nev += 1;
            k += 1;
        }
        let mut e = json!({"op": "End", "leak": w.unreleased().unwrap_or_default()});
        e["drops"] = Value::Object(w.drops());
        out.line(&e);
        nev += 1;
    }
    out.finish();
    println!("{}", json!({"runs": runs, "events": nev}));
    0
}

fn quiescent(w: &World, cstate: &BTreeMap<&str, &str>) -> bool {
    w.rust.is_empty() && w.handles.is_empty() && cstate.values().all(|s| matches!(*s, "free" | "consumed" | "dropped"))
}
