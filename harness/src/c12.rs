//! C12 — DiplomatWrite.  Binding of spec/write/Write.tla to runtime/src/write.rs.
//!
//! replay:  TLC behaviours (BEH lines) are executed step by step against the real runtime with a
//!          caller-supplied writer built the way a C caller builds one (repr(C) mirror struct,
//!          exactly-sized buffers between canaries, scripted grow callback), the fixed writer
//!          (`diplomat_simple_write`) and the Rust-owned writer; after each step the projected
//!          state (len, cap, failed, content, accessor results) is compared with the spec state.
//! record:  seeded random op sequences are run and logged as NDJSON events for Trace_Write.tla.
use crate::util::*;
use core::ffi::c_void;
use core::fmt::Write as _;
use diplomat_runtime::DiplomatWrite;
use serde_json::{json, Value};

#[repr(C)]
pub struct RawWrite {
    context: *mut c_void,
    buf: *mut u8,
    len: usize,
    cap: usize,
    grow_failed: bool,
    flush: extern "C" fn(*mut DiplomatWrite),
    grow: extern "C" fn(*mut DiplomatWrite, usize) -> bool,
}

extern "C" {
    fn diplomat_simple_write(buf: *mut u8, buf_size: usize) -> DiplomatWrite;
    fn diplomat_buffer_write_get_bytes(this: &DiplomatWrite) -> *mut u8;
    fn diplomat_buffer_write_len(this: &DiplomatWrite) -> usize;
}

const GUARD: usize = 32;
const CANARY: u8 = 0xA5;
const FRESH: u8 = 0xEE;

/// `n` usable bytes between two canary zones: any store outside [0,n) is detected.
pub struct GuardedBuf {
    mem: Vec<u8>,
    n: usize,
}
impl GuardedBuf {
    pub fn new(n: usize) -> Self {
        let mut mem = vec![CANARY; n + 2 * GUARD];
        for b in &mut mem[GUARD..GUARD + n] {
            *b = FRESH;
        }
        GuardedBuf { mem, n }
    }
    pub fn ptr(&mut self) -> *mut u8 {
        unsafe { self.mem.as_mut_ptr().add(GUARD) }
    }
    pub fn intact(&self) -> bool {
        self.mem[..GUARD].iter().all(|b| *b == CANARY) && self.mem[GUARD + self.n..].iter().all(|b| *b == CANARY)
    }
    pub fn inner(&self) -> &[u8] {
        &self.mem[GUARD..GUARD + self.n]
    }
}

#[derive(Clone, Copy, Debug)]
enum GrowScript {
    Ok(usize),
    Fail,
}

struct Ctx {
    script: Option<GrowScript>,
    grow_calls: Vec<(usize, bool, usize)>,
    cur: GuardedBuf,
    old: Vec<(GuardedBuf, Vec<u8>)>, // retired buffers with a snapshot: must never be written again
    flushes: usize,
    events: Option<*mut Vec<Value>>, // record mode: log Grow events in program order
}

extern "C" fn caller_grow(this: *mut DiplomatWrite, req: usize) -> bool {
    unsafe {
        let raw = this as *mut RawWrite;
        let ctx = &mut *((*raw).context as *mut Ctx);
        let sc = ctx.script.take();
        let (ok, newcap) = match sc {
            Some(GrowScript::Ok(n)) => (true, n),
            Some(GrowScript::Fail) => (false, 0),
            None => (false, 0),
        };
        ctx.grow_calls.push((req, sc.is_some() && ok, newcap));
        if sc.is_none() {
            // unexpected call: remember it (req recorded with newcap = usize::MAX marker)
            ctx.grow_calls.last_mut().unwrap().2 = usize::MAX;
        }
        if let Some(ev) = ctx.events {
            (*ev).push(json!({"ev": "Grow", "req": req, "ok": ok, "newcap": newcap}));
        }
        if !ok {
            return false;
        }
        let mut nb = GuardedBuf::new(newcap);
        let oldcap = (*raw).cap;
        let keep = oldcap.min(newcap);
        core::ptr::copy_nonoverlapping((*raw).buf, nb.ptr(), keep);
        let old = std::mem::replace(&mut ctx.cur, nb);
        let snap = old.inner().to_vec();
        ctx.old.push((old, snap));
        (*raw).buf = ctx.cur.ptr();
        (*raw).cap = newcap;
        true
    }
}
extern "C" fn caller_flush(this: *mut DiplomatWrite) {
    unsafe {
        let raw = this as *mut RawWrite;
        let ctx = &mut *((*raw).context as *mut Ctx);
        ctx.flushes += 1;
    }
}

enum Writer {
    Caller { raw: Box<RawWrite>, ctx: Box<Ctx> },
    Fixed { w: Box<DiplomatWrite>, buf: Box<GuardedBuf> },
    Rust { w: *mut DiplomatWrite },
}

#[derive(Debug, PartialEq, Clone)]
struct Obs {
    len: usize,
    cap: usize,
    failed: bool,
    content: Vec<u8>,
    null: bool,
    acclen: usize,
}

impl Writer {
    fn new(kind: &str, cap: usize) -> Writer {
        assert_eq!(core::mem::size_of::<RawWrite>(), core::mem::size_of::<DiplomatWrite>());
        assert_eq!(core::mem::align_of::<RawWrite>(), core::mem::align_of::<DiplomatWrite>());
        match kind {
            "caller" | "cpp_string" => {
                let mut ctx = Box::new(Ctx {
                    script: None,
                    grow_calls: vec![],
                    cur: GuardedBuf::new(cap),
                    old: vec![],
                    flushes: 0,
                    events: None,
                });
                let raw = Box::new(RawWrite {
                    context: &mut *ctx as *mut Ctx as *mut c_void,
                    buf: ctx.cur.ptr(),
                    len: 0,
                    cap,
                    grow_failed: false,
                    flush: caller_flush,
                    grow: caller_grow,
                });
                Writer::Caller { raw, ctx }
            }
            "fixed" => {
                let mut buf = Box::new(GuardedBuf::new(cap + 1));
                let w = Box::new(unsafe { diplomat_simple_write(buf.ptr(), cap + 1) });
                Writer::Fixed { w, buf }
            }
            "rust_owned" => Writer::Rust { w: crate::track::scoped(|| diplomat_runtime::diplomat_buffer_write_create(cap)) },
            k => panic!("unknown writer kind {k}"),
        }
    }
    fn dw(&mut self) -> &mut DiplomatWrite {
        match self {
            Writer::Caller { raw, .. } => unsafe { &mut *(&mut **raw as *mut RawWrite as *mut DiplomatWrite) },
            Writer::Fixed { w, .. } => &mut **w,
            Writer::Rust { w } => unsafe { &mut **w },
        }
    }
    fn raw(&mut self) -> &RawWrite {
        unsafe { &*(self.dw() as *mut DiplomatWrite as *const RawWrite) }
    }
    fn obs(&mut self) -> Obs {
        let (len, cap, failed, buf) = {
            let r = self.raw();
            (r.len, r.cap, r.grow_failed, r.buf)
        };
        let content = if len <= cap && !buf.is_null() { unsafe { core::slice::from_raw_parts(buf, len).to_vec() } } else { vec![] };
        let (null, acclen) = unsafe {
            let d = self.dw();
            (diplomat_buffer_write_get_bytes(d).is_null(), diplomat_buffer_write_len(d))
        };
        Obs { len, cap, failed, content, null, acclen }
    }
    /// memory-safety observations beyond the projected state
    fn memory_ok(&mut self) -> Result<(), String> {
        match self {
            Writer::Caller { ctx, .. } => {
                if !ctx.cur.intact() {
                    return Err("store outside the caller's current buffer (canary overwritten)".into());
                }
                for (b, snap) in &ctx.old {
                    if !b.intact() || b.inner() != &snap[..] {
                        return Err("store into a buffer that grow() had already replaced".into());
                    }
                }
                Ok(())
            }
            Writer::Fixed { buf, .. } => {
                if !buf.intact() {
                    return Err("store outside the caller's fixed array (canary overwritten)".into());
                }
                Ok(())
            }
            Writer::Rust { .. } => Ok(()),
        }
    }
    fn destroy(self) {
        if let Writer::Rust { w } = self {
            crate::track::scoped(|| unsafe { diplomat_runtime::diplomat_buffer_write_destroy(w) })
        }
    }
}

fn obs_json(o: &Obs) -> Value {
    json!({"len": o.len, "cap": o.cap, "failed": o.failed, "content": o.content, "null": o.null, "acclen": o.acclen})
}

fn expect_obs(st: &Value) -> Obs {
    Obs {
        len: st["len"].as_u64().unwrap() as usize,
        cap: st["cap"].as_u64().unwrap() as usize,
        failed: st["failed"].as_bool().unwrap(),
        content: bytes_of(&st["content"]),
        null: st["null"].as_bool().unwrap(),
        acclen: st["acclen"].as_u64().unwrap() as usize,
    }
}

fn same(kind: &str, exp: &Obs, got: &Obs) -> bool {
    if kind == "rust_owned" {
        // capacity chosen by Vec::reserve: only required to hold the content
        exp.len == got.len && exp.failed == got.failed && exp.content == got.content && exp.null == got.null
            && exp.acclen == got.acclen && got.cap >= got.len
    } else {
        // the two accessors answer for every kind of writer: NULL / 0 exactly when a growth has failed
        exp.len == got.len && exp.cap == got.cap && exp.failed == got.failed && exp.content == got.content
            && exp.null == got.null && exp.acclen == got.acclen
    }
}

/// Replay one behaviour; returns the first mismatch.
fn replay_one(beh: &[Value]) -> Option<Value> {
    let kind = beh[0]["kind"].as_str().unwrap().to_string();
    let cap = beh[0]["cap"].as_u64().unwrap() as usize;
    let mut w = Writer::new(&kind, cap);
    let o = w.obs();
    if !same(&kind, &expect_obs(&beh[0]["st"]), &o) {
        return Some(json!({"step": 0, "what": "initial state", "expected": beh[0]["st"], "observed": obs_json(&o)}));
    }
    let mut i = 1;
    let mut res = None;
    while i < beh.len() {
        let ev = beh[i]["ev"].as_str().unwrap();
        match ev {
            "WriteBegin" => {
                let chunk = bytes_of(&beh[i]["chunk"]);
                let mut j = i + 1;
                let mut script = None;
                let mut req = 0usize;
                while j < beh.len() && matches!(beh[j]["ev"].as_str().unwrap(), "GrowOk" | "GrowFail" | "Copy") {
                    match beh[j]["ev"].as_str().unwrap() {
                        "GrowOk" => {
                            script = Some(GrowScript::Ok(beh[j]["newcap"].as_u64().unwrap() as usize));
                            req = beh[j]["req"].as_u64().unwrap() as usize;
                        }
                        "GrowFail" => {
                            script = Some(GrowScript::Fail);
                            req = beh[j]["req"].as_u64().unwrap() as usize;
                        }
                        _ => {}
                    }
                    j += 1;
                }
                let last = &beh[j - 1];
                if let Writer::Caller { ctx, .. } = &mut w {
                    ctx.script = script;
                    ctx.grow_calls.clear();
                }
                let s = String::from_utf8(chunk.clone()).expect("spec chunks are valid UTF-8");
                let via_char = beh[i].get("api").and_then(|x| x.as_str()) == Some("char");
                let r = guarded(|| if via_char { w.dw().write_char(s.chars().next().unwrap()) } else { w.dw().write_str(&s) });
                match r {
                    Err(p) => {
                        res = Some(json!({"step": i, "what": "panic in write_str", "panic": p, "chunk": chunk}));
                        break;
                    }
                    Ok(Err(_)) => {
                        res = Some(json!({"step": i, "what": "write_str returned Err", "chunk": chunk}));
                        break;
                    }
                    Ok(Ok(())) => {}
                }
                if let Writer::Caller { ctx, .. } = &mut w {
                    let want: Vec<(usize, bool, usize)> = match script {
                        Some(GrowScript::Ok(n)) => vec![(req, true, n)],
                        Some(GrowScript::Fail) => vec![(req, false, 0)],
                        None => vec![],
                    };
                    if ctx.grow_calls != want {
                        res = Some(json!({"step": i, "what": "grow() calls differ from the spec's",
                            "expected": format!("{:?}", want), "observed": format!("{:?}", ctx.grow_calls), "chunk": chunk}));
                        break;
                    }
                }
                if let Err(m) = w.memory_ok() {
                    res = Some(json!({"step": i, "what": m, "chunk": chunk}));
                    break;
                }
                let o = w.obs();
                if !same(&kind, &expect_obs(&last["st"]), &o) {
                    res = Some(json!({"step": j - 1, "what": "state after write_str", "chunk": chunk,
                        "expected": last["st"], "observed": obs_json(&o)}));
                    break;
                }
                i = j;
            }
            "Flush" => {
                let r = guarded(|| w.dw().flush());
                if let Err(p) = r {
                    res = Some(json!({"step": i, "what": "panic in flush", "panic": p}));
                    break;
                }
                if let Err(m) = w.memory_ok() {
                    res = Some(json!({"step": i, "what": format!("flush: {m}")}));
                    break;
                }
                let o = w.obs();
                if !same(&kind, &expect_obs(&beh[i]["st"]), &o) {
                    res = Some(json!({"step": i, "what": "state after flush", "expected": beh[i]["st"], "observed": obs_json(&o)}));
                    break;
                }
                let nul = beh[i]["nul"].as_u64().unwrap() as usize;
                if let Writer::Fixed { buf, .. } = &w {
                    // spec: buf[nul] = 0 (1-based) and nothing else changed
                    if buf.inner()[nul - 1] != 0 {
                        res = Some(json!({"step": i, "what": "fixed writer not NUL-terminated at len", "nul_index": nul,
                            "byte": buf.inner()[nul - 1]}));
                        break;
                    }
                }
                if let Writer::Caller { ctx, .. } = &w {
                    if ctx.flushes == 0 {
                        res = Some(json!({"step": i, "what": "flush callback not invoked"}));
                        break;
                    }
                }
                i += 1;
            }
            other => panic!("unexpected event {other} in behaviour"),
        }
    }
    w.destroy();
    res
}

pub fn replay(args: &[String]) -> i32 {
    let behs = read_ndjson(&args[0]);
    let mut out = Out::create(&args[1]);
    let mut n = 0usize;
    let mut bad = 0usize;
    for (k, b) in behs.iter().enumerate() {
        let beh = b.as_array().expect("behaviour is an array");
        n += 1;
        if let Some(mut m) = replay_one(beh) {
            bad += 1;
            m["beh"] = json!(k);
            m["behaviour"] = b.clone();
            out.line(&m);
        }
    }
    out.finish();
    println!("{{\"replayed\": {n}, \"mismatches\": {bad}}}");
    0
}

// ------------------------------------------------------------------------------------------
// record mode: random histories on the real runtime -> NDJSON for Trace_Write.tla

fn random_chunk(rng: &mut Rng) -> String {
    const ALPH: [&str; 9] = ["", "a", "bc", "xyz", "é", "€", "😀", "q€", "0123456789"];
    let mut s = String::new();
    let n = rng.below(3);
    for _ in 0..n {
        s.push_str(*rng.pick(&ALPH[..]));
    }
    if rng.chance(1, 4) {
        s = rng.pick(&ALPH[..]).to_string();
    }
    s
}

pub fn record(args: &[String]) -> i32 {
    let seed: u64 = args[0].parse().unwrap();
    let runs: usize = args[1].parse().unwrap();
    let mut out = Out::create(&args[2]);
    let mut rng = Rng::new(seed);
    let kinds = ["caller", "fixed", "rust_owned"];
    let mut nev = 0usize;
    let mut problems = vec![];
    for run in 0..runs {
        let kind = *rng.pick(&kinds);
        let cap = rng.below(7) as usize;      // 0 is what the JS, Dart and Kotlin runtimes (and an empty std::string) start with
        let mut events: Vec<Value> = vec![];
        crate::track::scoped_reset();
        let mut w = Writer::new(kind, cap);
        events.push(json!({"ev": "New", "kind": kind, "cap": cap}));
        if let Writer::Caller { ctx, .. } = &mut w {
            ctx.events = Some(&mut events as *mut Vec<Value>);
        }
        let nops = 1 + rng.below(7);
        for _ in 0..nops {
            if rng.chance(1, 6) {
                let r = guarded(|| w.dw().flush());
                let o = w.obs();
                let mut e = json!({"ev": "Flush", "len": o.len, "cap": o.cap, "failed": o.failed, "content": o.content,
                    "mem_ok": w.memory_ok().is_ok(), "panic": r.is_err(), "nulbyte": -1});
                if let Writer::Fixed { buf, .. } = &w {
                    if o.len < buf.inner().len() {
                        e["nulbyte"] = json!(buf.inner()[o.len]);
                    }
                }
                events.push(e);
                continue;
            }
            let s = random_chunk(&mut rng);
            // script for the caller's grow(): decided before the call, consumed only if grow is invoked
            if let Writer::Caller { ctx, raw } = &mut w {
                let needed = raw.len + s.len();
                ctx.script = Some(if rng.chance(1, 4) {
                    GrowScript::Fail
                } else if rng.chance(1, 2) {
                    GrowScript::Ok(needed)
                } else {
                    GrowScript::Ok(needed + 1 + rng.below(needed as u64 + 2) as usize)
                });
            }
            // single characters go through write_char half of the time
            let via_char = s.chars().count() == 1 && rng.chance(1, 2);
            events.push(json!({"ev": "WriteBegin", "chunk": s.as_bytes(), "api": if via_char { "char" } else { "str" }}));
            let r = guarded(|| crate::track::scoped(|| if via_char { w.dw().write_char(s.chars().next().unwrap()) } else { w.dw().write_str(&s) }));
            let o = w.obs();
            events.push(json!({"ev": "WriteEnd", "len": o.len, "cap": o.cap, "failed": o.failed, "content": o.content,
                "mem_ok": w.memory_ok().is_ok(), "panic": r.is_err(), "err": matches!(r, Ok(Err(_)))}));
            if kind == "rust_owned" {
                events.push(json!({"ev": "Acc", "null": o.null, "acclen": o.acclen}));
            }
        }
        if let Err(m) = w.memory_ok() {
            problems.push(json!({"run": run, "what": m}));
        }
        w.destroy();
        if kind == "rust_owned" {
            // everything the runtime allocated for this writer (create, growth) must have been released by destroy
            events.push(json!({"ev": "Destroy", "leaked": crate::track::scoped_live()}));
        }
        nev += events.len();
        for e in &events {
            out.line(e);
        }
    }
    out.finish();
    println!("{}", json!({"runs": runs, "events": nev, "problems": problems}));
    0
}
