//! In-process use of the public diplomat_core API: lowering (C05), borrow analysis (C04),
//! cfg-formula evaluation (C13).  A panic in code under test is data.
use crate::util::*;
use diplomat_core::hir::{self, BackendAttrSupport, BasicAttributeValidator, LoweringConfig, TypeContext};
use serde_json::{json, Value};

pub fn support_from(list: &Value) -> BackendAttrSupport {
    let mut a = BackendAttrSupport::default();
    for f in list.as_array().map(|v| v.as_slice()).unwrap_or(&[]) {
        match f.as_str().unwrap() {
            "namespacing" => a.namespacing = true,
            "memory_sharing" => a.memory_sharing = true,
            "non_exhaustive_structs" => a.non_exhaustive_structs = true,
            "method_overloading" => a.method_overloading = true,
            "utf8_strings" => a.utf8_strings = true,
            "utf16_strings" => a.utf16_strings = true,
            "static_slices" => a.static_slices = true,
            "constructors" => a.constructors = true,
            "named_constructors" => a.named_constructors = true,
            "fallible_constructors" => a.fallible_constructors = true,
            "accessors" => a.accessors = true,
            "static_accessors" => a.static_accessors = true,
            "stringifiers" => a.stringifiers = true,
            "comparators" => a.comparators = true,
            "iterators" => a.iterators = true,
            "iterables" => a.iterables = true,
            "indexing" => a.indexing = true,
            "arithmetic" => a.arithmetic = true,
            "option" => a.option = true,
            "callbacks" => a.callbacks = true,
            "traits" => a.traits = true,
            "custom_errors" => a.custom_errors = true,
            "traits_are_send" => a.traits_are_send = true,
            "traits_are_sync" => a.traits_are_sync = true,
            other => panic!("unknown feature {other}"),
        }
    }
    a
}

pub fn validator_from(profile: &Value) -> BasicAttributeValidator {
    let mut v = BasicAttributeValidator::new(profile["name"].as_str().unwrap());
    v.other_backend_names = profile["other"].as_array().map(|a| a.iter().map(|x| x.as_str().unwrap().to_string()).collect()).unwrap_or_default();
    v.support = support_from(&profile["supports"]);
    v
}

pub fn lower_src(src: &str, profile: &Value, urefs: bool) -> Result<Result<TypeContext, Vec<(String, String)>>, String> {
    let file: syn::File = match syn::parse_file(src) {
        Ok(f) => f,
        Err(e) => return Err(format!("syn parse error: {e}")),
    };
    let mut cfg = LoweringConfig::default();
    cfg.unsafe_references_in_callbacks = urefs;
    let validator = validator_from(profile);
    guarded(move || match TypeContext::from_syn(&file, cfg, validator) {
        Ok(t) => Ok(t),
        Err(es) => Err(es.into_iter().map(|(c, e)| (c.to_string(), e.to_string())).collect()),
    })
}

/// dv lower <in.ndjson> <out.ndjson>: each line {id, src, profile, urefs}
pub fn lower(args: &[String]) -> i32 {
    let cases = read_ndjson(&args[0]);
    let mut out = Out::create(&args[1]);
    for c in &cases {
        let r = lower_src(c["src"].as_str().unwrap(), &c["profile"], c["urefs"].as_bool().unwrap_or(false));
        let line = match r {
            Err(p) => json!({"id": c["id"], "ok": false, "panic": p, "errors": []}),
            Ok(Ok(_)) => json!({"id": c["id"], "ok": true, "panic": null, "errors": []}),
            Ok(Err(es)) => json!({"id": c["id"], "ok": false, "panic": null, "errors": es}),
        };
        out.line(&line);
    }
    out.finish();
    0
}

#[allow(unused)]
pub fn tcx_of(src: &str, profile: &Value) -> Option<hir::TypeContext> {
    lower_src(src, profile, false).ok().and_then(|r| r.ok())
}
