use serde_json::Value;
use std::io::{BufRead, BufReader, Write};

/// xorshift64* — all harness randomness derives from VERIF_SEED passed on the command line.
pub struct Rng(pub u64);
impl Rng {
    pub fn new(seed: u64) -> Self {
        Rng(seed.wrapping_mul(0x9E3779B97F4A7C15) ^ 0xD1B54A32D192ED03)
    }
    pub fn next(&mut self) -> u64 {
        let mut x = self.0;
        x ^= x >> 12;
        x ^= x << 25;
        x ^= x >> 27;
        self.0 = x;
        x.wrapping_mul(0x2545F4914F6CDD1D)
    }
    pub fn below(&mut self, n: u64) -> u64 {
        if n == 0 { 0 } else { self.next() % n }
    }
    pub fn chance(&mut self, num: u64, den: u64) -> bool {
        self.below(den) < num
    }
    pub fn pick<'a, T>(&mut self, v: &'a [T]) -> &'a T {
        &v[self.below(v.len() as u64) as usize]
    }
}

pub fn read_ndjson(path: &str) -> Vec<Value> {
    let f = std::fs::File::open(path).unwrap_or_else(|e| panic!("open {path}: {e}"));
    BufReader::new(f)
        .lines()
        .map(|l| l.unwrap())
        .filter(|l| !l.trim().is_empty())
        .map(|l| serde_json::from_str(&l).expect("bad json line"))
        .collect()
}

pub struct Out(std::io::BufWriter<std::fs::File>);
impl Out {
    pub fn create(path: &str) -> Self {
        Out(std::io::BufWriter::new(std::fs::File::create(path).unwrap_or_else(|e| panic!("create {path}: {e}"))))
    }
    pub fn line(&mut self, v: &Value) {
        serde_json::to_writer(&mut self.0, v).unwrap();
        self.0.write_all(b"\n").unwrap();
    }
    pub fn finish(mut self) {
        self.0.flush().unwrap();
    }
}

pub fn bytes_of(v: &Value) -> Vec<u8> {
    v.as_array().map(|a| a.iter().map(|x| x.as_u64().unwrap() as u8).collect()).unwrap_or_default()
}

/// Run `f`, turning a panic in code under test into data.
pub fn guarded<T>(f: impl FnOnce() -> T) -> Result<T, String> {
    let prev = std::panic::take_hook();
    std::panic::set_hook(Box::new(|_| {}));
    let r = std::panic::catch_unwind(std::panic::AssertUnwindSafe(f));
    std::panic::set_hook(prev);
    r.map_err(|e| {
        if let Some(s) = e.downcast_ref::<String>() {
            s.clone()
        } else if let Some(s) = e.downcast_ref::<&str>() {
            s.to_string()
        } else {
            "panic".to_string()
        }
    })
}
