//! C16 — slice/string views and the exported UTF-8 check (spec/slices).
use crate::track;
use crate::util::*;
use diplomat_runtime::*;
use serde_json::{json, Value};

extern "C" {
    fn diplomat_is_str(ptr: *const u8, size: usize) -> bool;
}

// ---------------------------------------------------------------------------- UTF-8 table ---
struct Dfa {
    class_of: [u8; 256],
    delta: Vec<[u8; 16]>, // state x class -> state ; state 0 = start, last = bad
}

fn load_dfa(path: &str) -> Dfa {
    let v: Value = serde_json::from_str(&std::fs::read_to_string(path).unwrap()).unwrap();
    let range = v["range"].as_object().unwrap();
    let classes: Vec<&String> = range.keys().collect();
    assert!(classes.len() <= 16);
    let mut class_of = [255u8; 256];
    for (ci, c) in classes.iter().enumerate() {
        let lo = range[*c][0].as_u64().unwrap() as usize;
        let hi = range[*c][1].as_u64().unwrap() as usize;
        for b in lo..=hi {
            assert_eq!(class_of[b], 255, "classes overlap");
            class_of[b] = ci as u8;
        }
    }
    assert!(class_of.iter().all(|c| *c != 255), "classes do not cover all bytes");
    let delta_o = v["delta"].as_object().unwrap();
    let mut states: Vec<String> = vec!["start".into()];
    for k in delta_o.keys() {
        if k != "start" {
            states.push(k.clone());
        }
    }
    states.push("bad".into());
    let bad = states.len() - 1;
    let mut delta = vec![[bad as u8; 16]; states.len()];
    for (si, s) in states.iter().enumerate() {
        if s == "bad" {
            continue;
        }
        for (ci, c) in classes.iter().enumerate() {
            let t = delta_o[s][*c].as_str().unwrap();
            delta[si][ci] = states.iter().position(|x| x == t).unwrap() as u8;
        }
    }
    Dfa { class_of, delta }
}

impl Dfa {
    #[inline]
    fn accepts(&self, bytes: &[u8]) -> bool {
        let mut s = 0u8;
        for b in bytes {
            s = self.delta[s as usize][self.class_of[*b as usize] as usize];
        }
        s == 0
    }
}

fn real(bytes: &[u8]) -> bool {
    unsafe { diplomat_is_str(bytes.as_ptr(), bytes.len()) }
}

pub fn utf8(args: &[String]) -> i32 {
    let dfa = load_dfa(&args[0]);
    let tier = args[1].as_str();
    let seed: u64 = args[2].parse().unwrap();
    let mut out = Out::create(&args[3]);
    let mut evals: u64 = 0;
    let mut valid: u64 = 0;
    let mut bad: u64 = 0;
    let mut report = |b: &[u8], spec: bool, imp: bool, out: &mut Out, bad: &mut u64| {
        *bad += 1;
        if *bad <= 50 {
            out.line(&json!({"bytes": b, "spec": spec, "impl": imp}));
        }
    };
    // all byte strings of length <= 3
    let mut buf = [0u8; 4];
    {
        let e = dfa.accepts(&[]);
        let r = real(&[]);
        evals += 1;
        if e != r {
            report(&[], e, r, &mut out, &mut bad);
        }
    }
    {
        // the C-land empty string: NULL with length 0 (what a default-constructed std::string_view passes)
        let r = unsafe { diplomat_is_str(core::ptr::null(), 0) };
        evals += 1;
        if !r {
            out.line(&json!({"bytes": [], "null": true, "spec": true, "impl": r}));
            bad += 1;
        }
    }
    for len in 1..=3usize {
        let total: u32 = 1 << (8 * len);
        for x in 0..total {
            for i in 0..len {
                buf[i] = (x >> (8 * i)) as u8;
            }
            let e = dfa.accepts(&buf[..len]);
            let r = real(&buf[..len]);
            evals += 1;
            valid += e as u64;
            if e != r {
                report(&buf[..len], e, r, &mut out, &mut bad);
            }
        }
    }
    // all 4-byte strings starting with a 4-byte lead (F0..F7)
    for lead in 0xF0u32..=0xF7 {
        buf[0] = lead as u8;
        for x in 0..(1u32 << 24) {
            buf[1] = x as u8;
            buf[2] = (x >> 8) as u8;
            buf[3] = (x >> 16) as u8;
            let e = dfa.accepts(&buf);
            let r = real(&buf);
            evals += 1;
            valid += e as u64;
            if e != r {
                report(&buf, e, r, &mut out, &mut bad);
            }
        }
    }
    // position independence: an implementation may process the input in blocks (words, SIMD lanes); the verdict on
    // ASCII^n . fragment . ASCII^m must still be the verdict of the automaton, wherever the fragment falls relative to
    // 8/16/32-byte boundaries.  Fragments: EVERY 1- and 2-byte string, and every 3-byte string with a 3/4-byte lead.
    let mut embedded: u64 = 0;
    {
        let mut long = [b'a'; 96];
        let ns: &[usize] = if tier == "quick" { &[0, 7, 8, 9, 15, 16, 17, 31, 32, 33] } else { &[0, 1, 3, 7, 8, 9, 13, 15, 16, 17, 23, 24, 25, 31, 32, 33, 47, 63, 64, 65] };
        let ms: &[usize] = if tier == "quick" { &[0, 1, 7, 8] } else { &[0, 1, 2, 3, 6, 7, 8, 9, 15] };
        let mut check = |frag: &[u8], out: &mut Out, bad: &mut u64, evals: &mut u64| {
            for &n in ns {
                for &m in ms {
                    for b in long.iter_mut() { *b = b'a'; }
                    long[n..n + frag.len()].copy_from_slice(frag);
                    let whole = &long[..n + frag.len() + m];
                    let e = dfa.accepts(whole);
                    let r = real(whole);
                    *evals += 1;
                    if e != r {
                        report(whole, e, r, out, bad);
                    }
                }
            }
        };
        for x in 0..=0xFFu32 {
            check(&[x as u8], &mut out, &mut bad, &mut evals);
            embedded += 1;
        }
        for x in 0..=0xFFFFu32 {
            check(&[x as u8, (x >> 8) as u8], &mut out, &mut bad, &mut evals);
            embedded += 1;
        }
        let step = if tier == "quick" { 7 } else { 1 };
        for lead in 0xE0u32..=0xF7 {
            let mut x = 0u32;
            while x <= 0xFFFF {
                check(&[lead as u8, x as u8, (x >> 8) as u8], &mut out, &mut bad, &mut evals);
                embedded += 1;
                x += step;
            }
        }
    }
    // near-valid longer strings: valid text with point mutations / truncations / splices
    let mut rng = Rng::new(seed);
    let n_rand: u64 = if tier == "quick" { 300_000 } else { 6_000_000 };
    let pool: Vec<char> = vec!['a', 'Z', '\u{7f}', '\u{80}', 'é', '\u{7ff}', '\u{800}', '€', '\u{d7ff}', '\u{e000}', '\u{fffd}',
        '\u{ffff}', '\u{10000}', '😀', '\u{10ffff}', '\0'];
    let mut nearvalid_invalid = 0u64;
    for _ in 0..n_rand {
        let mut s = String::new();
        for _ in 0..(1 + rng.below(6)) {
            s.push(*rng.pick(&pool));
        }
        let mut b = s.into_bytes();
        match rng.below(6) {
            0 => {}
            1 => {
                let i = rng.below(b.len() as u64) as usize;
                b[i] = rng.next() as u8;
            }
            2 => {
                let i = rng.below(b.len() as u64) as usize;
                b[i] ^= 1 << rng.below(8);
            }
            3 => {
                let k = rng.below(b.len() as u64) as usize;
                b.truncate(k);
            }
            4 => {
                let i = rng.below(b.len() as u64 + 1) as usize;
                b.insert(i, [0x80, 0xBF, 0xC0, 0xC1, 0xED, 0xF4, 0xF5, 0xFF, 0xE0, 0xF0][rng.below(10) as usize]);
            }
            _ => {
                let i = rng.below(b.len() as u64) as usize;
                b.remove(i);
            }
        }
        let e = dfa.accepts(&b);
        let r = real(&b);
        evals += 1;
        if !e {
            nearvalid_invalid += 1;
        }
        if e != r {
            report(&b, e, r, &mut out, &mut bad);
        }
    }
    out.finish();
    println!("{}", json!({"evaluations": evals, "valid_exhaustive": valid, "mismatches": bad, "random": n_rand,
        "random_invalid": nearvalid_invalid, "embedded_fragments": embedded}));
    0
}

// ---------------------------------------------------------------------------- views ---------
#[repr(C)]
struct RawView<T> {
    ptr: *mut T,
    len: usize,
}

pub trait Elem: Copy + PartialEq + 'static {
    const NAME: &'static str;
    fn mk(v: u64) -> Self;
    fn get(self) -> u64;
}
macro_rules! elem_int { ($($t:ty),*) => { $(impl Elem for $t { const NAME: &'static str = stringify!($t);
    fn mk(v: u64) -> Self { v as $t } fn get(self) -> u64 { self as u64 } })* } }
elem_int!(u8, i8, u16, i16, u32, i32, u64, i64, usize, isize);
impl Elem for f32 {
    const NAME: &'static str = "f32";
    fn mk(v: u64) -> Self { v as f32 }
    fn get(self) -> u64 { self as u64 }
}
impl Elem for f64 {
    const NAME: &'static str = "f64";
    fn mk(v: u64) -> Self { v as f64 }
    fn get(self) -> u64 { self as u64 }
}

/// An element wider than its alignment (16 bytes, aligned to 8) -- the shape of the string views inside `&[DiplomatStrSlice]`.
/// Borrowed buffers of it are placed at addresses that are a multiple of the alignment but NOT of the size.
#[repr(C)]
#[derive(Copy, Clone, PartialEq, Debug)]
pub struct View16 {
    p: u64,
    l: u64,
}
impl Elem for View16 {
    const NAME: &'static str = "view16";
    fn mk(v: u64) -> Self { View16 { p: v, l: !v } }
    fn get(self) -> u64 { if self.l == !self.p { self.p } else { u64::MAX } }
}

#[derive(Debug)]
struct Seen {
    ptr: &'static str, // "null" | "dangling" | "A" | "other"
    len: usize,
    contents: Vec<u64>,
}

/// the live backing allocation of the current behaviour: (address, number of elements, element size)
static mut BASE: (usize, usize, usize) = (0, 0, 0);
fn classify<T>(p: *const T, len: usize, _orig: *const T) -> &'static str {
    let (b, n, sz) = unsafe { BASE };
    if p.is_null() {
        "null"
    } else if n > 0 && p as usize == b {
        "A"
    } else if n > 0 && p as usize == b + sz {
        "A+1" // one element into the allocation (sub-range views; also the empty range there)
    } else if len > 0 {
        "other"
    } else {
        "dangling" // empty, non-null, outside any allocation: never dereferenced
    }
}

enum Held<T: Elem> {
    None,
    RustImm(*const [T]),
    RustMut(*mut [T]),
    RustOwn(Box<[T]>),
    RustStr(*const str),
    RustOwnStr(Box<str>),
    FfiImm(DiplomatSlice<'static, T>),
    FfiMut(DiplomatSliceMut<'static, T>),
    FfiOwn(DiplomatOwnedSlice<T>),
    FfiStr(DiplomatUtf8StrSlice<'static>),
    FfiOwnStr(DiplomatOwnedUTF8StrSlice),
}

unsafe fn raw_of<V, T>(v: &V) -> (*const T, usize) {
    assert_eq!(core::mem::size_of::<V>(), core::mem::size_of::<RawView<T>>());
    let r = &*(v as *const V as *const RawView<T>);
    (r.ptr as *const T, r.len)
}
unsafe fn null_view<V, T>() -> V {
    assert_eq!(core::mem::size_of::<V>(), core::mem::size_of::<RawView<T>>());
    let r = RawView::<T> { ptr: core::ptr::null_mut(), len: 0 };
    core::mem::transmute_copy::<RawView<T>, V>(&r)
}

fn run_views_one<T: Elem>(beh: &[Value]) -> Option<Value> {
    track::layout_check_start();
    let r = run_views_inner::<T>(beh);
    let (bad, want, got) = track::layout_check_stop();
    if r.is_none() && bad > 0 {
        return Some(json!({"step": beh.len(), "op": "drop", "what": "memory released with a layout different from the one it was allocated with",
            "allocated_size": want, "released_size": got, "mismatches": bad}));
    }
    r
}

fn run_views_inner<T: Elem>(beh: &[Value]) -> Option<Value> {
    track::reset();
    unsafe { BASE = (0, 0, 0); }
    let mut backing: Option<Vec<T>> = None; // owner of borrowed data
    let mut backing_words: Option<Vec<u64>> = None; // owner of borrowed data placed off the element size
    let mut held: Held<T> = Held::None;
    let mut orig: *const T = core::ptr::null();
    let mut slot: Option<usize> = None;
    let mut frees_before = 0usize;
    let mut scratch: Option<(*mut u8, usize, usize)> = None;
    let mut scratch_bad: Option<Value> = None;
    for (i, ev) in beh.iter().enumerate() {
        let op = ev["op"].as_str().unwrap();
        let exp_ptr = ev["ptr"].as_str().unwrap();
        let exp_len = ev["len"].as_u64().unwrap() as usize;
        let exp_contents: Vec<u64> = ev["contents"].as_array().unwrap().iter().map(|x| x.as_u64().unwrap()).collect();
        let r = guarded(|| -> Result<Option<Seen>, String> {
            unsafe {
                match op {
                    "RustMake" => {
                        let k = ev["k"].as_str().unwrap();
                        let n = ev["n"].as_u64().unwrap() as usize;
                        let data: Vec<T> = (1..=n as u64).map(|j| T::mk(64 + j)).collect();
                        match k {
                            "imm" | "mut" if core::mem::size_of::<T>() > core::mem::align_of::<T>() => {
                                // valid alignment, but not a multiple of the element size (a C stack array, an array behind an 8-byte field)
                                let (sz, al) = (core::mem::size_of::<T>(), core::mem::align_of::<T>());
                                let mut w: Vec<u64> = vec![0u64; (n + 2) * sz / 8];
                                let base = w.as_mut_ptr() as usize;
                                let p0 = (if base % sz == 0 { base + al } else { base }) as *mut T;
                                assert!(p0 as usize % al == 0 && p0 as usize % sz != 0);
                                for (j, x) in data.iter().enumerate() { p0.add(j).write(*x); }
                                orig = p0;
                                BASE = (p0 as usize, n, sz);
                                if n > 0 {
                                    slot = Some(track::watch(w.as_ptr()));
                                }
                                let p: *mut [T] = match ev.get("sub").and_then(|x| x.as_u64()) {
                                    Some(m) => { orig = p0.add(1); core::ptr::slice_from_raw_parts_mut(p0.add(1), m as usize) }
                                    None => core::ptr::slice_from_raw_parts_mut(p0, n),
                                };
                                backing_words = Some(w);
                                held = if k == "imm" { Held::RustImm(p as *const [T]) } else { Held::RustMut(p) };
                            }
                            "imm" | "mut" | "str" => {
                                let mut v = data;
                                v.shrink_to_fit();
                                orig = v.as_ptr();
                                BASE = (v.as_ptr() as usize, n, core::mem::size_of::<T>());
                                if n > 0 {
                                    slot = Some(track::watch(v.as_ptr()));
                                }
                                // "sub": the value is the sub-range [1, 1+m) of the buffer (m may be 0)
                                let p: *mut [T] = match ev.get("sub").and_then(|x| x.as_u64()) {
                                    Some(m) => { orig = v.as_ptr().add(1); &mut v[1..1 + m as usize] as *mut [T] }
                                    None => &mut v[..] as *mut [T],
                                };
                                backing = Some(v);
                                held = match k {
                                    "imm" => Held::RustImm(p as *const [T]),
                                    "mut" => Held::RustMut(p),
                                    _ => Held::RustStr(core::str::from_utf8_unchecked(&*(p as *const [u8])) as *const str),
                                };
                            }
                            "own" => {
                                let b: Box<[T]> = data.into_boxed_slice();
                                orig = b.as_ptr();
                                BASE = (b.as_ptr() as usize, n, core::mem::size_of::<T>());
                                if n > 0 {
                                    slot = Some(track::watch(b.as_ptr()));
                                }
                                held = Held::RustOwn(b);
                            }
                            "ownstr" => {
                                let bytes: Vec<u8> = (1..=n as u64).map(|j| (64 + j) as u8).collect();
                                let b: Box<str> = String::from_utf8(bytes).unwrap().into_boxed_str();
                                orig = b.as_ptr() as *const T;
                                BASE = (b.as_ptr() as usize, n, 1);
                                if n > 0 {
                                    slot = Some(track::watch(b.as_ptr()));
                                }
                                held = Held::RustOwnStr(b);
                            }
                            _ => return Err(format!("kind {k}")),
                        }
                        Ok(Some(see_rust(&held, orig)))
                    }
                    "ForeignMake" => {
                        // foreign code builds an owned view in memory from diplomat_alloc (the way JS and C pass a Box<[T]>)
                        let k = ev["k"].as_str().unwrap();
                        let n = ev["n"].as_u64().unwrap() as usize;
                        if k == "ownstr" {
                            let p = diplomat_runtime::diplomat_alloc(n, 1);
                            for j in 0..n { *p.add(j) = (65 + j) as u8; }
                            orig = p as *const T;
                            BASE = (p as usize, n, 1);
                            slot = Some(track::watch(p));
                            let r = RawView::<u8> { ptr: p, len: n };
                            held = Held::FfiOwnStr(core::mem::transmute_copy::<RawView<u8>, DiplomatOwnedUTF8StrSlice>(&r));
                        } else {
                            let p = diplomat_runtime::diplomat_alloc(n * core::mem::size_of::<T>(), core::mem::align_of::<T>()) as *mut T;
                            for j in 0..n { *p.add(j) = T::mk(65 + j as u64); }
                            orig = p;
                            BASE = (p as usize, n, core::mem::size_of::<T>());
                            slot = Some(track::watch(p));
                            let r = RawView::<T> { ptr: p, len: n };
                            held = Held::FfiOwn(core::mem::transmute_copy::<RawView<T>, DiplomatOwnedSlice<T>>(&r));
                        }
                        Ok(Some(see_ffi(&held, orig)))
                    }
                    "ForeignAlloc" => {
                        let n = ev["n"].as_u64().unwrap() as usize;
                        let (size, align) = (n * core::mem::size_of::<T>(), core::mem::align_of::<T>());
                        let p = diplomat_runtime::diplomat_alloc(size, align) as *mut T;
                        if p.is_null() || (p as usize) % align != 0 {
                            return Ok(Some(Seen { ptr: "other", len: 0, contents: vec![] })); // reported as a state difference
                        }
                        for j in 0..n { *p.add(j) = T::mk(7 + j as u64); }
                        for j in 0..n { if (*p.add(j)).get() != 7 + j as u64 { return Ok(Some(Seen { ptr: "other", len: n, contents: vec![] })); } }
                        scratch = Some((p as *mut u8, size, align));
                        Ok(Some(Seen { ptr: "null", len: 0, contents: vec![] }))
                    }
                    "ForeignFree" => {
                        let (p, size, align) = scratch.take().ok_or("ForeignFree without a buffer")?;
                        let ((), unknown, badlay) = track::strict(|| diplomat_runtime::diplomat_free(p, size, align));
                        if unknown > 0 || badlay > 0 {
                            scratch_bad = Some(json!({"what": "diplomat_free releases something diplomat_alloc did not hand out (invalid free)",
                                "size": size, "align": align, "never_allocated": unknown, "other_layout": badlay}));
                        }
                        Ok(Some(Seen { ptr: "null", len: 0, contents: vec![] }))
                    }
                    "ForeignNull" => {
                        let k = ev["k"].as_str().unwrap();
                        held = match k {
                            "imm" => Held::FfiImm(null_view::<_, T>()),
                            "mut" => Held::FfiMut(null_view::<_, T>()),
                            "own" => Held::FfiOwn(null_view::<_, T>()),
                            "str" => Held::FfiStr(null_view::<_, u8>()),
                            "ownstr" => Held::FfiOwnStr(null_view::<_, u8>()),
                            _ => return Err(format!("kind {k}")),
                        };
                        Ok(Some(see_ffi(&held, orig)))
                    }
                    "Export" => {
                        held = match std::mem::replace(&mut held, Held::None) {
                            Held::RustImm(p) => Held::FfiImm(DiplomatSlice::from(&*p)),
                            Held::RustMut(p) => Held::FfiMut(DiplomatSliceMut::from(&mut *p)),
                            Held::RustOwn(b) => Held::FfiOwn(DiplomatOwnedSlice::from(b)),
                            Held::RustStr(p) => Held::FfiStr(DiplomatUtf8StrSlice::from(&*p)),
                            Held::RustOwnStr(b) => Held::FfiOwnStr(DiplomatOwnedUTF8StrSlice::from(b)),
                            _ => return Err("Export without a Rust value".into()),
                        };
                        Ok(Some(see_ffi(&held, orig)))
                    }
                    "Import" => {
                        held = match std::mem::replace(&mut held, Held::None) {
                            Held::FfiImm(v) => Held::RustImm(<&[T]>::from(v) as *const [T]),
                            Held::FfiMut(v) => Held::RustMut(<&mut [T]>::from(v) as *mut [T]),
                            Held::FfiOwn(v) => Held::RustOwn(Box::<[T]>::from(v)),
                            Held::FfiStr(v) => Held::RustStr(<&str>::from(v) as *const str),
                            Held::FfiOwnStr(v) => Held::RustOwnStr(Box::<str>::from(v)),
                            _ => return Err("Import without a view".into()),
                        };
                        Ok(Some(see_rust(&held, orig)))
                    }
                    "ReadView" => {
                        // Deref of the view type itself
                        let (s, l): (Vec<u64>, usize) = match &held {
                            Held::FfiImm(v) => (v.iter().map(|x| x.get()).collect(), v.len()),
                            Held::FfiMut(v) => (v.iter().map(|x| x.get()).collect(), v.len()),
                            Held::FfiOwn(v) => (v.iter().map(|x| x.get()).collect(), v.len()),
                            Held::FfiStr(v) => (v.bytes().map(|x| x as u64).collect(), v.len()),
                            Held::FfiOwnStr(v) => (v.bytes().map(|x| x as u64).collect(), v.len()),
                            _ => return Err("ReadView without a view".into()),
                        };
                        // mutable views are also read through DerefMut (its NULL arm is separate code)
                        let lm = match &mut held {
                            Held::FfiMut(v) => v.iter_mut().count(),
                            Held::FfiOwn(v) => v.iter_mut().count(),
                            _ => l,
                        };
                        // the slice a view dereferences to is a Rust REFERENCE: its data pointer is never NULL, also for a {NULL, 0} view
                        // (a NULL inside a reference is invisible to is_empty()/iteration, but `Some(slice)` reads back as `None`)
                        let null_ref = match &mut held {
                            Held::FfiImm(v) => { let r: &[T] = &**v; r.as_ptr().is_null() || Some(r).is_none() }
                            Held::FfiMut(v) => {
                                let a = { let r: &[T] = &**v; r.as_ptr().is_null() || Some(r).is_none() };
                                let b = { let r: &mut [T] = &mut **v; r.as_ptr().is_null() };
                                a || b
                            }
                            Held::FfiOwn(v) => {
                                let a = { let r: &[T] = &**v; r.as_ptr().is_null() };
                                let b = { let r: &mut [T] = &mut **v; r.as_ptr().is_null() };
                                a || b
                            }
                            Held::FfiStr(v) => { let r: &str = &**v; r.as_ptr().is_null() }
                            Held::FfiOwnStr(v) => { let r: &str = &**v; r.as_ptr().is_null() }
                            _ => false,
                        };
                        let mut seen = see_ffi(&held, orig);
                        seen.contents = s;
                        seen.len = if lm != l { lm } else { l }; // a DerefMut that disagrees with Deref shows as a state difference
                        if null_ref {
                            seen.ptr = "NULL inside a reference";
                        }
                        Ok(Some(seen))
                    }
                    "WriteView" => {
                        let idx = ev["i"].as_u64().unwrap() as usize - 1;
                        match &mut held {
                            Held::FfiMut(v) => v[idx] = T::mk(99),
                            Held::FfiOwn(v) => v[idx] = T::mk(99),
                            _ => return Err("WriteView on a non-mutable view".into()),
                        }
                        Ok(Some(see_ffi(&held, orig)))
                    }
                    "DropOwned" | "EndBorrow" => {
                        frees_before = slot.map(track::frees).unwrap_or(0);
                        held = Held::None; // drops Box / owned view; borrowed kinds hold raw pointers only
                        if op == "EndBorrow" {
                            backing = None;
                            backing_words = None;
                        }
                        Ok(None)
                    }
                    _ => Err(format!("op {op}")),
                }
            }
        });
        match r {
            Err(p) => return Some(json!({"step": i, "op": op, "what": "panic", "panic": p})),
            Ok(Err(e)) => panic!("harness error: {e}"),
            Ok(Ok(Some(seen))) => {
                if let Some(mut m) = scratch_bad.take() {
                    m["step"] = json!(i);
                    m["op"] = json!(op);
                    return Some(m);
                }
                if seen.ptr != exp_ptr || seen.len != exp_len || seen.contents != exp_contents {
                    return Some(json!({"step": i, "op": op, "what": "view state differs",
                        "expected": {"ptr": exp_ptr, "len": exp_len, "contents": exp_contents},
                        "observed": {"ptr": seen.ptr, "len": seen.len, "contents": seen.contents}}));
                }
            }
            Ok(Ok(None)) => {
                let freed_exp = ev["freed"].as_bool().unwrap();
                let now = slot.map(track::frees).unwrap_or(0);
                let freed = now - frees_before;
                if freed != freed_exp as usize {
                    return Some(json!({"step": i, "op": op, "what": "allocation release count differs",
                        "expected_frees": freed_exp as usize, "observed_frees": freed}));
                }
            }
        }
    }
    drop(backing);
    drop(backing_words);
    if let Some(s) = slot {
        if track::frees(s) != 1 {
            return Some(json!({"step": beh.len(), "what": "allocation not released exactly once at the end", "frees": track::frees(s)}));
        }
    }
    None
}

unsafe fn see_rust<T: Elem>(h: &Held<T>, orig: *const T) -> Seen {
    let (p, l, c): (*const T, usize, Vec<u64>) = match h {
        Held::RustImm(p) => { let r: &[T] = &**p; (r.as_ptr(), r.len(), r.iter().map(|x| x.get()).collect()) }
        Held::RustMut(p) => { let r: &[T] = &**p; (r.as_ptr(), r.len(), r.iter().map(|x| x.get()).collect()) }
        Held::RustOwn(b) => (b.as_ptr(), b.len(), b.iter().map(|x| x.get()).collect()),
        Held::RustStr(p) => { let r: &str = &**p; (r.as_ptr() as *const T, r.len(), r.bytes().map(|x| x as u64).collect()) }
        Held::RustOwnStr(b) => (b.as_ptr() as *const T, b.len(), b.bytes().map(|x| x as u64).collect()),
        _ => panic!("no rust value"),
    };
    Seen { ptr: classify(p, l, orig), len: l, contents: c }
}
unsafe fn see_ffi<T: Elem>(h: &Held<T>, orig: *const T) -> Seen {
    let (p, l): (*const T, usize) = match h {
        Held::FfiImm(v) => raw_of::<_, T>(v),
        Held::FfiMut(v) => raw_of::<_, T>(v),
        Held::FfiOwn(v) => raw_of::<_, T>(v),
        Held::FfiStr(v) => { let (p, l) = raw_of::<_, u8>(v); (p as *const T, l) }
        Held::FfiOwnStr(v) => { let (p, l) = raw_of::<_, u8>(v); (p as *const T, l) }
        _ => panic!("no view"),
    };
    // contents as seen by foreign code reading ptr[0..len]
    let c: Vec<u64> = if p.is_null() || l == 0 {
        vec![]
    } else {
        match h {
            Held::FfiStr(_) | Held::FfiOwnStr(_) => core::slice::from_raw_parts(p as *const u8, l).iter().map(|x| *x as u64).collect(),
            _ => core::slice::from_raw_parts(p, l).iter().map(|x| x.get()).collect(),
        }
    };
    Seen { ptr: classify(p, l, orig), len: l, contents: c }
}

pub fn views(args: &[String]) -> i32 {
    let behs = read_ndjson(&args[0]);
    let mut out = Out::create(&args[1]);
    let mut n = 0u64;
    let mut bad = 0u64;
    macro_rules! each { ($($t:ty),*) => { $(
        for b in &behs {
            let beh = b.as_array().unwrap();
            // string kinds exist for bytes only
            let strs = beh.iter().any(|e| matches!(e["k"].as_str(), Some("str") | Some("ownstr")));
            if strs && <$t as Elem>::NAME != "u8" { continue; }
            n += 1;
            if let Some(mut m) = run_views_one::<$t>(beh) {
                bad += 1;
                m["elem"] = json!(<$t as Elem>::NAME);
                m["behaviour"] = b.clone();
                if bad <= 200 { out.line(&m); }
            }
        }
    )* } }
    each!(u8, i8, u16, i16, u32, i32, u64, i64, usize, isize, f32, f64, View16);
    // the same Export / ReadView / Import steps of SliceView.tla on strings whose BYTE length differs from their character count
    // (the behaviours above use ASCII contents): pointer, length in bytes and contents survive both directions
    for s in ["h\u{e9}llo", "\u{e9}", "a\u{1f600}", "\u{20ac}\u{20ac}x", "gr\u{fc}\u{df} dich", "\u{10348}"] {
        let owned: Box<str> = s.into();
        let checks: [(&str, usize, *const u8, Vec<u8>); 2] = {
            let v = DiplomatUtf8StrSlice::from(&*owned);
            let via_deref: &str = &v;
            let a = ("Export+ReadView (borrowed)", via_deref.len(), via_deref.as_ptr(), via_deref.as_bytes().to_vec());
            let back: &str = <&str>::from(DiplomatUtf8StrSlice::from(&*owned));
            let b = ("Export+Import (borrowed)", back.len(), back.as_ptr(), back.as_bytes().to_vec());
            [a, b]
        };
        for (what, len, ptr, bytes) in checks {
            n += 1;
            if len != s.len() || ptr != owned.as_ptr() || bytes != s.as_bytes() {
                bad += 1;
                out.line(&json!({"step": 1, "op": what, "what": "non-ASCII string changed on its way through the view", "elem": "str",
                                 "expected": {"len": s.len(), "contents": s.as_bytes()}, "observed": {"len": len, "contents": bytes, "same_pointer": ptr == owned.as_ptr()}}));
            }
        }
        let p0 = owned.as_ptr();
        let ov = DiplomatOwnedUTF8StrSlice::from(owned);
        let (l1, same1) = { let r: &str = &ov; (r.len(), r.as_ptr() == p0) };
        let b2: Box<str> = ov.into();
        n += 1;
        if l1 != s.len() || !same1 || &*b2 != s || b2.as_ptr() != p0 {
            bad += 1;
            out.line(&json!({"step": 1, "op": "Export+Import (owned)", "what": "non-ASCII string changed on its way through the view", "elem": "str",
                             "expected": {"len": s.len()}, "observed": {"len": l1, "same_pointer": same1, "back": &*b2}}));
        }
    }
    out.finish();
    println!("{}", json!({"replayed": n, "mismatches": bad}));
    0
}
