//! C04 — borrow edges reported by the real analysis (Method::borrowing_param_visitor) for every
//! method `m` of every type `H<n>` of a rendered module.
use crate::lower::lower_src;
use crate::util::*;
use diplomat_core::hir::{self, borrowing_param::LifetimeEdgeKind, TypeDef};
use serde_json::{json, Map, Value};

/// dv c04-edges <in.ndjson> <out.ndjson>: lines {id, src, profile}; output per line:
/// {id, ok, errors:[[ctx,msg]], panic, methods: {"H3": {"a": [[param,kind,def],..], ...} | {"panic": msg}}}
pub fn edges(args: &[String]) -> i32 {
    let cases = read_ndjson(&args[0]);
    let mut out = Out::create(&args[1]);
    for c in &cases {
        let force_slices = c["force_slices"].as_bool().unwrap_or(false);
        let line = match lower_src(c["src"].as_str().unwrap(), &c["profile"], false) {
            Err(p) => json!({"id": c["id"], "ok": false, "panic": p, "errors": [], "methods": {}}),
            Ok(Err(es)) => json!({"id": c["id"], "ok": false, "panic": null, "errors": es, "methods": {}}),
            Ok(Ok(tcx)) => {
                let mut methods = Map::new();
                for (_, ty) in tcx.all_types() {
                    let tname = ty.name().as_str().to_string();
                    if !tname.starts_with('H') {
                        continue;
                    }
                    for m in ty.methods() {
                        let r = guarded(|| method_edges(&tcx, m, force_slices));
                        methods.insert(tname.clone(), match r {
                            Ok(v) => v,
                            Err(p) => json!({"panic": p}),
                        });
                    }
                }
                let _ = matches!(TypeDef::Opaque, _);
                json!({"id": c["id"], "ok": true, "panic": null, "errors": [], "methods": methods})
            }
        };
        out.line(&line);
    }
    out.finish();
    0
}

fn method_edges(tcx: &hir::TypeContext, m: &hir::Method, force_slices: bool) -> Value {
    let mut v = m.borrowing_param_visitor(tcx, force_slices);
    if let Some(s) = &m.param_self {
        v.visit_param(&s.ty.clone().into(), "self");
    }
    for p in &m.params {
        v.visit_param(&p.ty, p.name.as_str());
    }
    let mut o = Map::new();
    for (lt, info) in v.borrow_map() {
        let name = m.lifetime_env.fmt_lifetime(lt).to_string();
        let mut es = vec![];
        for e in &info.incoming_edges {
            let (kind, def) = match e.kind {
                LifetimeEdgeKind::OpaqueParam => ("opaque", "-".to_string()),
                LifetimeEdgeKind::SliceParam => ("slice", "-".to_string()),
                LifetimeEdgeKind::StructLifetime(env, def_lt, _opt) => ("struct", env.fmt_lifetime(def_lt).to_string()),
                _ => ("unknown", "-".to_string()),
            };
            es.push(json!([e.param_name, kind, def]));
        }
        o.insert(name, Value::Array(es));
    }
    Value::Object(o)
}
