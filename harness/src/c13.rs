//! C13 — truth table of #[diplomat::attr(<cfg>, ..)] conditions: real parser + real satisfies_cfg.
use crate::lower::validator_from;
use crate::util::*;
use diplomat_core::ast::attrs::DiplomatBackendAttrCfg;
use diplomat_core::hir::AttributeValidator;
use serde_json::{json, Value};

/// dv c13-eval <profiles.json> <in.ndjson> <out.ndjson>; lines {id, cfg: "<formula text>"}
pub fn eval(args: &[String]) -> i32 {
    let profiles: Value = serde_json::from_str(&std::fs::read_to_string(&args[0]).unwrap()).unwrap();
    let cases = read_ndjson(&args[1]);
    let mut out = Out::create(&args[2]);
    let backends: Vec<(String, _)> = profiles.as_object().unwrap().iter().map(|(b, p)| (b.clone(), validator_from(p))).collect();
    for c in &cases {
        let text = c["cfg"].as_str().unwrap();
        let parsed = guarded(|| syn::parse_str::<DiplomatBackendAttrCfg>(text));
        let line = match parsed {
            Err(p) => json!({"id": c["id"], "parse": "panic", "msg": p}),
            Ok(Err(e)) => json!({"id": c["id"], "parse": "error", "msg": e.to_string()}),
            Ok(Ok(cfg)) => {
                let mut sat = serde_json::Map::new();
                for (b, v) in &backends {
                    let r = guarded(|| v.satisfies_cfg(&cfg, None));
                    sat.insert(b.clone(), match r {
                        Ok(Ok(x)) => json!(x),
                        Ok(Err(e)) => json!(format!("error: {e}")),
                        Err(p) => json!(format!("panic: {p}")),
                    });
                }
                json!({"id": c["id"], "parse": "ok", "sat": sat})
            }
        };
        out.line(&line);
    }
    out.finish();
    0
}
