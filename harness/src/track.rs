//! Tracking allocator: counts deallocations of registered ("watched") allocations and quarantines
//! them (the memory is not really released), so that a double free is *counted* instead of being
//! undefined behaviour and the address is never reused while a scenario runs.
use std::alloc::{GlobalAlloc, Layout, System};
use std::sync::atomic::{AtomicBool, AtomicIsize, AtomicUsize, Ordering};

const N: usize = 256;
static ARMED: AtomicBool = AtomicBool::new(false);
static PTRS: [AtomicUsize; N] = [const { AtomicUsize::new(0) }; N];
static FREES: [AtomicUsize; N] = [const { AtomicUsize::new(0) }; N];
static USED: AtomicUsize = AtomicUsize::new(0);

/// bytes allocated minus bytes released while a `scoped` call into the code under test was running
static SCOPE: AtomicBool = AtomicBool::new(false);
static SCOPED_LIVE: AtomicIsize = AtomicIsize::new(0);

pub struct Tracking;
unsafe impl GlobalAlloc for Tracking {
    unsafe fn alloc(&self, l: Layout) -> *mut u8 {
        if SCOPE.load(Ordering::Relaxed) {
            SCOPED_LIVE.fetch_add(l.size() as isize, Ordering::Relaxed);
        }
        System.alloc(l)
    }
    unsafe fn dealloc(&self, p: *mut u8, l: Layout) {
        if SCOPE.load(Ordering::Relaxed) {
            SCOPED_LIVE.fetch_sub(l.size() as isize, Ordering::Relaxed);
        }
        if ARMED.load(Ordering::Relaxed) {
            let n = USED.load(Ordering::Relaxed);
            for i in 0..n {
                if PTRS[i].load(Ordering::Relaxed) == p as usize {
                    FREES[i].fetch_add(1, Ordering::Relaxed);
                    return; // quarantined
                }
            }
        }
        System.dealloc(p, l)
    }
    unsafe fn realloc(&self, p: *mut u8, l: Layout, new_size: usize) -> *mut u8 {
        if SCOPE.load(Ordering::Relaxed) {
            SCOPED_LIVE.fetch_add(new_size as isize - l.size() as isize, Ordering::Relaxed);
        }
        System.realloc(p, l, new_size)
    }
}

/// start a scenario: forget all watched pointers
pub fn reset() {
    ARMED.store(false, Ordering::Relaxed);
    USED.store(0, Ordering::Relaxed);
}
/// watch an allocation; returns its slot
pub fn watch<T: ?Sized>(p: *const T) -> usize {
    let i = USED.load(Ordering::Relaxed);
    assert!(i < N, "too many watched allocations");
    PTRS[i].store(p as *const u8 as usize, Ordering::Relaxed);
    FREES[i].store(0, Ordering::Relaxed);
    USED.store(i + 1, Ordering::Relaxed);
    ARMED.store(true, Ordering::Relaxed);
    i
}
pub fn frees(slot: usize) -> usize {
    FREES[slot].load(Ordering::Relaxed)
}

/// run `f` (a call into the code under test) with allocation accounting switched on
pub fn scoped<R>(f: impl FnOnce() -> R) -> R {
    SCOPE.store(true, Ordering::Relaxed);
    let r = f();
    SCOPE.store(false, Ordering::Relaxed);
    r
}
pub fn scoped_reset() {
    SCOPED_LIVE.store(0, Ordering::Relaxed);
}
/// bytes allocated inside scoped calls and not released inside scoped calls since the last reset
pub fn scoped_live() -> isize {
    SCOPED_LIVE.load(Ordering::Relaxed)
}
