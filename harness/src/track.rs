//! Tracking allocator: counts deallocations of registered ("watched") allocations and quarantines
//! them (the memory is not really released), so that a double free is *counted* instead of being
//! undefined behaviour and the address is never reused while a scenario runs.
use std::alloc::{GlobalAlloc, Layout, System};
use std::sync::atomic::{AtomicBool, AtomicIsize, AtomicUsize, Ordering};

const N: usize = 256;
static ARMED: AtomicBool = AtomicBool::new(false);
static PTRS: [AtomicUsize; N] = [const { AtomicUsize::new(0) }; N];
static FREES: [AtomicUsize; N] = [const { AtomicUsize::new(0) }; N];
static USED: AtomicUsize = AtomicUsize::new(0);

/// bytes allocated minus bytes released while a `scoped` call into the code under test was running
static SCOPE: AtomicBool = AtomicBool::new(false);
static SCOPED_LIVE: AtomicIsize = AtomicIsize::new(0);

/// layout bookkeeping: every live allocation is remembered with its layout, and a release with a different layout is
/// counted (the system allocator ignores the size, so nothing else would notice)
const T: usize = 1 << 14;
static LAY_ON: AtomicBool = AtomicBool::new(false);
static LPTR: [AtomicUsize; T] = [const { AtomicUsize::new(0) }; T];
static LSIZE: [AtomicUsize; T] = [const { AtomicUsize::new(0) }; T];
static LALIGN: [AtomicUsize; T] = [const { AtomicUsize::new(0) }; T];
static LAY_BAD: AtomicUsize = AtomicUsize::new(0);
static LAY_BAD_WANT: AtomicUsize = AtomicUsize::new(0);
static LAY_BAD_GOT: AtomicUsize = AtomicUsize::new(0);
/// strict window (around one call into the code under test): a release of a pointer that the table does not know is counted and
/// NOT passed on to the system allocator (it would be an invalid free)
static STRICT: AtomicBool = AtomicBool::new(false);
static LAY_UNKNOWN: AtomicUsize = AtomicUsize::new(0);

fn lay_insert(p: usize, l: Layout) {
    let mut i = (p >> 4) & (T - 1);
    for _ in 0..64 {
        let cur = LPTR[i].load(Ordering::Relaxed);
        if cur == 0 || cur == p || cur == usize::MAX {
            LPTR[i].store(p, Ordering::Relaxed);
            LSIZE[i].store(l.size(), Ordering::Relaxed);
            LALIGN[i].store(l.align(), Ordering::Relaxed);
            return;
        }
        i = (i + 1) & (T - 1);
    }
}
fn lay_remove(p: usize, l: Layout) -> bool {
    let mut i = (p >> 4) & (T - 1);
    for _ in 0..64 {
        let cur = LPTR[i].load(Ordering::Relaxed);
        if cur == p {
            let (s, a) = (LSIZE[i].load(Ordering::Relaxed), LALIGN[i].load(Ordering::Relaxed));
            if s != l.size() || a != l.align() {
                LAY_BAD.fetch_add(1, Ordering::Relaxed);
                LAY_BAD_WANT.store(s, Ordering::Relaxed);
                LAY_BAD_GOT.store(l.size(), Ordering::Relaxed);
            }
            LPTR[i].store(usize::MAX, Ordering::Relaxed); // tombstone
            return true;
        }
        if cur == 0 {
            return false;
        }
        i = (i + 1) & (T - 1);
    }
    false
}

pub struct Tracking;
unsafe impl GlobalAlloc for Tracking {
    unsafe fn alloc(&self, l: Layout) -> *mut u8 {
        if SCOPE.load(Ordering::Relaxed) {
            SCOPED_LIVE.fetch_add(l.size() as isize, Ordering::Relaxed);
        }
        let p = System.alloc(l);
        if LAY_ON.load(Ordering::Relaxed) && !p.is_null() {
            lay_insert(p as usize, l);
        }
        p
    }
    unsafe fn dealloc(&self, p: *mut u8, l: Layout) {
        if LAY_ON.load(Ordering::Relaxed) {
            let known = lay_remove(p as usize, l);
            if !known && STRICT.load(Ordering::Relaxed) {
                LAY_UNKNOWN.fetch_add(1, Ordering::Relaxed);
                return;
            }
        }
        if SCOPE.load(Ordering::Relaxed) {
            SCOPED_LIVE.fetch_sub(l.size() as isize, Ordering::Relaxed);
        }
        if ARMED.load(Ordering::Relaxed) {
            let n = USED.load(Ordering::Relaxed);
            for i in 0..n {
                if PTRS[i].load(Ordering::Relaxed) == p as usize {
                    FREES[i].fetch_add(1, Ordering::Relaxed);
                    return; // quarantined
                }
            }
        }
        System.dealloc(p, l)
    }
    unsafe fn realloc(&self, p: *mut u8, l: Layout, new_size: usize) -> *mut u8 {
        if SCOPE.load(Ordering::Relaxed) {
            SCOPED_LIVE.fetch_add(new_size as isize - l.size() as isize, Ordering::Relaxed);
        }
        let q = System.realloc(p, l, new_size);
        if LAY_ON.load(Ordering::Relaxed) && !q.is_null() {
            lay_remove(p as usize, l);
            lay_insert(q as usize, Layout::from_size_align_unchecked(new_size, l.align()));
        }
        q
    }
}

/// start remembering layouts (allocations made before are unknown and never flagged)
pub fn layout_check_start() {
    for i in 0..T {
        LPTR[i].store(0, Ordering::Relaxed);
    }
    LAY_BAD.store(0, Ordering::Relaxed);
    LAY_ON.store(true, Ordering::Relaxed);
}
/// stop, and report (mismatches, size allocated, size given at release) of the last mismatch
pub fn layout_check_stop() -> (usize, usize, usize) {
    LAY_ON.store(false, Ordering::Relaxed);
    (LAY_BAD.load(Ordering::Relaxed), LAY_BAD_WANT.load(Ordering::Relaxed), LAY_BAD_GOT.load(Ordering::Relaxed))
}

/// run `f` (one call into the code under test) in a strict window; returns (result, releases of pointers never allocated since
/// layout_check_start, releases with a layout other than the allocation's).  Only meaningful between layout_check_start/stop.
pub fn strict<R>(f: impl FnOnce() -> R) -> (R, usize, usize) {
    let (u0, b0) = (LAY_UNKNOWN.load(Ordering::Relaxed), LAY_BAD.load(Ordering::Relaxed));
    STRICT.store(true, Ordering::Relaxed);
    let r = f();
    STRICT.store(false, Ordering::Relaxed);
    (r, LAY_UNKNOWN.load(Ordering::Relaxed) - u0, LAY_BAD.load(Ordering::Relaxed) - b0)
}

/// start a scenario: forget all watched pointers
pub fn reset() {
    ARMED.store(false, Ordering::Relaxed);
    USED.store(0, Ordering::Relaxed);
}
/// watch an allocation; returns its slot
pub fn watch<T: ?Sized>(p: *const T) -> usize {
    let i = USED.load(Ordering::Relaxed);
    assert!(i < N, "too many watched allocations");
    PTRS[i].store(p as *const u8 as usize, Ordering::Relaxed);
    FREES[i].store(0, Ordering::Relaxed);
    USED.store(i + 1, Ordering::Relaxed);
    ARMED.store(true, Ordering::Relaxed);
    i
}
pub fn frees(slot: usize) -> usize {
    FREES[slot].load(Ordering::Relaxed)
}

/// run `f` (a call into the code under test) with allocation accounting switched on
pub fn scoped<R>(f: impl FnOnce() -> R) -> R {
    SCOPE.store(true, Ordering::Relaxed);
    let r = f();
    SCOPE.store(false, Ordering::Relaxed);
    r
}
pub fn scoped_reset() {
    SCOPED_LIVE.store(0, Ordering::Relaxed);
}
/// bytes allocated inside scoped calls and not released inside scoped calls since the last reset
pub fn scoped_live() -> isize {
    SCOPED_LIVE.load(Ordering::Relaxed)
}
