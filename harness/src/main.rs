//! `dv` — the Rust side of the binding between the TLA+ specifications and Diplomat.
//! Each subcommand either replays TLC-generated cases/behaviours through the real code and
//! reports mismatches as NDJSON, or drives the real code and records NDJSON traces for TLC.
#![allow(clippy::all)]
mod util;
mod c03;
mod c04;
mod c12;
mod c13;
mod c16;
mod lower;
mod track;

#[global_allocator]
static ALLOC: track::Tracking = track::Tracking;

fn main() {
    let args: Vec<String> = std::env::args().skip(1).collect();
    if args.is_empty() {
        eprintln!("usage: dv <subcommand> ...");
        std::process::exit(2);
    }
    let rest = &args[1..];
    let rc = match args[0].as_str() {
        "c03-replay" => c03::replay(rest),
        "c03-record" => c03::record(rest),
        "c04-edges" => c04::edges(rest),
        "c12-replay" => c12::replay(rest),
        "c12-record" => c12::record(rest),
        "lower" => lower::lower(rest),
        "c13-eval" => c13::eval(rest),
        "c16-utf8" => c16::utf8(rest),
        "c16-views" => c16::views(rest),
        other => {
            eprintln!("unknown subcommand {other}");
            2
        }
    };
    std::process::exit(rc);
}
