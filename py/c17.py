"""C17 — configuration sources combine with the documented precedence (spec/config)."""
import json, os, re, shutil
import lib, observe

SRC_TMPL = """%s
#[diplomat::bridge]
mod ffi {
    #[diplomat::opaque]
    pub struct Opq(u8);
    impl Opq {
        #[diplomat::demo(default_constructor)]
        pub fn make() -> Box<Opq> { Box::new(Opq(0)) }
        pub fn get(&self) -> u8 { 0 }
        pub fn name(&self, w: &mut DiplomatWrite) {}
    }
    pub struct Pair {
        pub a: u8,
        pub b: u32,
    }
    impl Pair {
        pub fn take(self) -> u32 { self.b }
%s    }
}
"""
CB = "        pub fn with_cb(self, f: impl Fn(&Opq)) {}\n"


def tool(backend, wd, src_text, file_toml, cli):
    """one run of the real binary in a scratch cwd holding config.toml"""
    exe = lib.build_tool()
    d = os.path.join(wd, "run")
    shutil.rmtree(d, ignore_errors=True)
    os.makedirs(d)
    open(os.path.join(d, "lib.rs"), "w").write(src_text)
    if file_toml is not None:
        open(os.path.join(d, "config.toml"), "w").write(file_toml)
    args = [exe, backend, "out", "--entry", "lib.rs"]
    for c in cli:
        args += ["--config", c]
    p = lib.sh(args, cwd=d, timeout=60)
    tree = observe.read_tree(os.path.join(d, "out")) if os.path.isdir(os.path.join(d, "out")) else {}
    return {"rc": p.returncode, "stderr": p.stderr, "stdout": p.stdout, "tree": tree, "panicked": "panicked at" in p.stderr}


def toml_file(assign, style):
    """assign: list of (table or None, key, literal). style kebab|snake"""
    f = (lambda k: k.replace("_", "-")) if style == "kebab" else (lambda k: k)
    top = [(k, v) for t, k, v in assign if t is None]
    tabs = {}
    for t, k, v in assign:
        if t is not None:
            tabs.setdefault(t, []).append((k, v))
    s = "".join("%s = %s\n" % (f(k), v) for k, v in top)
    for t, kv in tabs.items():
        s += "[%s]\n" % f(t) + "".join("%s = %s\n" % (f(k), v) for k, v in kv)      # kebab style: also the TABLE name ([demo-gen])
    return s


class Family:
    def __init__(self, name, backends, key, kind, observe_fn, scoped_only=False, base_cli=None, needs_cb=False):
        self.name, self.backends, self.key, self.kind = name, backends, key, kind
        self.observe, self.scoped_only, self.base_cli, self.needs_cb = observe_fn, scoped_only, base_cli or (lambda b: []), needs_cb


def obs_kotlin_lib(r):
    for f, v in r["tree"].items():
        m = re.search(rb'Native\.load\("([^"]*)"', v)
        if m:
            return m.group(1).decode()
    return None


def obs_kotlin_domain(r):
    for f in r["tree"]:
        m = re.match(r"src/main/kotlin/(.*)/[^/]+/[^/]+\.kt$", f)
        if m:
            return m.group(1).replace("/", ".")
    return None


def obs_nanobind_lib(r):
    for f in r["tree"]:
        m = re.match(r"(.*)_ext\.cpp$", f)
        if m:
            return m.group(1)
    return None


def obs_accepts_cb(r):
    if r["rc"] == 0:
        return True
    if "Callbacks cannot take references" in r["stderr"]:
        return False
    return "error: " + r["stderr"][-300:]


def obs_demo_module(r):
    t = r["tree"].get("index.mjs", b"").decode(errors="replace")
    m = re.search(r'from "([^"]*)"', t)
    return m.group(1) if m else None


FAMILIES = [
    Family("lib_name@kotlin", ["kotlin"], "lib_name", "string", obs_kotlin_lib, base_cli=lambda b: ["kotlin.domain=base.dom"]),
    Family("lib_name@nanobind", ["nanobind"], "lib_name", "string", obs_nanobind_lib),
    Family("unsafe_references_in_callbacks", ["c", "cpp", "kotlin", "nanobind"], "unsafe_references_in_callbacks", "bool", obs_accepts_cb,
           base_cli=lambda b: (["kotlin.domain=base.dom", "lib_name=baselib"] if b == "kotlin" else (["lib_name=baselib"] if b == "nanobind" else [])),
           needs_cb=True),
    Family("kotlin.domain", ["kotlin"], "domain", "string", obs_kotlin_domain, scoped_only=True, base_cli=lambda b: ["lib_name=baselib"]),
    Family("js.abi", ["js"], "abi", "abi", None, scoped_only=True),
    Family("demo_gen.module_name", ["demo_gen"], "module_name", "string", obs_demo_module, scoped_only=True),
]


def literal(kind, v, src):
    """how a value is written in each source"""
    if kind in ("string", "abi"):
        return '"%s"' % v if src in ("file", "attr") else v       # the shell strips quotes on the command line
    return v                                                       # bool: true / false


def run_case(fam, b, case, values, style, wd):
    # the "other language" is the one most easily confused with the target: a name that has the target's name as a prefix
    other = {"c": "cpp", "cpp": "c", "js": "kotlin"}.get(b, "js")
    def keyname(scope):
        return fam.key if scope == "shared" else "%s.%s" % (b if scope == "target" else other, fam.key)
    file_assign, cli, attrs = [], list(fam.base_cli(b)), []
    for s in ("file", "cli", "attr"):
        sc = case["srcs"][s]
        if sc == "absent":
            continue
        lit = literal(fam.kind, values[s], s)
        if s == "file":
            file_assign.append((None if sc == "shared" else (b if sc == "target" else other), fam.key, lit))
        elif s == "cli":
            cli.append("%s=%s" % (keyname(sc), lit))
        else:
            attrs.append("#[diplomat::config(%s = %s)]\npub struct CfgHolder;\n" % (keyname(sc), lit))
    src = SRC_TMPL % ("".join(attrs), CB if fam.needs_cb else "")
    return tool(b, wd, src, toml_file(file_assign, style) if file_assign else None, cli), \
        {"file": toml_file(file_assign, style) if file_assign else None, "cli": cli, "attr": attrs}


def obs_demo_pair(r):
    """(relative_js_path, module_name) as far as the output shows them: the import target is <path><module or index.mjs>"""
    t = r["tree"].get("index.mjs", b"").decode(errors="replace")
    m = re.search(r'export \* as lib from "([^"]*)"', t)
    if not m:
        return None
    path, _, tail = m.group(1).rpartition("/")
    return {"k1": path + ("/" if path else ""), "k2": tail}


def obs_kotlin_pair(r):
    return {"k1": obs_kotlin_domain(r), "k2": obs_kotlin_lib(r)}


# pairs of different keys of one backend: (backend, k1, k2, value of k1 per source, value of k2 per source, what the output shows
# for an unset key given the other key's effective value, observation, base command line)
PAIRS = [
    ("demo_gen", "demo_gen.relative_js_path", "demo_gen.module_name",
     {"file": "../vfile/", "cli": "../vcli/", "attr": "../vattr/"}, {"file": "mfile", "cli": "mcli", "attr": "mattr"},
     lambda eff: {"k1": ("" if eff["k2"] else "./js/"), "k2": "index.mjs"}, obs_demo_pair, []),
    ("kotlin", "kotlin.domain", "kotlin.lib_name",
     {"file": "d.file", "cli": "d.cli", "attr": "d.attr"}, {"file": "lfile", "cli": "lcli", "attr": "lattr"},
     lambda eff: {"k1": None, "k2": "baselib"}, obs_kotlin_pair, ["lib_name=baselib"]),
]


def nested_js_leg(rep, wd):
    """demo_gen writes the JS bindings it demonstrates into `js/` by running the js backend itself: the settings of the `js` language
    reach that nested run through the same three sources with the same precedence (Config.tla: file < command line < attribute)"""
    refs = {v: tool("js", wd, SRC_TMPL % ("", ""), None, ["js.abi=" + v])["tree"] for v in ("spec", "legacy")}
    if refs["spec"] == refs["legacy"]:
        raise lib.ToolError("js.abi has no observable effect on the probe program")
    n = 0
    for fv, cv, av in [("spec", None, None), (None, "spec", None), (None, None, "spec"), ("legacy", "spec", None), ("spec", "legacy", None),
                       ("spec", None, "legacy"), (None, "legacy", "spec"), ("legacy", "legacy", "spec"), (None, None, None)]:
        eff = av or cv or fv or "legacy"
        attrs = ("#[diplomat::config(js.abi = \"%s\")]\npub struct CfgHolder;\n" % av) if av else ""
        res = tool("demo_gen", wd, SRC_TMPL % (attrs, ""), ("[js]\nabi = \"%s\"\n" % fv) if fv else None, (["js.abi=" + cv] if cv else []))
        nested = {k[3:]: v for k, v in res["tree"].items() if k.startswith("js/")}
        n += 1
        if res["rc"] != 0 or not nested:
            rep.violation({"family": "js.abi inside demo_gen", "what": "demo_gen produced no js/ output"}, {"stderr": res["stderr"][-400:]})
            continue
        got = "spec" if nested == refs["spec"] else ("legacy" if nested == refs["legacy"] else "other")
        if got != eff:
            rep.violation({"family": "js.abi inside demo_gen", "sources": {"file": fv, "cli": cv, "attr": av}},
                          {"expected": eff, "observed": got})
        rep.nontriv("nested js|%s|%s|%s" % (fv, cv, av))
    rep.extra["nested_js_runs"] = n
    return n


def keys_leg(rep, tier, wd):
    """ConfigKeys.tla: assigning one key never changes another.  All 64 ways three sources can assign two different keys of one
    backend, both orders on the command line when it assigns both."""
    r = lib.tlc("config", "MC_ConfigKeys", "keys.cfg", workers=2)
    lib.tlc_expect_ok(r, "ConfigKeys")
    rep.add_tlc("ConfigKeys", r)
    rn = lib.tlc("config", "MC_ConfigKeys", "keys_neg.cfg", workers=2, coverage=False)
    lib.tlc_expect_violation(rn, "a setter that also resets another key", "KeysIndependent")
    rep.extra["negative_models_refuted"] += 1
    rep.extra["tlaps_keys"] = {"module": "spec/config/ConfigKeysProof.tla", "theorem": "Spec => []KeysIndependent for any set of keys",
                               "obligations_proved": lib.tlaps("config", "ConfigKeysProof")}
    n = 0
    for b, k1, k2, v1, v2, unset, obs, base in PAIRS:
        names, vals = {"k1": k1, "k2": k2}, {"k1": v1, "k2": v2}
        for c in r.printed["CASE"]:
            sets = {s: sorted(ks) for s, ks in c["sets"].items()}
            orders = [("k1", "k2"), ("k2", "k1")] if len(sets["cli"]) == 2 else [tuple(sets["cli"])]
            # when the source attribute assigns both keys they are written on two items, or STACKED on one item (either order)
            layouts = ["split", "stacked12", "stacked21"] if len(sets["attr"]) == 2 else ["split"]
            for order, layout in [(o, l) for o in orders for l in layouts]:
                file_assign = [(b, names[k].split(".", 1)[1], '"%s"' % vals[k]["file"]) for k in sets["file"]]
                cli = list(base) + ["%s=%s" % (names[k], vals[k]["cli"]) for k in order]
                if layout == "split":
                    attrs = ["#[diplomat::config(%s = \"%s\")]\npub struct Cfg%s;\n" % (names[k], vals[k]["attr"], k.upper()) for k in sets["attr"]]
                else:
                    ks = ("k1", "k2") if layout == "stacked12" else ("k2", "k1")
                    attrs = ["".join("#[diplomat::config(%s = \"%s\")]\n" % (names[k], vals[k]["attr"]) for k in ks) + "pub struct CfgBoth;\n"]
                eff = {k: (None if c["eff"][k] == "<unset>" else vals[k][c["eff"][k]]) for k in ("k1", "k2")}
                dflt = unset(eff)
                if eff["k1"] is None and dflt["k1"] is None:
                    continue       # a required key without a default (kotlin.domain): leaving it unset is a usage error
                res = tool(b, wd, SRC_TMPL % ("".join(attrs), ""), toml_file(file_assign, "snake") if file_assign else None, cli)
                n += 1
                want = {k: (eff[k] if eff[k] is not None else dflt[k]) for k in ("k1", "k2")}
                got = obs(res)
                if got != want:
                    rep.violation({"family": "two keys: %s + %s" % (k1, k2), "backend": b, "sets": sets,
                                   "wrong": sorted(k for k in ("k1", "k2") if not got or got.get(k) != want[k])},
                                  {"expected": want, "observed": got, "cli": cli, "file": toml_file(file_assign, "snake") if file_assign else None,
                                   "attrs": attrs, "stderr": res["stderr"][-500:]})
                if sum(1 for s in sets.values() if s) >= 2:
                    rep.nontriv("keys|%s|%s|%s|%s" % (b, json.dumps(sets, sort_keys=True), order, layout))
    rep.extra["two_key_runs"] = n
    return n


def run(rep, tier):
    wd = rep.wd
    rep.rule = ("assignments = all 64 ways the three sources can set a key (absent / shared / target-scoped / other-language-scoped), "
                "TLC computes the effective source; replayed through the real binary for lib_name (kotlin, nanobind), "
                "unsafe_references_in_callbacks (c, cpp, kotlin, nanobind), kotlin.domain, js.abi, demo_gen.module_name with kebab- and "
                "snake-case files; the effective value is read from the output; non-trivial = distinct (family, backend, assignment) "
                "with at least two sources set")
    rep.assumptions += ["a required-but-unset key makes kotlin/nanobind stop with a 'Missing required field' message (usage error)"]
    r = lib.tlc("config", "MC_Config", "config.cfg", workers=4)
    lib.tlc_expect_ok(r, "Config precedence")
    if lib.vacuous_actions(r):
        raise lib.ToolError("vacuous")
    rep.add_tlc("Config", r)
    # unbounded: TLAPS proves Precedence for ANY set of languages (TLC checks it for two)
    rep.extra["tlaps"] = {"module": "spec/config/ConfigProof.tla", "theorem": "Spec => [](pcnt = 5 => effective = Documented)",
                          "obligations_proved": lib.tlaps("config", "ConfigProof")}
    rn = lib.tlc("config", "MC_Config", "config_neg.cfg", workers=4, coverage=False)
    lib.tlc_expect_violation(rn, "command line read before the file", "Precedence")
    rep.extra["negative_models_refuted"] = 1
    cases = [c for c in r.printed["CASE"] if c["target"] == "target"]
    nruns = 0
    refs = {}
    for fam in FAMILIES:
        for b in fam.backends:
            for c in cases:
                scopes = set(c["srcs"].values())
                if fam.scoped_only and not scopes <= {"absent", "target"}:
                    continue
                if tier == "quick" and fam.name not in ("lib_name@kotlin", "unsafe_references_in_callbacks") \
                        and len([s for s in c["srcs"].values() if s != "absent"]) == 3 and "other" in scopes:
                    continue
                eff = c["effective"] if c["effective"] != "<unset>" else None
                present = [s for s in ("file", "cli", "attr") if c["srcs"][s] != "absent"]
                styles = ["kebab", "snake"] if c["srcs"]["file"] != "absent" and (tier == "thorough" or fam.name.startswith("lib_name")) else ["kebab"]
                for style in styles:
                    if fam.kind == "string":
                        vsets = [{"file": "vfile", "cli": "vcli", "attr": "vattr"}]
                        if fam.name == "kotlin.domain":
                            vsets = [{"file": "d.file", "cli": "d.cli", "attr": "d.attr"}]
                        # values keep their type: a *quoted* string stays a string even if its text reads like another TOML
                        # scalar (the file and the attribute quote their strings; on the command line the shell strips quotes)
                        if c["srcs"]["file"] != "absent" or c["srcs"]["attr"] != "absent":
                            vsets.append(dict(vsets[0], file="2048", attr="77"))
                        # the EMPTY string is a value like any other: a bare `--config key=` assigns it (and wins over the file)
                        if c["srcs"]["cli"] != "absent" and fam.name != "kotlin.domain":
                            vsets.append(dict(vsets[0], cli=""))
                            # ... and so is a value with punctuation in it (a hyphen is not a key separator inside a value)
                            vsets.append(dict(vsets[0], cli="my-cli.v_1"))
                        for values in vsets:
                            res, how = run_case(fam, b, c, values, style, wd)
                            nruns += 1
                            got = fam.observe(res)
                            if eff is None:
                                want = None
                            else:
                                want = values[eff]
                            ok = (got == want) or (want is None and (got is None or got in ("somelib",)))
                            if want is None and fam.name == "demo_gen.module_name":
                                ok = got not in values.values()
                            if not ok:
                                rep.violation({"family": fam.name, "backend": b, "effective_source": eff, "srcs": c["srcs"],
                                               "values": "plain" if values is vsets[0] else ("empty on the command line" if values["cli"] == "" else ("hyphen in the command-line value" if "-" in values["cli"] else "numeric-looking strings"))},
                                              {"expected_value": want, "observed_value": got, "how": how, "stderr": res["stderr"][-600:]})
                    else:
                        # two-valued settings: each present source in turn carries the distinguished value
                        for star in (present or [None]):
                            if fam.kind == "bool":
                                values = {s: ("true" if s == star else "false") for s in ("file", "cli", "attr")}
                            else:
                                values = {s: ("spec" if s == star else "legacy") for s in ("file", "cli", "attr")}
                            res, how = run_case(fam, b, c, values, style, wd)
                            nruns += 1
                            want = (eff is not None and eff == star)
                            if fam.kind == "bool":
                                got = fam.observe(res)
                            else:
                                for v in ("spec", "legacy"):
                                    if v not in refs:
                                        refs[v] = tool("js", wd, SRC_TMPL % ("", ""), None, ["js.abi=" + v])["tree"]
                                if refs["spec"] == refs["legacy"]:
                                    raise lib.ToolError("js.abi has no observable effect on the probe program")
                                got = True if res["tree"] == refs["spec"] else (False if res["tree"] == refs["legacy"] else "other")
                            if got != want:
                                rep.violation({"family": fam.name, "backend": b, "effective_source": eff, "srcs": c["srcs"], "star": star},
                                              {"expected": want, "observed": got, "how": how, "stderr": res["stderr"][-600:]})
                if len(present) >= 2:
                    rep.nontriv("%s|%s|%s" % (fam.name, b, json.dumps(c["srcs"], sort_keys=True)))
    nruns += keys_leg(rep, tier, wd)
    nruns += nested_js_leg(rep, wd)
    rep.evaluations += nruns
    rep.traces += nruns
    rep.sample({"case": cases[20], "family": "lib_name@kotlin"})
    rep.exhaustive = (tier == "thorough")
