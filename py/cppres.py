"""./extra cppres — extension spec spec/cppres/CppResult.tla: value semantics of diplomat::result<T, E> (generated C++ runtime header).
TLC enumerates every operation sequence of length 3 over two results and two values (21 952 behaviours) with the expected
observation after each step; an interpreting C++ driver, compiled against the runtime header the real cpp backend generates
(-std=c++17 and c++20, ASan/UBSan), executes them on diplomat::result<Tracked, TrackedE> and prints what it observes."""
import json, os
import lib

DRIVER = r'''
#include <cstdio>
#include <cstdlib>
#include <cstring>
#include <string>
#include <utility>
#include "diplomat_runtime.hpp"
static long live = 0, ctor = 0, dtor = 0;
template<int TAG> struct Tr {
  int v;
  Tr() : v(9) { live++; ctor++; }
  explicit Tr(int x) : v(x) { live++; ctor++; }
  Tr(const Tr& o) : v(o.v) { live++; ctor++; }
  Tr(Tr&& o) noexcept : v(o.v) { o.v = 0; live++; ctor++; }
  Tr& operator=(const Tr& o) { v = o.v; return *this; }
  Tr& operator=(Tr&& o) noexcept { v = o.v; o.v = 0; return *this; }
  ~Tr() { live--; dtor++; }
};
using T = Tr<1>; using E = Tr<2>;
using R = diplomat::result<T, E>;
// observation of a result WITHOUT consuming it: a copy is taken apart
static void obs(const R& r, char* out) {
  R c(r);
  bool ok = c.is_ok(), er = c.is_err();
  int v = -1;
  if (ok) { auto o = std::move(c).ok(); v = o.has_value() ? o->v : -2; }
  else { auto o = std::move(c).err(); v = o.has_value() ? o->v : -2; }
  sprintf(out, "%d%d:%d", ok ? 1 : 0, er ? 1 : 0, v);
}
int main(int argc, char** argv) {
  FILE* f = fopen(argv[1], "r");
  char line[512];
  long n = 0;
  while (fgets(line, sizeof line, f)) {
    {
      R r[2];
      char* p = strtok(line, " \n");
      std::string res;
      while (p) {
        // op tokens: O<s><v> E<s><v> o<s><v> e<s><v> C<s><t> M<s><t> K<s> k<s> R<s><t><v>
        char op = p[0]; int s = p[1] - '0'; int a = p[2] ? p[2] - '0' : 0; int b = (p[2] && p[3]) ? p[3] - '0' : 0;
        char extra[64] = "";
        switch (op) {
          case 'O': r[s] = R(diplomat::Ok<T>(T(a))); break;
          case 'E': r[s] = R(diplomat::Err<E>(E(a))); break;
          case 'o': r[s].set_ok(T(a)); break;
          case 'e': r[s].set_err(E(a)); break;
          case 'C': r[a] = r[s]; break;
          case 'M': r[a] = std::move(r[s]); break;
          case 'K': { auto o = std::move(r[s]).ok(); sprintf(extra, "/%d:%d", o.has_value() ? 1 : 0, o.has_value() ? o->v : 0); break; }
          case 'k': { auto o = std::move(r[s]).err(); sprintf(extra, "/%d:%d", o.has_value() ? 1 : 0, o.has_value() ? o->v : 0); break; }
          case 'R': { auto t = r[s].replace_ok<T>(T(b)); r[a] = std::move(t); break; }
          default: fprintf(stderr, "bad op %s\n", p); return 2;
        }
        char o0[32], o1[32];
        obs(r[0], o0); obs(r[1], o1);
        res += std::string(o0) + "," + o1 + extra + " ";
        p = strtok(nullptr, " \n");
      }
      printf("%ld %s\n", n, res.c_str());
    }
    if (live != 0) { printf("%ld LIVE %ld (constructed %ld, destroyed %ld)\n", n, live, ctor, dtor); live = 0; }
    n++;
  }
  return 0;
}
'''


def encode(e):
    s = {"x": 0, "y": 1}
    op = e["op"]
    if op == "MakeOk": return "O%d%d" % (s[e["s"]], e["v"])
    if op == "MakeErr": return "E%d%d" % (s[e["s"]], e["v"])
    if op == "SetOk": return "o%d%d" % (s[e["s"]], e["v"])
    if op == "SetErr": return "e%d%d" % (s[e["s"]], e["v"])
    if op == "Copy": return "C%d%d" % (s[e["s"]], s[e["t"]])
    if op == "Move": return "M%d%d" % (s[e["s"]], s[e["t"]])
    if op == "TakeOk": return "K%d" % s[e["s"]]
    if op == "TakeErr": return "k%d" % s[e["s"]]
    if op == "ReplaceOk": return "R%d%d%d" % (s[e["s"]], s[e["t"]], e["v"])
    raise ValueError(op)


def expect(step):
    o = step["obs"]
    out = ",".join("%d%d:%d" % (1 if o[k]["ok"] else 0, 0 if o[k]["ok"] else 1, o[k]["v"]) for k in ("x", "y"))
    e = step["e"]
    if e["op"] in ("TakeOk", "TakeErr"):
        out += "/%d:%d" % (1 if e["some"] else 0, e["got"] if e["some"] else 0)
    return out


def run(out):
    wd = lib.ensure(os.path.join(lib.WORK, "extra_cppres"))
    r0 = lib.tlc("cppres", "CppResult", "inv.cfg", workers=8, coverage=False, timeout=900)
    lib.tlc_expect_ok(r0, "CppResult laws")
    rn = lib.tlc("cppres", "MCB_CppResult", "neg.cfg", workers=2, coverage=False, timeout=300)
    lib.tlc_expect_violation(rn, "an accessor answering for the wrong arm", "TakeLaw")
    b = lib.tlc("cppres", "MCB_CppResult", "beh.cfg", workers=4, coverage=False, timeout=900, heap="8g")
    lib.tlc_expect_ok(b, "CppResult behaviours")
    behs = b.printed["BEH"]
    ops = set(s["e"]["op"] for h in behs for s in h)
    need = {"MakeOk", "MakeErr", "SetOk", "SetErr", "Copy", "Move", "TakeOk", "TakeErr", "ReplaceOk"}
    if not need <= ops:
        raise lib.ToolError("behaviours never exercise %s" % (need - ops))
    src = os.path.join(wd, "lib.rs")
    open(src, "w").write("#[diplomat::bridge]\nmod ffi {\n    #[diplomat::opaque]\n    pub struct O(u8);\n    impl O {\n        pub fn f(&self) -> u8 { 0 }\n    }\n}\n")
    od = os.path.join(wd, "cpp")
    t = lib.run_tool("cpp", src, od)
    if t["rc"] != 0:
        raise lib.ToolError("cpp backend failed:\n" + t["stderr"][-1500:])
    inp = os.path.join(wd, "behs.txt")
    open(inp, "w").write("".join(" ".join(encode(s["e"]) for s in h) + "\n" for h in behs))
    dp = os.path.join(wd, "driver.cpp")
    open(dp, "w").write(DRIVER)
    diffs = []
    for std in ("c++17", "c++20"):
        exe = os.path.join(wd, "driver_" + std.replace("+", "p"))
        cc = lib.sh(["g++", "-std=" + std, "-g", "-O1", "-fsanitize=address,undefined", "-I", od, dp, "-o", exe], timeout=900)
        if cc.returncode != 0:
            raise lib.ToolError("driver does not compile against the generated runtime header (%s):\n%s" % (std, cc.stderr[-2500:]))
        p = lib.sh([exe, inp], timeout=900)
        if p.returncode != 0 or "ERROR: AddressSanitizer" in p.stderr or "runtime error:" in p.stderr:
            diffs.append({"what": "the driver aborted or the sanitizer reported an error", "shape": std, "case": {}, "impl": p.stderr[-1500:]})
            continue
        got, leaks = {}, {}
        for l in p.stdout.splitlines():
            n, _, rest = l.partition(" ")
            if rest.startswith("LIVE"):
                leaks[int(n)] = rest
            else:
                got[int(n)] = rest.split()
        for n, h in enumerate(behs):
            want = [expect(s) for s in h]
            if got.get(n) != want:
                k = next((i for i, (a, w) in enumerate(zip(got.get(n) or [], want)) if a != w), 0)
                diffs.append({"what": "observation after %s differs" % h[k]["e"]["op"], "shape": "%s: %s" % (std, " ".join(encode(s["e"]) for s in h)),
                              "case": {}, "spec": want, "impl": got.get(n)})
            if n in leaks:
                diffs.append({"what": "payload objects are not destroyed exactly once", "shape": "%s: %s" % (std, " ".join(encode(s["e"]) for s in h)),
                              "case": {}, "impl": leaks[n]})
    out.update({"cases": 2 * len(behs), "tlc": {"states": r0.distinct, "props": "OneArm, TakeLaw, CopyLaw, ErrSticky", "negative_models_refuted": 1},
                "differences_by_kind": {}, "samples": diffs[:12]})
    for d in diffs:
        out["differences_by_kind"][d["what"]] = out["differences_by_kind"].get(d["what"], 0) + 1
    return diffs
