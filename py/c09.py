"""C09 — whatever the tool accepts builds (spec/build/Includes.tla + spec/pipeline)."""
import json, os, random, re, shutil
from concurrent.futures import ThreadPoolExecutor
import lib, render, abisig, observe

# reserved words of C, C++ and JS that are ordinary identifiers in Rust (Rust's own reserved words would need raw identifiers,
# which the proc macro does not support: they are outside the grammar)
KEYWORDS = ["default", "new", "class", "int", "register", "this", "delete", "namespace", "template", "char", "signed",
            "union", "volatile", "export", "function", "var", "friend", "operator", "private", "double", "short", "auto", "goto",
            # the usual Rust spelling of keyword-like names: reserved only AFTER a backend's case conversion drops the underscore
            "in_", "for_", "new_", "if_", "static_", "enum_", "let_", "await_", "yield_", "while_", "typeof_", "instanceof_", "with_"]
RUST_KW = set()


def graph_program(n, c, rng):
    """Rust items for reference graph c (types 1..N named P<n>T<i>)"""
    N = len(c["kind"])
    name = lambda i: "P%dT%d" % (n, i)
    kind = {i + 1: k for i, k in enumerate(c["kind"])}
    val = [tuple(e) for e in c["val"]]
    ptr = [tuple(e) for e in c["ptr"]]
    meth = [tuple(e) for e in c["meth"]]
    has_lt = {i: False for i in kind}
    changed = True
    while changed:
        changed = False
        for i in kind:
            if kind[i] == "struct" and not has_lt[i]:
                if any(a == i for a, b in ptr) or any(a == i and has_lt[b] for a, b in val):
                    has_lt[i] = True
                    changed = True
    use = lambda i, lt="'a": name(i) + ("<%s>" % lt if has_lt[i] else "")
    items = []
    for i in sorted(kind):
        attrs = ""
        r = rng.random()
        if r < 0.25:
            attrs += '    #[diplomat::attr(supports = namespacing, namespace = "ns%d")]\n' % n
        elif r < 0.4:
            attrs += '    #[diplomat::attr(supports = namespacing, namespace = "outer%d::inner")]\n' % n
        if rng.random() < 0.2:
            attrs += '    #[diplomat::attr(any(cpp, js), rename = "Ren%s")]\n' % name(i)
        if kind[i] == "opaque":
            items.append(attrs + "    #[diplomat::opaque]\n    pub struct %s(pub u8);\n" % name(i))
        else:
            fs = ["        pub z: u8,\n"]
            fs += ["        pub v%d: %s,\n" % (b, use(b)) for a, b in val if a == i]
            fs += ["        pub p%d: %s&'a %s,\n" % (b, "", name(b)) if rng.random() < 0.5 else "        pub p%d: Option<&'a %s>,\n" % (b, name(b))
                   for a, b in ptr if a == i]
            items.append(attrs + "    pub struct %s%s {\n%s    }\n" % (name(i), "<'a>" if has_lt[i] else "", "".join(fs)))
        ms = []
        for a, b in meth:
            if a != i:
                continue
            kw = rng.choice([k for k in KEYWORDS if k not in RUST_KW])
            pname = kw
            selfp = "&self, " if kind[i] == "opaque" else ""
            if kind[b] == "struct":
                lt = "<'a>" if has_lt[b] else ""
                ms.append("        pub fn m%d%s(%s%s: %s) -> %s { %s }\n" % (b, lt, selfp, pname, use(b), use(b), pname))
            else:
                ms.append("        pub fn m%d(%s%s: &%s) -> Option<Box<%s>> { None }\n" % (b, selfp, pname, name(b), name(b)))
                ms.append("        pub fn r%d<'a>(%sx: &'a %s) -> &'a %s { x }\n" % (b, "&'a self, " if kind[i] == "opaque" else "", name(b), name(b)))
        if ms:
            hl = "<'b>" if has_lt[i] else ""
            items.append("    impl%s %s%s {\n%s    }\n" % (hl, name(i), hl, "".join(ms)))
    return "".join(items)


def each_alone(files, mk_cmd, workers=14):
    """run mk_cmd(file) for every file in parallel; returns [(file, ok, stderr)]"""
    def one(f):
        p = lib.sh(mk_cmd(f), timeout=300)
        return (f, p.returncode == 0, p.stderr[-1500:])
    with ThreadPoolExecutor(workers) as ex:
        return list(ex.map(one, files))


def check_outputs(rep, run_id, outs, events, wd, seed, orders=3, shape_of=None):
    """outs: {backend: dir}. Appends Build events; reports violations for failing files.
    shape_of: optional map from a generated file's name to the program shape it was generated from (part of the key)."""
    rng = random.Random(seed)
    def report(backend, tool, results):
        bad = set()
        for f, ok, err in results:
            if not ok:
                bad.add(f)
            events.append({"ev": "Build", "run": "%s|%s" % (run_id, backend), "file": os.path.basename(f), "tool": tool, "ok": ok})
            if not ok:
                key = {"set": run_id, "backend": backend, "tool": tool, "what": "generated file does not build on its own",
                       "error": re.sub(r'\d+', 'N', (re.findall(r'error: ([^\n]*)', err) or ["?"])[0])[:120]}
                if shape_of:
                    # all-headers translation units fail on the first bad header: name the shape of that header
                    m = re.search(r'([HSTO]\d+)(?:\.d)?\.(?:h|hpp|mjs)[:\s]', err) if os.path.basename(f).startswith("tu_") else None
                    sh = shape_of(m.group(1) if m else os.path.basename(f))
                    if sh:
                        key["shape"] = sh
                rep.violation(key, {"file": f, "stderr": err})
        return bad
    outs = {k: v for k, v in outs.items() if not k.startswith("_")}
    # Includes.tla gives every header a guard of its own (Guard is injective over files): two files of one output directory that
    # share an include guard silently drop each other from any translation unit that sees both
    for be, ext in (("c", ".h"), ("cpp", ".hpp")):
        if be in outs:
            guards = {}
            for r_, _, fs_ in os.walk(outs[be]):
                for f_ in fs_:
                    if f_.endswith(ext):
                        m_ = re.search(r'^#ifndef (\w+)', open(os.path.join(r_, f_)).read(), re.M)
                        if m_:
                            guards.setdefault(m_.group(1), []).append(os.path.relpath(os.path.join(r_, f_), outs[be]))
            for g_, fs_ in sorted(guards.items()):
                if len(fs_) > 1:
                    pair = "decl header of X and header of X_D" if any(".d." in x for x in fs_) and any(".d." not in x for x in fs_) else "two type names"
                    rep.violation({"set": run_id, "backend": be, "what": "two generated headers share one include guard", "between": pair},
                                  {"guard": g_, "files": sorted(fs_)})
    if "c" in outs:
        hs = [os.path.join(outs["c"], f) for f in sorted(os.listdir(outs["c"])) if f.endswith(".h")]
        bad = report("c", "gcc -std=c11", each_alone(hs, lambda f: ["gcc", "-std=c11", "-fsyntax-only", "-Werror=implicit-function-declaration", "-x", "c", "-I", outs["c"], f]))
        # headers that do not build alone are reported above, one by one; the all-headers units ask the remaining question: do the
        # headers that build alone also build together, in any order
        hs = [h for h in hs if h not in bad]
        tus = []
        for k in range(orders):
            order = [os.path.basename(h) for h in hs]
            rng.shuffle(order)
            tu = os.path.join(wd, "tu_%s_%d.c" % (run_id, k))
            open(tu, "w").write("".join('#include "%s"\n' % h for h in order))
            tus.append(tu)
        report("c", "gcc all-headers", each_alone(tus, lambda f: ["gcc", "-std=c11", "-fsyntax-only", "-I", outs["c"], f]))
    for be in ("cpp",):
        if be in outs:
            hs = [os.path.join(outs[be], f) for f in sorted(os.listdir(outs[be])) if f.endswith(".hpp")]
            bad = set()
            for std in ("c++17", "c++20"):
                bad |= report(be, "g++ -std=" + std, each_alone(hs, lambda f, s=std: ["g++", "-std=" + s, "-fsyntax-only", "-x", "c++", "-I", outs[be], f]))
            hs = [h for h in hs if h not in bad]
            tus = []
            for k in range(orders):
                order = [os.path.relpath(h, outs[be]) for h in hs]
                rng.shuffle(order)
                tu = os.path.join(wd, "tu_%s_%d.cpp" % (run_id, k))
                open(tu, "w").write("".join('#include "%s"\n' % h for h in order))
                tus.append(tu)
            report(be, "g++ all-headers", each_alone(tus, lambda f: ["g++", "-std=c++17", "-fsyntax-only", "-I", outs[be], f]))
    if "demo_gen" in outs:
        # the demo modules (one per type with render termini, plus index.mjs) are JavaScript the tool wrote: they must parse
        ms = [os.path.join(outs["demo_gen"], f) for f in sorted(os.listdir(outs["demo_gen"])) if f.endswith(".mjs")]
        report("demo_gen", "node --check", each_alone(ms, lambda f: ["node", "--check", f]))
    if "js" in outs:
        ms = [os.path.join(outs["js"], f) for f in sorted(os.listdir(outs["js"])) if f.endswith(".mjs")]
        report("js", "node --check", each_alone(ms, lambda f: ["node", "--check", f]))
        # imports refer to generated files and names they export
        exports = {}
        for m in ms:
            t = open(m).read()
            exports[os.path.basename(m)] = set(re.findall(r'export (?:class|function|const|let) (\w+)', t)) | \
                set(x.strip().split(" as ")[-1] for g in re.findall(r'export \{([^}]*)\}', t) for x in g.split(",") if x.strip()) | \
                ({"default"} if "export default" in t else set())
        for m in ms:
            t = open(m).read()
            for names, star, default, target in re.findall(r'import (?:\{([^}]*)\}|(\* as \w+)|(\w+)) from "\./([^"]+)"', t):
                ok = target in exports
                if ok and names:
                    want = set(x.strip().split(" as ")[0] for x in names.split(",") if x.strip())
                    ok = want <= exports[target]
                if ok and default:
                    ok = "default" in exports[target]
                events.append({"ev": "Build", "run": "%s|js" % run_id, "file": os.path.basename(m) + "->" + target, "tool": "import-resolution", "ok": ok})
                if not ok:
                    rep.violation({"set": run_id, "backend": "js", "tool": "import-resolution", "what": "import refers to a missing file or name"},
                                  {"file": m, "import": [names, star, default, target], "exports": sorted(exports.get(target, []))})


def attribute_macro_errors(rep, run_id, b, labels):
    """map rustc errors (reported at the #[diplomat::bridge] line of a module) back to the program of that module"""
    culprits = set()
    if b["ok"]:
        return culprits
    found = 0
    for m in re.finditer(r'\nerror(?:\[E\d+\])?: ([^\n]*)\n\s*--> src/lib\.rs:(\d+):', b["stderr"]):
        msg, line = m.group(1), int(m.group(2))
        label = None
        for start, lab in labels:
            if start <= line:
                label = lab
            else:
                break
        # macro panics carry their message in a help line
        hm = re.search(r'help: message: ([^\n]*)', b["stderr"][m.end(): m.end() + 600]) if "custom attribute panicked" in msg else None
        found += 1
        culprits.add(label)
        rep.violation({"set": run_id, "backend": "macro", "what": "macro expansion of an accepted module does not type-check",
                       "shape": label, "error": re.sub(r'\d+', 'N', (hm.group(1) if hm else msg))[:160]},
                      {"rustc": b["stderr"][m.start(): m.start() + 900]})
    if not found:
        rep.violation({"set": run_id, "backend": "macro", "what": "macro expansion of an accepted module does not type-check", "shape": "?"},
                      {"stderr_tail": b["stderr"][-2500:]})
    return culprits


def run_set(rep, run_id, lib_rs, wd, events, build=True, entry=None, cwd=None, config_file=None, labels=None, attribute=True,
            backends=("c", "cpp", "js"), shape_of=None):
    """macro expansion through rustc, then the three syntax-checkable backends"""
    macro_failed = False
    if build:
        b = lib.build_bridge("c09_" + run_id, lib_rs)
        events.append({"ev": "Lower", "run": run_id + "|rustc", "ok": True, "panic": False})
        events.append({"ev": "Generate", "run": run_id + "|rustc", "outcome": "files"})
        events.append({"ev": "Build", "run": run_id + "|rustc", "file": "lib.rs", "tool": "rustc (macro expansion)", "ok": b["ok"]})
        if not b["ok"]:
            macro_failed = True
            if attribute:
                attribute_macro_errors(rep, run_id, b, labels or [(1, "?")])
        entry = os.path.join(b["dir"], "src", "lib.rs")
    outs = {}
    for be in backends:
        o = os.path.join(wd, "out_%s_%s" % (run_id, be))
        if config_file:
            exe = lib.build_tool()
            shutil.rmtree(o, ignore_errors=True)
            p = lib.sh([exe, be, o, "--entry", entry, "--config-file", config_file], cwd=cwd, timeout=120)
            rc, stderr = p.returncode, p.stderr
        else:
            t = lib.run_tool(be, entry, o)
            rc, stderr = t["rc"], t["stderr"]
        rid = "%s|%s" % (run_id, be)
        if rc == 0:
            events.append({"ev": "Lower", "run": rid, "ok": True, "panic": False})
            events.append({"ev": "Generate", "run": rid, "outcome": "files"})
            outs[be] = o
        else:
            events.append({"ev": "Lower", "run": rid, "ok": False, "panic": "panicked at" in stderr})
            rep.extra.setdefault("sets_rejected_by_tool", []).append(rid)
            outs["_rejected_" + be] = stderr
    check_outputs(rep, run_id, outs, events, wd, lib.seed(), shape_of=shape_of)
    if macro_failed:
        outs["_macro_failed"] = True
    return outs


LIFE_BODIES = """#![allow(unused, non_snake_case, clippy::all)]
#[diplomat::bridge]
pub mod lb {
    #[diplomat::opaque]
    pub struct Leaf(pub u8);
    #[diplomat::opaque]
    pub struct Pair<'a, 'b>(pub &'a Leaf, pub &'b Leaf);
    impl<'a, 'b> Pair<'a, 'b> {
        pub fn w_no_generics(&self) -> &'b Leaf where 'a: 'b { self.0 }
        pub fn w_with_generics<'c>(&self, other: &'c Leaf) -> &'c Leaf where 'b: 'c { if other.0 > 0 { other } else { self.1 } }
        pub fn inline_generics<'c>(&'c self) -> &'c Leaf { self.0 }
        pub fn inline_bound<'c, 'd: 'c>(&self, x: &'d Leaf, y: &'c Leaf) -> &'c Leaf { if y.0 > 0 { y } else { x } }
    }
    #[diplomat::opaque]
    pub struct Pair2<'a, 'b>(pub &'a Leaf, pub &'b Leaf);
    impl<'a: 'b, 'b> Pair2<'a, 'b> {
        pub fn impl_inline(&self) -> &'b Leaf { self.0 }
    }
    #[diplomat::opaque]
    pub struct Pair3<'a, 'b>(pub &'a Leaf, pub &'b Leaf);
    impl<'a, 'b> Pair3<'a, 'b> where 'a: 'b {
        pub fn impl_where(&self) -> &'b Leaf { self.0 }
    }
}
"""


GUARD_NAMES = """#![allow(unused, non_snake_case, non_camel_case_types, clippy::all)]
#[diplomat::bridge]
pub mod gn {
    #[diplomat::opaque]
    pub struct RGB(pub u8);
    pub struct Rgb {
        pub r: u8,
    }
    #[diplomat::opaque]
    pub struct Url(pub u8);
    pub enum URL {
        A,
        B,
    }
    impl RGB {
        pub fn to_struct(&self) -> Rgb { Rgb { r: self.0 } }
        pub fn with(&self, u: &Url, k: URL) -> u8 { 0 }
    }
    impl Rgb {
        pub fn back(self, o: &RGB) -> u8 { self.r }
    }
    impl Url {
        pub fn kind(&self) -> URL { URL::A }
    }
}
"""


GUARD_NAMES_D = """#![allow(unused, non_snake_case, non_camel_case_types, clippy::all)]
#[diplomat::bridge]
pub mod gd {
    #[diplomat::opaque]
    pub struct Foo(pub u8);
    #[diplomat::opaque]
    pub struct Foo_D(pub u8);
    impl Foo {
        pub fn a(&self, x: &Foo_D) -> u8 { 0 }
    }
    impl Foo_D {
        pub fn b(&self, x: &Foo) -> u8 { 0 }
    }
}
"""


TRAIT_ATTRS = """#![allow(unused, non_snake_case, clippy::all)]
#[diplomat::bridge]
pub mod tb {
    #[diplomat::attr(nanobind, disable)]
    pub trait Tr {
        #[diplomat::attr(kotlin, disable)]
        fn one(&self, x: u8) -> u8;
        fn two(&self);
    }
    #[diplomat::opaque]
    pub struct Op(pub u8);
    impl Op {
        pub fn call(&self, t: impl Tr) -> u8 { t.two(); t.one(1) }
    }
}
"""


def run(rep, tier):
    wd = rep.wd
    rep.rule = ("program sets = reference graphs over <=3 types enumerated by TLC (kinds, by-value, pointer and method edges incl. cycles) "
                "decorated with namespaces, renames and keyword-named parameters; all Gate-accepted shapes of the c profile; the Abi "
                "catalogue; feature_tests and example. For each: macro expansion compiled by rustc, every .h alone as C11, every .hpp alone "
                "as C++17 and C++20, all headers in shuffled orders, every .mjs through node --check plus import resolution; build events are "
                "validated by Trace_Pipeline.tla (AcceptedBuilds); non-trivial = distinct generated files checked")
    rep.assumptions += ["text-level well-formedness is judged by rustc 1.95, gcc/g++ 12 and node 20",
                        "Includes.tla proves the decl/impl header discipline sound at design level for all graphs on <=3 types"]
    m = lib.tlc("build", "MC_Includes", "inc2.cfg" if tier == "quick" else "inc3.cfg", workers=12, coverage=False, heap="8g", timeout=900)
    lib.tlc_expect_ok(m, "Includes discipline")
    rep.add_tlc("Includes", m)
    mn = lib.tlc("build", "MC_Includes", "inc_neg.cfg", workers=4, coverage=False, timeout=120)
    lib.tlc_expect_violation(mn, "declaration header without by-value includes", "EveryHeaderCompilesAlone")
    rep.extra["negative_models_refuted"] = 1
    graphs = m.printed.get("CASE", [])
    if tier == "quick":
        g3 = lib.tlc("build", "MC_Includes", "inc3_emit.cfg", workers=4, coverage=False, heap="8g", timeout=600)
        graphs = graphs + g3.printed["CASE"]
    else:
        g3 = lib.tlc("build", "MC_Includes", "inc3_emit.cfg", workers=4, coverage=False, heap="8g", timeout=600)
        graphs = g3.printed["CASE"]
    rng = random.Random(lib.seed())
    rng.shuffle(graphs)
    interesting = [g for g in graphs if g["meth"] and (g["val"] or g["ptr"])]
    pick = interesting[: (40 if tier == "quick" else 600)]
    events = []
    # ---- set 1: reference graphs
    for i in range(0, len(pick), 200):
        chunk = pick[i:i + 200]
        src = "#![allow(unused, non_snake_case, clippy::all)]\n"
        labels = []
        for k, g in enumerate(chunk):
            labels.append((src.count("\n") + 1, "graph %s" % json.dumps(g, sort_keys=True)))
            src += "#[diplomat::bridge]\npub mod g%d {\n%s}\n" % (i + k, graph_program(i + k, g, rng))
        run_set(rep, "graphs%d" % (i // 200), src, wd, events, labels=labels)
    # ---- set 1b: lifetime bounds that method BODIES rely on, in every place Rust lets one write them (inline on the method's or the
    # impl's generic list, in a where clause of a method with and WITHOUT a generic list of its own, in a where clause of the impl):
    # the extern "C" wrapper the macro writes has to carry them or rustc refuses the expansion
    run_set(rep, "lifebodies", LIFE_BODIES, wd, events)
    # ---- set 1c: Diplomat attributes on a TRAIT and on its methods (read by the tool like those on types and methods): rustc must
    # not see them in the expansion; C is the backend with trait support
    run_set(rep, "traitattrs", TRAIT_ATTRS, wd, events, backends=("c",))
    # ---- set 1d: type names that differ only in letter case, and a type named like another type's declaration header (X, X_D)
    run_set(rep, "guardnames", GUARD_NAMES, wd, events, backends=("c", "cpp"))
    run_set(rep, "guardnames_d", GUARD_NAMES_D, wd, events, backends=("c", "cpp"))
    # ---- set 2: every shape the gate accepts for the C profile, compiled by the real macro
    g = lib.tlc("gate", "MC_Gate", "gate1_emit.cfg" if tier == "quick" else "gate2_emit.cfg", workers=8, coverage=False, timeout=600)
    gcases = [c for c in g.printed["CASE"] if c["accept"] and not c["urefs"] and set(c["need"]) <= {"option", "callbacks", "traits", "static_slices"}
              and c["pos"] not in ("self",) and "cb_ref" not in json.dumps(c["ty"])
              # a callback whose *result* borrows needs a lifetime rustc cannot infer: not expressible, outside the grammar
              and not (c["pos"] == "cbret" and re.search(r'"k": "(ref|mutref|str_std|str_dipl|slice_std|slice_dipl|slice_mut|strs)"', json.dumps(c["ty"])))]
    items = [render.gate_item(n, c["pos"], c["ty"])[0].replace("{ todo!() }", "{ todo!() }") for n, c in enumerate(gcases)]
    src = ("#![allow(unused, non_snake_case, improper_ctypes_definitions, improper_ctypes, clippy::all)]\n" +
           render.bridge(items).replace("mod ffi", "pub mod ffi").replace("use diplomat_runtime::{", "use diplomat_runtime::{"))
    def gate_shape(fname):
        m = re.match(r'[HS](\d+)', fname)
        if not m or int(m.group(1)) >= len(gcases):
            return None
        c = gcases[int(m.group(1))]
        return "%s %s" % (c["pos"], render.ty(c["ty"]))
    outs = run_set(rep, "gate", src, wd, events, attribute=False, shape_of=gate_shape)
    # the C++ and JS backends support fewer features than C: they get the shapes of *their* profile (otherwise the
    # whole module is refused at lowering and none of their output is ever compiled)
    import profiles
    profs = profiles.profiles()
    for be in ("cpp", "js"):
        if be in outs:
            continue
        sup = set(profs[be]["supports"])
        sub = [(n, c) for n, c in enumerate(gcases) if set(c["need"]) <= sup]
        # shapes on which this backend is known to crash (C15's findings) would take the whole module down: leave them out
        import c15
        sub = [(n, c) for n, c in sub if not c15.known_shape(be, "%s %s" % (c["pos"], render.ty(c["ty"])))]
        srcb = render.bridge([render.gate_item(n, c["pos"], c["ty"])[0] for n, c in sub]).replace("mod ffi", "pub mod ffi")
        eb = os.path.join(wd, "gate_%s.rs" % be)
        open(eb, "w").write(srcb)
        ob = run_set(rep, "gate_" + be, None, wd, events, build=False, entry=eb, backends=(be,), shape_of=gate_shape)
        rep.extra["gate_shapes_" + be] = len(sub) if be in ob else 0
        if be not in ob:
            rep.extra.setdefault("gate_subset_rejected", {})[be] = (ob.get("_rejected_" + be) or "")[-600:]
    # ---- set 2b: methods carrying special-method markers that the extension spec Special.tla accepts (operators, iterators,
    # indexers, accessors, constructors): the C++ and JS backends turn them into operators / properties / constructors
    import c15
    srng = random.Random(lib.seed() + 3)
    for be in ("cpp", "js"):
        sp = [x for x in c15.special_items(profs[be]) if not c15.known_shape(be, x[3])]
        srng.shuffle(sp)
        # one shape of every (marker, kind of type) pair first -- some pairs have a single shape (a comparison on an enum) -- then the rest
        firsts, seen_pairs = [], set()
        for x in sp:
            pair = " ".join(x[3].split()[:4])
            if pair not in seen_pairs:
                seen_pairs.add(pair)
                firsts.append(x)
        sp = (firsts + [x for x in sp if x not in firsts])[: (max(40, len(firsts)) if tier == "quick" else 2000)]
        by_type = {}
        for x in sp:
            for tn in re.findall(r'pub (?:struct|enum) (\w+)', x[1]):
                by_type[tn] = x[3]
        eb = os.path.join(wd, "special_%s.rs" % be)
        open(eb, "w").write("#[diplomat::bridge]\npub mod ffi {\n    use diplomat_runtime::DiplomatWrite;\n" + "\n".join(x[1] for x in sp) + "}\n")
        ob = run_set(rep, "special_" + be, None, wd, events, build=False, entry=eb, backends=(be,),
                     shape_of=lambda f, _m=by_type: _m.get(re.sub(r'\..*$', '', f)))
        rep.extra["special_shapes_" + be] = len(sp) if be in ob else 0
    # ---- set 2c: render termini of demo_gen: parameter names that repeat (the generator has to keep them apart), nested structs,
    # constructors with their own parameters, plus a sample of the methods the extension spec DemoGen.tla enumerates
    DEMO = """#[diplomat::bridge]
pub mod ffi {
    use diplomat_runtime::DiplomatWrite;
    pub struct Point { pub x: f64, pub y: f64 }
    pub struct Seg { pub point: Point, pub point_x: f64, pub x: f64 }
    #[diplomat::opaque]
    pub struct Canvas(u8);
    impl Point {
        pub fn describe(self, w: &mut DiplomatWrite) {}
        pub fn describe_shift(self, point: Point, point_x: f64, w: &mut DiplomatWrite) {}
        pub fn four(self, point: Point, point_x: f64, x: f64, seg: Seg, w: &mut DiplomatWrite) {}
    }
    impl Canvas {
        #[diplomat::demo(default_constructor)]
        pub fn make(point: Point, point_x: f64, canvas_point_x: f64) -> Box<Canvas> { todo!() }
        pub fn draw(&self, canvas: &Canvas, point: Point, seg: Seg, point_x: f64, x: f64, canvas_point_x: f64, w: &mut DiplomatWrite) {}
        pub fn twice(&self, a: &Canvas, b: &Canvas, w: &mut DiplomatWrite) -> Result<(), ()> { Ok(()) }
    }
}
"""
    eb = os.path.join(wd, "demo.rs")
    open(eb, "w").write(DEMO)
    run_set(rep, "demo", None, wd, events, build=False, entry=eb, backends=("demo_gen",))
    import demogen
    dg = lib.tlc("demogen", "MC_DemoGen", "emit.cfg", workers=2, coverage=False, timeout=900)
    lib.tlc_expect_ok(dg, "DemoGen case emission")
    dcs = [c for c in dg.printed["CASE"] if not c["explicit"] and not c["error"]]
    for c in dcs:
        if isinstance(c["m"]["params"], dict):
            c["m"]["params"] = [c["m"]["params"][k] for k in sorted(c["m"]["params"], key=int)]
    random.Random(lib.seed() + 5).shuffle(dcs)
    eb = os.path.join(wd, "demo_spec.rs")
    open(eb, "w").write(demogen.module_src(list(enumerate(dcs[: (300 if tier == "quick" else 3000)]))).replace("mod ffi", "pub mod ffi"))
    run_set(rep, "demo_spec", None, wd, events, build=False, entry=eb, backends=("demo_gen",))
    if outs.get("_macro_failed"):
        # attribute the failure: one bridge module per shape (own copies of the helper types), so that the line of the
        # offending #[diplomat::bridge] attribute names the shape
        src2 = "#![allow(unused, non_snake_case, improper_ctypes_definitions, improper_ctypes, clippy::all)]\n"
        labels = []
        for n, c in enumerate(gcases):
            it = render.gate_item(n, c["pos"], c["ty"])[0]
            body = re.sub(r'\b(Opq|Strct|Zst|OutS|En|Tr)\b', lambda m: m.group(1) + "x%d" % n, render.PRELUDE + it)
            labels.append((src2.count("\n") + 1, "%s %s" % (c["pos"], render.ty(c["ty"]))))
            src2 += ("#[diplomat::bridge]\npub mod g%d {\n    use diplomat_runtime::{DiplomatOption, DiplomatSlice, DiplomatStrSlice, DiplomatWrite};\n%s}\n"
                     % (n, body))
        b2 = lib.build_bridge("c09_gatem", src2)
        culprits = attribute_macro_errors(rep, "gate", b2, labels)
        # everything that was not named by an error must build together
        src3 = "#![allow(unused, non_snake_case, improper_ctypes_definitions, improper_ctypes, clippy::all)]\n"
        for n, c in enumerate(gcases):
            if "%s %s" % (c["pos"], render.ty(c["ty"])) in culprits:
                continue
            it = render.gate_item(n, c["pos"], c["ty"])[0]
            body = re.sub(r'\b(Opq|Strct|Zst|OutS|En|Tr)\b', lambda m: m.group(1) + "x%d" % n, render.PRELUDE + it)
            src3 += ("#[diplomat::bridge]\npub mod g%d {\n    use diplomat_runtime::{DiplomatOption, DiplomatSlice, DiplomatStrSlice, DiplomatWrite};\n%s}\n"
                     % (n, body))
        b3 = lib.build_bridge("c09_gatem", src3)
        events.append({"ev": "Build", "run": "gate|rustc", "file": "lib.rs (shapes not named by an error)", "tool": "rustc (macro expansion)", "ok": b3["ok"]})
        if not b3["ok"]:
            rep.violation({"set": "gate", "backend": "macro", "what": "remaining accepted shapes do not build together"}, {"stderr": b3["stderr"][-2500:]})
        rep.extra["gate_shapes_compiled_by_rustc"] = len(gcases) - len(culprits)
    # ---- set 3: the repository's own bridges
    for name in ("feature_tests", "example"):
        d = os.path.join(lib.REPO, name)
        cfgf = os.path.join(d, "config.toml")
        run_set(rep, name, None, wd, events, build=False, entry=os.path.join(d, "src", "lib.rs"), cwd=d,
                config_file=cfgf if os.path.exists(cfgf) else os.path.join(wd, "none.toml"))
    # ---- trace validation of the build events
    tr = os.path.join(wd, "trace.ndjson")
    lib.write_ndjson(tr, events)
    good = [e for e in events if not (e["ev"] == "Build" and not e["ok"])]
    trg = os.path.join(wd, "trace_ok.ndjson")
    lib.write_ndjson(trg, good)
    ok, vrs = lib.validate_trace_by_run("pipeline", "Trace_Pipeline", "trace.cfg", good, wd, "ok")
    for i, vr in enumerate(vrs):
        rep.add_tlc("Trace_Pipeline/%d" % i, vr)
    if not ok:
        raise lib.ToolError("build trace (failures removed) rejected: %s" % [v.printed for v in vrs if v.rc != 0][:1])
    bad = os.path.join(wd, "trace_bad.ndjson")
    lib.write_ndjson(bad, good[:3] + [{"ev": "Build", "run": good[0]["run"], "file": "x.h", "tool": "gcc", "ok": False}])
    ok2, _ = lib.validate_trace("pipeline", "Trace_Pipeline", "trace.cfg", bad)
    if ok2:
        raise lib.ToolError("binding self-test failed: a failing build event was accepted")
    nb = sum(1 for e in events if e["ev"] == "Build")
    for e in events:
        if e["ev"] == "Build":
            rep.nontriv("%s|%s|%s" % (e["run"], e["file"], e["tool"]))
    rep.evaluations += nb
    rep.traces += len(set(e["run"] for e in events))
    rep.sample({"graph": pick[0], "program": graph_program(0, pick[0], random.Random(1))})
    rep.exhaustive = False
