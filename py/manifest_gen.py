#!/usr/bin/env python3
"""Regenerates MANIFEST.json from the table below (single source of truth for the interface)."""
import json, os
V = os.path.dirname(os.path.dirname(os.path.abspath(__file__)))

CHECKS = {}   # pid -> dict(text, note, technique, design_ref)


def chk(pid, text, note, technique, ref):
    CHECKS[pid] = dict(text=text, note=note, technique=technique, ref=ref)


chk("C12",
    "TLC model-checks spec/write/Write.tla (one action per critical section of write_str / write_char, grow faults, flush, four "
    "writer kinds, capacities from 0) for InBounds/Exact/NoPartial/Sticky exhaustively within small bounds, four negative models "
    "must be refuted; TLAPS additionally PROVES, without bounds (any chunk set, capacities, number of calls), that len <= cap, that "
    "a copy is only started when it fits and that len equals the total length of the accepted chunks (spec/write/WriteProof.tla, "
    "54 obligations); every TLC-enumerated behaviour is replayed state-by-state on the real diplomat-runtime (caller-supplied writer "
    "built as a C caller would, fixed writer) through write_str and write_char, and seeded random runs of the real runtime "
    "(incl. the Rust-owned writer with allocation accounting from create to destroy) are validated as traces by Trace_Write.tla. The same machine is observed through the GENERATED API: a real bridge whose Rust body logs every write is driven through the "
    "generated C++ method (std::string writer) and C method (diplomat_buffer_write_*) under ASan, and the log including the string "
    "handed back to the caller (Returned event) must be a behaviour of Write.tla (kind cpp_string grows to exactly the requested length). Flush: six method shapes (unit, Result ok/err, Option, and value-returning methods that also take a writer), declared the way the macro compiles them, are called with an exactly-sized fixed buffer and with a caller-supplied writer that counts its flush callbacks (NUL on the last byte; foreign flush exactly once with the final length).",
    "Bounds: chunks of 0-4 bytes, <=4(5) writes, capacities <=8(12). Trusts TLC, rustc, the harness's canary zones "
    "(ASan in the C/C++ leg). Vec/std::string allocation failure aborts and is out of scope.",
    "TLA+ spec + TLC exhaustive model checking + TLAPS proof of the core invariant; spec->impl behaviour replay; impl->spec trace validation",
    "DESIGN.md §5 C12")

chk("C16",
    "TLC proves the UTF-8 automaton equal to the declarative Unicode Table 3-7 definition on all byte-class strings up to "
    "length 4 (quick) / 5 (thorough) and that the classes partition 0..255, then emits the transition table, which the harness "
    "executes as data against the exported diplomat_is_str over ALL byte strings of length <=3 (and NULL+0), ALL 4-byte strings with lead "
    "F0..F7 and seeded near-valid mutations. SliceView.tla models export/NULL/deref/import/drop of the five view kinds over whole "
    "buffers and sub-ranges of a live buffer (incl. the empty range with a real pointer), owned views built by foreign code in "
    "diplomat_alloc memory, and diplomat_alloc/diplomat_free as a pair for n >= 0 elements (a strict allocator window counts the "
    "release of a pointer that was never handed out); every "
    "TLC-enumerated behaviour is replayed on the real runtime types for 13 element types (the primitives and a 16-byte 8-aligned view at addresses 8 mod 16) with pointer class, length, contents "
    "and allocation-release counts compared after each step. Two negative models must be refuted.",
    "Trusts TLC, rustc, Unicode Table 3-7 as transcribed, the quarantining allocator of the harness. UB checks of the standard "
    "library (debug assertions on) turn invalid from_raw_parts calls into observable aborts.",
    "TLA+ spec + TLC exhaustive model checking; spec-emitted table executed against the implementation; behaviour replay",
    "DESIGN.md §5 C16")

chk("C03",
    "TLC model-checks spec/own/Ownership.tla (payloads, the four runtime containers, boxed handles; one action per API step) "
    "for AtMostOnce / ExactlyOnce-at-quiescence / NoStrand over all histories of <=9 (11) steps with 3 payloads and 5 containers; "
    "the negative model (into() without suppressing Drop) must be refuted; spec/own/OwnershipProof.tla proves with TLAPS (55 obligations, "
    "re-checked on every run) that AtMostOnce / DroppedMeansOnce / LiveMeansZero hold for any payload and container sets and any number of steps. Every TLC-enumerated quiescent behaviour is replayed "
    "on the real DiplomatResult/DiplomatOption/DiplomatOwnedSlice/DiplomatCallback with drop-counting payloads and a "
    "quarantining allocator (double frees are counted, not UB), comparing drop counters after every step; seeded random "
    "histories recorded from the real types are validated by Trace_Ownership.tla. The generated-API histories are also rendered through the generated C++ classes (unique_ptr moved, reset, released and re-wrapped; diplomat::result / nullable returns; spans over diplomat_alloc'ed buffers; std::function callbacks owning a move-only state) and include a caller-owned diplomat_simple_write buffer filled exactly to its last byte and read back with strlen.",
    "Foreign code is assumed to honour its contract (no use after destroy). Bounds as stated. Trusts TLC, rustc, the harness's "
    "allocator instrumentation. The generated C/C++ API under ASan is exercised by the compile-and-run leg.",
    "TLA+ spec + TLC exhaustive model checking; spec->impl behaviour replay; impl->spec trace validation",
    "DESIGN.md §5 C03")

chk("C05",
    "spec/gate/Gate.tla states the lowering gate twice -- a declarative rule set over every (occurrence, context) pair written "
    "from the book and the property, and an operational walk shaped like lower_type/lower_out_type/lower_return_type -- and TLC "
    "checks they agree (verdict, demanded backend features, every rejection explained by a named rule) on every (position, "
    "type tree) of the grammar: 22 leaf kinds x ref/mutref/box/Option(std|Diplomat)/Result, 9 positions, depth 2 (quick, ~14k "
    "cases) / depth 3 (thorough, ~40k cases); two negative models must be refuted. Every emitted case is rendered to a bridge "
    "module and lowered by the real diplomat_core for each distinct probed backend profile and both settings of "
    "unsafe_references_in_callbacks; verdicts must match, and error contexts of rejected cases must name the offending "
    "Type / Type::method. Disagreements are re-run in isolation before being reported. Errors carry the offending item as context also ACROSS items: a context that exists only when other items are lowered before (batch) and not when the item is lowered alone is a violation.",
    "Bounded grammar (no traits-with-methods, no 128-bit, lifetimes limited to one named/elided/'static). Backend profiles are "
    "probed black-box from the tool binary. Implied-bound restating (last clause) is checked with C04's lifetime model: C05 itself "
    "replays the two-parameter signatures that use one bounded struct twice (spec/life/bounds_2p.cfg), C04 the single-use ones.",
    "TLA+ spec (two formulations checked equal by TLC); spec->impl replay of every TLC-generated case through the real lowering",
    "DESIGN.md §5 C05")

chk("C13",
    "spec/attrs/Attrs.tla gives the semantics of condition formulas (*, backend names, supports=f, not/any/all incl. empty) and of "
    "what a disable/rename placed on a module, type, impl block or method reaches. A stack-machine builder lets TLC enumerate "
    "every formula of <=3 (quick) / <=5 (thorough, small alphabet) construction steps and -simulate deeper ones (depth>=3); "
    "algebraic invariants (De Morgan, double negation) are checked on each, a negative model (any() looking at one operand) is "
    "refuted. Each formula with its per-backend truth value is replayed through the real attribute parser and satisfies_cfg. "
    "End to end, for disable and rename at each of the 4 placements and sampled formulas, all 7 backends are run by the real "
    "binary: the output tree must be byte-identical to the unconditional-attribute output iff the formula holds for that backend "
    "and to the attribute-free output otherwise; disabled items' files and symbol references must be absent, renames rendered in "
    "cpp/js/dart/nanobind and never inherited module->method; nm of the compiled crate shows every function still exported. "
    "`Remaining` (a disabled item leaves no trace): for a disabled comparison, iterator, stringifier and a method with a signature "
    "half of the backends cannot lower, each backend's output must equal that of the program in which the method was never written. The conditional attribute is also written AFTER the item's own auto-gated marker (attributes of one item are independent).",
    "Backend name sets are fixed from the book and checked against the probe; option/callbacks/traits/static_slices support "
    "is cross-checked against observed acceptance behaviour; other support flags are taken from the probe. demo_gen's bundled "
    "js/ subtree is the js backend's output and follows the js truth value.",
    "TLA+ spec + TLC enumeration/simulation; spec->impl replay in-process and through the diplomat-tool binary",
    "DESIGN.md §5 C13")

chk("C04",
    "spec/life/Lifetimes.tla defines, for every method signature over named lifetimes with arbitrary declared bounds, the "
    "outlives relation (declared + `&'x T<'y>` + definition-site bounds of used types incl. Self, transitively closed), the set "
    "MustKeep(r) of parameters a returned value of lifetime r may borrow from, the expected edge list per output lifetime, and "
    "which signatures must be rejected because an implied bound is not spelled out. A GC heap machine (Call with any body Rust's "
    "typing allows, DropRoot, DropRet, GC) is model-checked for NoUseAfterFree with Edges = MustKeep on every accepted "
    "signature; removing one required edge must be refuted (minimality); spec/life/LifetimesProof.tla proves NoUseAfterFree with "
    "TLAPS for any lifetime set, signature and schedule (38 obligations, re-checked on every run). Every TLC-enumerated signature (59k for 2 lifetimes / 1 "
    "parameter; thorough adds 2-parameter and 3-lifetime families) is rendered and run through the real lowering and "
    "Method::borrowing_param_visitor: verdicts and edge lists must match exactly. For a seeded sample the real js, dart, kotlin "
    "and nanobind backends are run and their emitted edge arrays / keep_alive policies must contain MustKeep. Static signatures returning a boxed borrowing opaque are re-rendered as nanobind constructors (nurse 1 = the new object, arguments numbered from 2).",
    "Parameters whose only qualifying lifetime is 'static are don't-care. Returned &str is copied by kotlin/nanobind (exempt "
    "from the emission leg). Backend emission is parsed from generated text; JS/Dart/Kotlin/Python are not executed here.",
    "TLA+ spec + TLC model checking of a GC machine; spec->impl replay of every generated signature through the real analysis",
    "DESIGN.md §5 C04")

chk("C15",
    "spec/pipeline/Pipeline.tla models a tool run as Start -> Lower -> Generate -> {files | errors}; it has no transition from a "
    "lowered run to a crash (negative model with such a transition is refuted by NoCrashAfterLowering). Runs of the real binary "
    "are recorded as Lower/Generate events and validated by Trace_Pipeline.tla. Programs: every shape the Gate spec accepts for "
    "each backend's probed profile (TLC-enumerated, depth 1 quick / depth 2 thorough), hand-listed combination families "
    "(optional/borrowed inputs x borrowing returns, write + result, unit and ZST arms, 'static, slices of strings, owned slices) "
    "x 7 backends x config variants (js.abi legacy/spec, kotlin finalizers, lib_name, demo_gen explicit_generation / "
    "hide_default_renderer / module_name), special-method markers accepted by Special.tla, demo attributes. Lowering success is established "
    "in-process with the probed profile; a panic of the binary afterwards is bisected to single shapes and reported by panic "
    "site, message and shape. A hand-listed family carries every rust_link kind with minimal, longer and too-short paths on a type and a method.",
    "Required config is always supplied; 128-bit integers are excluded as documented. Ten classes of genuine crashes found on "
    "the unchanged tree are recorded in known_findings.json keyed by backend, panic site, message and a shape pattern; any other "
    "site, message, backend or shape is a VIOLATION.",
    "TLA+ pipeline spec + TLC; impl->spec trace validation of recorded tool runs; spec-generated programs (Gate) as inputs",
    "DESIGN.md §5 C15")

chk("C14",
    "spec/determ/Determinism.tla models the source as data (bridge modules, ordered items, non-bridge items, unrelated types) with "
    "one action per edit -- Rerun, SwapItems (guarded: impls stay after their type, impl blocks of one type keep their order), "
    "SwapModules, Insert/RemoveUnrelated, Add/RemoveNonBridge -- and states the property as action properties (GlobalFrame, "
    "LocalFrame) over the semantic content Sem(src) of each type; TLC checks them exhaustively for histories of <=3 (4) edits and "
    "refutes the negative model that allows swapping impl blocks of one type. TLC-simulated edit histories are then replayed on a "
    "real source file: after every step all 7 backends run in fresh processes (fresh hash seeds) and the output trees must be "
    "byte-identical as the action's frame condition demands (all files; or all files except the inserted type's and the per-crate "
    "aggregate files). A longer and then a shorter revision are generated into the SAME output directory and compared with a fresh "
    "directory (the output must not depend on what an earlier run left behind). A separate step inserts a whole bridge module whose enum, struct and opaque are NAMED like base-program "
    "types (told apart by namespace or rename): every base file must be reproduced byte for byte. A command-line leg re-runs every backend in fresh processes with several --docs-base-urls entries (some for crates whose name is a prefix of a linked crate's) and with the entries in the opposite order.",
    "3-type base program (opaque, struct, enum across two bridge modules) + 2 unrelated types + 5 kinds of non-bridge items; "
    "12 (150) histories of 6 steps. Aggregate files are exempt only for insert/remove.",
    "TLA+ spec + TLC (action properties) ; spec->impl replay of TLC-generated edit histories through the real binary",
    "DESIGN.md §5 C14")

chk("C17",
    "spec/config/Config.tla: one action per configuration source applied in the order the tool reads them (file, command line, "
    "attribute) and Resolve for the target language; TLC checks Precedence and OnlyThatLanguage against the declarative "
    "documented rule for all 64 assignments (absent / shared / target-scoped / other-language-scoped per source) and refutes the "
    "negative model that reads the command line before the file; TLAPS PROVES Precedence for any set of languages "
    "(spec/config/ConfigProof.tla, 35 obligations). Each assignment is replayed through the real binary (config.toml "
    "in kebab and snake case, --config, #[diplomat::config]) for lib_name (kotlin, nanobind), unsafe_references_in_callbacks (c, "
    "cpp, kotlin, nanobind), kotlin.domain, js.abi and demo_gen.module_name; the effective value is read from the generated "
    "output (Native.load name, package path, <lib>_ext.cpp, acceptance of callback references, legacy-vs-spec JS, import path). "
    "spec/config/ConfigKeys.tla adds two DIFFERENT keys of one backend (KeysIndependent: assigning one key never changes another; "
    "negative model refuted) and all 64 assignments are replayed for demo_gen.relative_js_path+module_name and "
    "kotlin.domain+lib_name, with both command-line orders and, for the attribute source, on two items or stacked on one; "
    "ConfigKeysProof.tla proves KeysIndependent with TLAPS for any set of keys. String settings are also assigned the EMPTY string on the command line (a bare key=), which wins over the file like any other value.",
    "Distinct values per source make the winner observable; two-valued settings are run once per candidate winner. A required key "
    "left unset ends the run with 'Missing required field' (usage error).",
    "TLA+ spec + TLC; spec->impl replay of every assignment through the real binary",
    "DESIGN.md §5 C17")

chk("C06",
    "spec/abi/Naming.tla defines the exported symbol of every method and destructor under abi_rename patterns (none, fixed, "
    "prefix{0}, {0}suffix) placed on module, type, impl block and method with inheritance module->type (destructor) and "
    "module->impl->method, innermost pattern applied once, plus which items each backend has enabled under a backend-specific "
    "disable/rename; TLC checks injectivity, AppliedOnce, InnermostWins over all 4800 programs (disable on the first method, the last method, an impl block or the type; a later impl block) and refutes the negative model "
    "(composition of patterns). Each program is compiled with the real proc macro and compared three ways: symbols predicted by the "
    "spec = `nm` of the staticlib = symbols referenced by the generated code of each of the 7 backends.",
    "quick: seeded 70 of the 4800 programs in one crate; thorough: all. Type-level abi_rename reaches only the destructor "
    "(book silent; macro and tool agree). References are parsed from generated text.",
    "TLA+ spec + TLC; spec->impl replay comparing spec, compiled macro output (nm) and every backend's output",
    "DESIGN.md §5 C06")

chk("C07",
    "spec/abi/Abi.tla maps every Diplomat type to its C ABI shape (scalars with width/signedness, pointers, {ptr,len} views, "
    "{union,bool} option/result records, by-value structs), defines the native signature of a method (self, parameters in order, "
    "write handle last) and C struct layout; TLC checks SpellingIndependent, NullNiche, FlagLast, UnitNoPayload and LayoutSane over "
    "the catalogue and refutes a flag-first encoding. The catalogue (206 structured-coverage signatures + TLC-simulated "
    "combinations of <=3 parameters) is rendered to one bridge and the real dart and kotlin backends are run; their @ffi.Native "
    "declarations / ffi.Struct mirrors and JNA Library interfaces / Structure classes are parsed into shape trees through fixed "
    "vocabulary tables and compared slot by slot with the spec (parameter count and order, width, signedness, float kind, "
    "pointer vs by-value, record shapes, field order). Extra structs outside the shared catalogue (optional slices and strings as FIELDS) are rendered for Dart.",
    "No Dart/Kotlin toolchain: declarations are compared statically; dart:ffi and JNA are trusted to marshal as documented. "
    "Kotlin vocabulary: code point = Int, bool in fields/returns = Byte, empty unions occupy no storage. The same Abi.tla "
    "shapes are validated dynamically against rustc + gcc by C01.",
    "TLA+ spec + TLC; spec->impl replay: generated declarations parsed and compared with spec-computed ABI shapes",
    "DESIGN.md §5 C07")

chk("C01",
    "spec/abi/CallProtocol.tla is the call/return state machine between a foreign caller and the Rust method bodies (CCall, Enter "
    "with exactly the caller's tokens, Return, CReturn, nested callbacks, refused calls); TLC checks WellNested, AtMostOnce, "
    "ReturnedMeansEntered, RejectedNeverEnters, NoUseAfterDrop (callback objects handed over with a call may be invoked only "
    "while alive, are destroyed exactly once and before the caller resumes). spec/abi/Abi.tla gives every slot's C shape, size and alignment. The catalogue "
    "(206 structured-coverage signatures + TLC-simulated multi-parameter ones) x value vectors (extremes, NaN payloads, non-scalar "
    "DiplomatChar, NULL+0 and empty slices, invalid UTF-8/UTF-16 in unvalidated strings, every Option/Result arm) is compiled with "
    "the real proc macro into a staticlib, declared by the real C backend and driven from a gcc -fsanitize=address,undefined "
    "program that includes only the generated headers. One log function shared by both sides records CCall/RustEnter/RustReturn/"
    "CReturn/CWrite in program order: tokens must be equal across the boundary and equal to the spec's expectation, struct "
    "layouts (sizeof/_Alignof/offsetof vs size_of/align_of/offset_of! vs Layout) must agree, every prototype must be "
    "pointer-compatible with the spec's scalar types and have the spec's size/alignment for aggregates, and the whole log is "
    "validated by Trace_CallProtocol.tla (exactly once, in order); a corrupted token must be rejected. Callback parameters "
    "(35 `impl Fn` signatures over primitive/enum/struct arguments and results): the Rust body invokes the callback per a "
    "script, the C callback logs what it receives and answers from the script (CbInvoke/CbEnter/CbReturn/CbResult), its "
    "destructor logs CbDrop; run_callback's C type must equal the spec's native signature. Trait objects (`impl Trait`, 8 signatures "
    "over three traits of 1-3 methods): {data, vtable {destructor, SIZE, ALIGNMENT, entry points}} built by the C caller, every "
    "scripted method invocation crosses like a callback (tagged with the method), the data pointer must arrive unchanged, the "
    "vtable entry types must equal the spec's native signatures, the destructor runs exactly once. The catalogue's enum carries "
    "#[repr(align(1))]: the macro must force #[repr(C)] regardless. A method taking a DiplomatWrite and returning a value (SigShape: the writer is the last parameter whatever the result is; Mode wval of MC_Abi) is compared at declaration level only: the tool accepts it and drops the writer from every declaration, recorded as a known finding.",
    "x86-64 SysV, gcc 12. Pointers are compared between the two sides. &str arguments are valid UTF-8 (caller's obligation).",
    "TLA+ spec + TLC; spec->impl replay (compiled and executed) and impl->spec trace validation",
    "DESIGN.md §5 C01")

chk("C10",
    "The encoding function of spec/abi/Abi.tla (nullable pointer for &T / Box<T>; {union payload, bool is_ok} for everything "
    "else, flag last, unit arms without payload) is checked by TLC for SpellingIndependent, NullNiche, FlagLast and UnitNoPayload "
    "over all payloads; a flag-first negative model is refuted. TLC emits every payload x {parameter, return} x {Option, "
    "DiplomatOption}, optional pointers, every Result arm combination and options in struct fields; pairs of spellings are "
    "compiled with the real macro, declared by the real C backend and called from a sanitized C driver with identical values "
    "(both arms forced): C declarations must be identical up to the method name, the tokens seen by C and by Rust must be "
    "identical for the two spellings and equal to the spec's expectation (is_ok true exactly for Some/Ok, NULL exactly for absent "
    "pointers), and the event log is validated by Trace_CallProtocol.tla.",
    "Rides on the C01 harness (x86-64, gcc 12, ASan/UBSan). Struct fields admit only the DiplomatOption spelling for non-pointers "
    "(C05), so pairs exist for parameter and return positions.",
    "TLA+ spec + TLC invariants; spec->impl replay of paired spellings, compiled and executed; trace validation",
    "DESIGN.md §5 C10")

chk("C02",
    "Same CallProtocol/Abi specifications as C01, with the refusal step: a C++ caller may refuse a call whose direct &str argument "
    "is not valid UTF-8 (RejectedNeverEnters). The catalogue x value vectors is compiled with the real macro, bound by the real "
    "C++ backend and driven through the generated classes (std::optional, string_view/u16string_view, diplomat::span, structs, "
    "enum wrapper, references, unique_ptr, diplomat::result, std::string from DiplomatWrite) by a g++ driver under ASan/UBSan/LSan, "
    "built twice: -std=c++17 (bundled span) and -std=c++20 (std::span). Tokens sent by C++, received by Rust, returned by Rust "
    "and received by C++ must be equal and equal to the spec's expectation; every direct &str parameter is additionally called "
    "with invalid UTF-8 and must yield the Utf8Error arm without any RustEnter event; event logs are validated by "
    "Trace_CallProtocol.tla. The repository's feature_tests crate is built and its own cpp/tests/*.cpp programs are compiled "
    "against freshly generated headers (with the standard its Makefile uses) and must pass. std::function callbacks run the "
    "same scripts as in C01 (a DropLog captured by the callable reports the destruction of the heap copy the binding owns); "
    "a sample of the calls is repeated with every type moved into nested / shared-prefix / disjoint C++ namespaces and some "
    "types renamed (the driver reaches them through aliases). Operators leg: the operators the C++ backend derives from "
    "special-method markers (six relational operators from one `comparison` method, + - * / and compound assignments, operator[] "
    "for `indexer`, range-for over an `iterable`) must agree with the marked Rust methods on a 7x7 grid incl. i32 extremes; the "
    "expected truth tables come from spec/special/Special.tla (RelHolds, ArithOp; TLC checks RelLaws). Every string-returning method is called twice in a row; both observations must be equal and correct.",
    "x86-64, g++ 12. result<const T&, Utf8Error> combinations are skipped by the driver generator.",
    "TLA+ spec + TLC; spec->impl replay (compiled and executed, two C++ standards) and impl->spec trace validation",
    "DESIGN.md §5 C02")

chk("C11",
    "spec/enums/Enums.tla: rustc's discriminant rule (explicit literal, else previous+1, first 0), the TABLE representation scheme "
    "and the POSITION fast path (index / ordinal / array slot); a builder machine enumerates every enum with <=3 variants over 8 "
    "literals + implicit (quick) / <=5 variants (thorough) and -simulate samples up to 8 variants; TLC checks TableCorrect and "
    "PositionIffContiguous (the fast path is sound exactly for enums numbered 0..n-1 in order) and refutes a contiguity test that "
    "forgets the start at 0. Each enum is compiled with the real macro: `V as i32` printed by the crate is the ground truth and "
    "must equal the spec; the gcc-compiled header constants and a round trip through the exported function, g++ Value/AsFFI/"
    "FromFFI/method round trip, the JS module executed in node (ffiValue, name, lookup by number, method round trip by value and "
    "Option<Self> read back from wasm memory) must agree; "
    "for dart, kotlin and nanobind the tables and the chosen scheme are parsed from the generated text and interpreted by the "
    "spec's scheme model (position scheme only where Contiguous holds). Every third variant of the generated enums is documented; the Dart text is read with comments stripped.",
    "Dart, Kotlin and Python are not executed. JS runs with a stub wasm module (identity exports; `opt` writes Some(v) into the receive buffer).",
    "TLA+ spec + TLC; spec->impl replay compiled/executed (rustc, gcc, g++, node) and scheme interpretation for dart/kotlin/nanobind",
    "DESIGN.md §5 C11")

chk("C09",
    "spec/build/Includes.tla models the decl/impl header discipline (X.d includes by-value members and forward-declares pointees, "
    "X.h includes the .d of everything its methods mention) and a compiler's depth-first include processing with guards; TLC proves "
    "EveryHeaderCompilesAlone for every reference graph on 2 (quick) / 3 (thorough, 23k graphs) types with cycles through pointers "
    "and methods, and refutes the design without by-value includes. spec/pipeline/Pipeline.tla carries AcceptedBuilds. Program sets: "
    "TLC-enumerated reference graphs decorated with namespaces, renames and keyword-named parameters; every shape the Gate spec "
    "accepts, per backend profile (C, C++, JS; minus shapes C15 records as crashing that backend); feature_tests and example. For each set the macro expansion is compiled by rustc (errors are "
    "attributed to the shape via one bridge module per shape, and the remaining shapes must build together), every .h is compiled "
    "alone as C11, every .hpp alone as C++17 and C++20, all headers in shuffled orders, every .mjs goes through node --check and an "
    "import-resolution pass; the Build events are validated by Trace_Pipeline.tla.",
    "Well-formedness is judged by rustc 1.95, gcc/g++ 12, node 20. Rust raw identifiers and callback results that borrow are outside "
    "the grammar (rustc or the language itself refuses them). Seven classes of accepted-but-not-building shapes found on the "
    "unchanged tree are recorded in known_findings.json keyed by shape pattern and compiler message.",
    "TLA+ spec + TLC (design-level include discipline); impl->spec trace validation of build events from real compilers",
    "DESIGN.md §5 C09")

chk("C08",
    "spec/abi/WasmAbi.tla (on top of Abi.tla's C layout at 32-bit pointers) defines the scalar leaves of a struct with their "
    "offsets, and the flattened argument list under the legacy wasm ABI (direct for <=2 scalars, otherwise padded direct with "
    "typed padding = alignment of the preceding field, unions as size/align chunks + flag + padding) and under the spec ABI (single "
    "scalar direct, else one pointer); TLC checks PaddedCoversStruct, ordering and SmallIsDirect for every struct of <=3 fields over "
    "17 field types (5.2k structs) and emits layout, leaves and slot lists. The real JS backend's output is executed in node against "
    "a stub wasm module (real WebAssembly.Memory, bump diplomat_alloc, recording proxy): bytes written by _writeToArrayBuffer, "
    "values read back by _fromFFI from the spec's byte image, DiplomatReceiveBuf size/alignment, and the arguments recorded when the "
    "struct is passed to an export are compared with the spec for js.abi = legacy and spec; newtype chains and out-struct twins of "
    "every case are returned (a single scalar comes back without a receive buffer), and every struct is returned as the error arm "
    "(unit success) and as the success arm (unit error) of a Result: buffer = payload + flag byte, aligned like the payload, flag "
    "found right after the payload. The layout half of the oracle is "
    "cross-checked against host rustc (same structs with pointer-sized fields replaced by u32).",
    "No wasm32 target here: the flattening oracle is docs/wasm_abi_quirks.md as transcribed; three divergences from the documented ABI "
    "are recorded as known findings. Padding bytes and absent option payloads are unspecified.",
    "TLA+ spec + TLC; spec->impl replay by executing generated JS in node; layout oracle cross-checked with rustc",
    "DESIGN.md §5 C08")

NOT_YET = {}


def main():
    props = [json.loads(l) for l in open(os.path.join(V, "properties.jsonl"))]
    na_path = os.path.join(V, "py", "not_applicable.json")
    na = json.load(open(na_path)) if os.path.exists(na_path) else {}
    checks = []
    notapp = []
    for p in props:
        pid = p["id"]
        if pid in CHECKS:
            c = CHECKS[pid]
            checks.append({
                "property_id": pid,
                "quick_cmd": "./check %s --tier quick" % pid,
                "thorough_cmd": "./check %s --tier thorough" % pid,
                "evidence_file": "/verif/evidence/%s.json" % pid,
                "replay_cmd_template": "./check %s --replay {path}" % pid,
                "engine": "tlc",
                "level_claimed": {"category": "model_checking", "text": c["text"], "design_ref": c["ref"]},
                "level_note": c["note"],
                "technique": c["technique"],
            })
        else:
            notapp.append({"property_id": pid, "reason": na.get(pid, "check not built yet in this round; see DESIGN.md §10 build order")})
    hooks_path = os.path.join(V, "py", "hooks.json")
    hooks = json.load(open(hooks_path)) if os.path.exists(hooks_path) else {"source_commits": []}
    m = {
        "version": 1,
        "setup_cmd": "./setup.sh",
        "hooks": {
            "guard": "rust_diplomat_diplomat_verif",
            "enable": "RUSTFLAGS='--cfg rust_diplomat_diplomat_verif' (set in harness/.cargo/config.toml); no hook is currently needed",
            "baseline_off_cmd": "cd /repo && cargo test --workspace --no-fail-fast --offline",
            "source_commits": hooks.get("source_commits", []),
            "add_only": True,
        },
        "engines": [
            {"name": "tlc", "path": "/verif/spec", "serves_properties": sorted(CHECKS),
             "kind_free_text": "explicit TLA+ specifications model-checked by TLC 1.8; bound to the implementation by replaying "
                               "TLC-generated cases/behaviours into the real code (harness/ = Rust crate dv, py/ = orchestration) and by "
                               "validating traces recorded from the real code against Trace_*.tla"}],
        "checks": checks,
        "not_applicable": notapp,
        "notes": "Single entry point ./check <ID> --tier quick|thorough. Exit 0 held / 1 VIOLATION line(s) / 2 tool error. "
                 "known_findings.json lists genuine defects recorded rather than repaired.",
    }
    json.dump(m, open(os.path.join(V, "MANIFEST.json"), "w"), indent=1)
    print("MANIFEST.json: %d checks, %d not_applicable" % (len(checks), len(notapp)))


if __name__ == "__main__":
    main()
