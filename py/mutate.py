#!/usr/bin/env python3
"""mutate.py <file-relative-to-/repo> <old> <new> -- <check ids...>
Applies a textual mutant to /repo, runs the named checks (quick), and reverts. For self-validation only."""
import subprocess, sys
f, old, new = sys.argv[1:4]
ids = sys.argv[5:]
p = "/repo/" + f
s = open(p).read()
if s.count(old) < 1:
    print("pattern not found"); sys.exit(2)
open(p, "w").write(s.replace(old, new, 1))
try:
    for i in ids:
        tier = "quick"
        if ":" in i:
            i, tier = i.split(":")
        r = subprocess.run(["./check", i, "--tier", tier], cwd="/verif", capture_output=True, text=True)
        lines = [l for l in r.stdout.splitlines() if l.startswith(("VIOLATION", "KNOWN", i))]
        print(i, "rc=%d" % r.returncode, "|", " ; ".join(lines[:3])[:400])
        if r.returncode == 2:
            print(r.stderr[-1500:])
finally:
    subprocess.run(["git", "-C", "/repo", "checkout", "--", "."])
