"""C02 — C++ bindings preserve values and outcomes in both directions (spec/abi: Abi, CallProtocol with Reject)."""
import copy, json, os, re
import lib, abisig, callgen, cppgen, c01


NS_TYPES = {"Opq": ("dv::inner", None), "Host": ("dv", "RnHost"), "En": ("dv::inner", "RnEn"), "Inner": ("dv::inner::deep", None),
            "Wide": (None, "RnWide"), "Mix": ("other", "Inner"),      # other::Inner next to dv::inner::deep::Inner: one C++ name, two namespaces
             "Nest": ("dv", None), "WOpt": ("dv::inner", "Rn{0}"), "Brw": (None, None),
            "Os": ("other::x", None)}


def ns_attr(n):
    """namespaces (1-3 levels, shared and disjoint prefixes) and renames for the C++ backend only"""
    ns, rn = NS_TYPES.get(n, (None, None))
    out = ""
    if ns:
        out += '    #[diplomat::attr(cpp, namespace = "%s")]\n' % ns
    if rn:
        out += '    #[diplomat::attr(cpp, rename = "%s")]\n' % rn
    return out


def ns_aliases():
    """C++ aliases that let the driver keep using the catalogue's plain type names"""
    out = []
    for n, (ns, rn) in NS_TYPES.items():
        real = (rn or n).replace("{0}", n)
        q = ((ns + "::") if ns else "") + real
        if q != n:
            out.append("using %s = %s;" % (n, q))
    return "\n".join(out) + "\n"


def build_and_run_cpp(rep, tag, defs, entries, wd, stds=("c++17", "c++20"), namespaced=False):
    g = callgen.Gen(defs, 0)
    bodies = {}
    for e in entries:
        bodies[e["n"]] = g.rust_body(e["n"], e["sig"], e["args"], e["retv"], e["write"]["chunks"] if e["write"] else None,
                                     ret_ty=abisig.rust_ty(e["sig"]["ret"], "'a" if abisig.mentions_borrow(e["sig"]["ret"]) else None))
    src, syms = abisig.module(defs, [(e["n"], e["sig"]) for e in entries], bodies=bodies,
                              host_data=(callgen.HOST_TEXT, callgen.HOST_BYTES, callgen.HOST_WORDS, callgen.HOST_WIDE),
                              type_attr=ns_attr if namespaced else None)
    lib_rs = "#![allow(unused, non_snake_case, clippy::all)]\n" + callgen.RUST_SUPPORT + src
    b = lib.build_bridge("c02_" + tag, lib_rs)
    if not b["ok"]:
        rep.violation({"leg": "build", "what": "macro expansion of the catalogue does not compile"}, {"stderr": b["stderr"][-4000:]})
        return {}
    out = os.path.join(wd, "cpp_" + tag)
    tr = lib.run_tool("cpp", os.path.join(b["dir"], "src", "lib.rs"), out)
    if tr["rc"] != 0:
        rep.violation({"leg": "tool", "what": "C++ backend failed on the catalogue"}, {"stderr": tr["stderr"][-2000:]})
        return {}
    cg = cppgen.CppGen(defs)
    calls = []
    for e in entries:
        blk = cg.call(e["n"], e["sig"], e["args"], e["write"], invalid_utf8=e.get("invalid_utf8", False))
        # a method returning a string is called TWICE in a row: the second std::string must not depend on the first call
        # (a buffer kept between calls, a writer reused without being reset)
        e["repeat"] = 2 if (e["sig"]["write"] and not e.get("invalid_utf8") and not any(p["k"] in ("cb", "trait") for p in e["sig"]["params"])) else 1
        calls += [blk] * e["repeat"]
    headers = sorted(os.path.relpath(os.path.join(r, f), out) for r, _, fs in os.walk(out) for f in fs
                     if f.endswith(".hpp") and not f.endswith(".d.hpp"))
    drv = (cppgen.CPP_SUPPORT + "".join('#include "%s"\n' % h for h in headers) + (ns_aliases() if namespaced else "") + cppgen.WTOK +
           "int main() {\n    std::unique_ptr<Opq> obj = Opq::mk(1);\n    std::unique_ptr<Host> host = Host::mk(7);\n    "
           + "\n    ".join(calls) + "\n    return 0;\n}\n")
    dp = os.path.join(wd, "driver_%s.cpp" % tag)
    open(dp, "w").write(drv)
    results = {}
    for std in stds:
        exe = os.path.join(wd, "driver_%s_%s" % (tag, std.replace("+", "p")))
        cc = lib.sh(["g++", "-std=" + std, "-g", "-O0", "-fsanitize=address,undefined", "-fno-omit-frame-pointer", "-I", out, dp,
                     b["staticlib"], "-lpthread", "-ldl", "-lm", "-o", exe], timeout=1200)
        if cc.returncode != 0:
            rep.violation({"leg": "cxx", "std": std, "what": "driver does not compile against the generated C++ headers"},
                          {"stderr": cc.stderr[:3000], "driver": dp})
            continue
        p = lib.sh([exe], timeout=300, env={"ASAN_OPTIONS": "detect_leaks=1", "UBSAN_OPTIONS": "print_stacktrace=1"})
        events = []
        for line in p.stdout.splitlines():
            if line.startswith("{"):
                try:
                    events.append(json.loads(line))
                except ValueError:
                    pass
        if p.returncode != 0 or "ERROR: AddressSanitizer" in p.stderr or "runtime error:" in p.stderr or "LeakSanitizer" in p.stderr:
            rep.violation({"leg": "run", "std": std, "what": "driver crashed or sanitizer report", "signal": p.returncode},
                          {"stderr": p.stderr[-3000:], "last_event": events[-1] if events else None, "driver": dp})
        results[std] = events
    return results


def check_events_cpp(rep, g, entries, events, std):
    by_f, cb_f = {}, {}
    for ev in events:
        if ev["ev"].startswith("Cb"):
            cb_f.setdefault(ev["f"].split(".")[0], []).append(ev)
        else:
            by_f.setdefault(ev["f"], []).append(ev)
    ncmp = 0
    for e in entries:
        sig = e["sig"]
        evs = by_f.get("f%d" % e["n"], [])
        kinds = [x["ev"] for x in evs]
        key = {"leg": "cpp", "std": std, "ret": sig["ret"]["k"], "self": sig["self"]["k"],
               "params": [p["k"] + ":" + str(p.get("p") or p.get("n") or p.get("e") or p.get("enc") or "") for p in sig["params"]]}
        if e.get("invalid_utf8"):
            # the binding must refuse the call: nothing reaches Rust, the caller sees the Utf8Error arm
            if kinds != ["CCall", "CReturn"] or evs[1]["v"] != "err(utf8)":
                rep.violation(dict(key, what="invalid UTF-8 in a &str argument was not rejected before reaching Rust"), {"sig": sig, "events": evs})
            ncmp += 1
            continue
        retv = e["retv"]
        no_string = sig["write"] and ((sig["ret"]["k"] == "res" and "err" in retv) or (sig["ret"]["k"] == "opt" and "none" in retv))
        want = ["CCall", "RustEnter", "RustReturn", "CReturn"] + (["CWrite"] if sig["write"] and not no_string else [])
        reps = e.get("repeat", 1)
        if kinds != want * reps:
            rep.violation(dict(key, what="call protocol (exactly once per call, in order)"), {"sig": sig, "events": evs, "expected_order": want * reps})
            continue
        if reps == 2:
            # the second call of the pair is judged exactly like the first
            first, second = evs[:len(want)], evs[len(want):]
            if [x["v"] for x in first] != [x["v"] for x in second]:
                rep.violation(dict(key, what="the same call made twice gives two different observations"),
                              {"sig": sig, "first": first, "second": second})
                continue
            evs = first
        if not c01.check_callbacks(rep, g, e, key, evs, cb_f.get("f%d" % e["n"], [])):
            continue
        slots = []
        if sig["self"]["k"] in ("opq", "opqmut"):
            slots.append("p:@host")
        elif sig["self"]["k"] in ("struct", "enum"):
            slots.append(g.tok(sig["self"], e["args"]["self"]))
        slots += [g.tok(p, v) for p, v in zip(sig["params"], e["args"]["params"])]
        exp_args, exp_ret = ";".join(slots), g.tok(sig["ret"], retv)
        ccall, enter, rret, cret = evs[0]["v"], evs[1]["v"], evs[2]["v"], evs[3]["v"]
        ncmp += 1
        if ccall != enter or c01.norm_ptr(ccall) != c01.norm_ptr(exp_args):
            rep.violation(dict(key, what="arguments changed between C++ and Rust"), {"sig": sig, "expected": exp_args, "cpp_sent": ccall, "rust_received": enter})
        if rret != cret or c01.norm_ptr(cret) != c01.norm_ptr(exp_ret):
            rep.violation(dict(key, what="return value differs"), {"sig": sig, "expected": exp_ret, "rust_returned": rret, "cpp_received": cret})
        if sig["write"] and not no_string:
            text = "".join(e["write"]["chunks"]).encode("utf8")
            expw = "w[%d|%s]" % (len(text), ",".join("u8:%x" % b for b in text))
            if evs[4]["v"] != expw:
                rep.violation(dict(key, what="returned std::string differs from what Rust wrote"), {"sig": sig, "expected": expw, "observed": evs[4]["v"]})
        rep.nontriv(json.dumps([std, sig, e["args"], retv], sort_keys=True))
    return ncmp


def feature_tests_leg(rep, wd):
    """the repository's own feature_tests bridge + its C++ test programs, against freshly generated headers"""
    import shutil
    td = os.path.join(lib.WORK, "rtarget")
    p = lib.sh(["cargo", "build", "--offline", "-p", "diplomat-feature-tests", "--manifest-path", os.path.join(lib.REPO, "Cargo.toml"),
                "--target-dir", td], env=lib.cargo_env(), timeout=1800)
    if p.returncode != 0:
        rep.violation({"leg": "feature_tests", "what": "feature_tests crate does not build"}, {"stderr": p.stderr[-3000:]})
        return 0
    ft = os.path.join(wd, "ft")
    shutil.rmtree(ft, ignore_errors=True)
    os.makedirs(os.path.join(ft, "tests"))
    exe = lib.build_tool()
    g = lib.sh([exe, "cpp", os.path.join(ft, "include"), "--entry", "src/lib.rs", "--config-file", "config.toml"],
               cwd=os.path.join(lib.REPO, "feature_tests"), timeout=120)
    if g.returncode != 0:
        rep.violation({"leg": "feature_tests", "what": "cpp backend fails on feature_tests"}, {"stderr": g.stderr[-2000:]})
        return 0
    src = os.path.join(lib.REPO, "feature_tests", "cpp", "tests")
    n = 0
    for f in sorted(os.listdir(src)):
        shutil.copy(os.path.join(src, f), os.path.join(ft, "tests", f))
    for f in sorted(os.listdir(src)):
        if not f.endswith(".cpp"):
            continue
        # each test program is built with the standard the repository's own Makefile uses for it
        mk = open(os.path.join(lib.REPO, "feature_tests", "cpp", "Makefile")).read()
        m = re.search(r'-std=(c\+\+\d+) \./tests/%s' % re.escape(f), mk)
        for std in ([m.group(1)] if m else ["c++17"]):
            out = os.path.join(ft, "tests", f[:-4] + "_" + std.replace("+", "p"))
            cc = lib.sh(["g++", "-std=" + std, "-g", "-fsanitize=address,undefined", os.path.join(ft, "tests", f),
                         os.path.join(td, "debug", "libdiplomat_feature_tests.a"), "-ldl", "-lpthread", "-lm", "-o", out], timeout=600)
            if cc.returncode != 0:
                rep.violation({"leg": "feature_tests", "test": f, "std": std, "what": "test does not compile"}, {"stderr": cc.stderr[:2500]})
                continue
            r = lib.sh([out], timeout=120, env={"ASAN_OPTIONS": "detect_leaks=1"})
            n += 1
            rep.nontriv("feature_tests|%s|%s" % (f, std))
            if r.returncode != 0 or "ERROR: AddressSanitizer" in r.stderr or "runtime error:" in r.stderr:
                rep.violation({"leg": "feature_tests", "test": f, "std": std, "what": "test fails or sanitizer report"},
                              {"rc": r.returncode, "stdout": r.stdout[-1500:], "stderr": r.stderr[-2500:]})
    return n


OPS_BRIDGE = open("/tmp/pb/ops/lib.rs").read() if False else r'''
#![allow(unused, non_snake_case, clippy::all)]
#[diplomat::bridge]
pub mod ffi {
    #[diplomat::opaque]
    pub struct Ver(pub i32);
    impl Ver {
        pub fn mk(v: i32) -> Box<Ver> { Box::new(Ver(v)) }
        pub fn get(&self) -> i32 { self.0 }
        #[diplomat::attr(auto, comparison)]
        pub fn cmp(&self, o: &Ver) -> core::cmp::Ordering { self.0.cmp(&o.0) }
        #[diplomat::attr(auto, add)]
        pub fn plus(&self, o: &Ver) -> Box<Ver> { Box::new(Ver(self.0.wrapping_add(o.0))) }
        #[diplomat::attr(auto, sub)]
        pub fn minus(&self, o: &Ver) -> Box<Ver> { Box::new(Ver(self.0.wrapping_sub(o.0))) }
        #[diplomat::attr(auto, mul)]
        pub fn times(&self, o: &Ver) -> Box<Ver> { Box::new(Ver(self.0.wrapping_mul(o.0))) }
        #[diplomat::attr(auto, div)]
        pub fn over(&self, o: &Ver) -> Box<Ver> { Box::new(Ver(if o.0 == 0 { 0 } else { self.0.wrapping_div(o.0) })) }
        #[diplomat::attr(auto, add_assign)]
        pub fn add_eq(&mut self, o: &Ver) { self.0 = self.0.wrapping_add(o.0) }
        #[diplomat::attr(auto, sub_assign)]
        pub fn sub_eq(&mut self, o: &Ver) { self.0 = self.0.wrapping_sub(o.0) }
        #[diplomat::attr(auto, mul_assign)]
        pub fn mul_eq(&mut self, o: &Ver) { self.0 = self.0.wrapping_mul(o.0) }
        #[diplomat::attr(auto, indexer)]
        pub fn at(&self, i: usize) -> Option<u8> { if i < 3 { Some((self.0 as u8).wrapping_add(i as u8)) } else { None } }
    }
    pub struct Pri {
        pub n: i32,
    }
    impl Pri {
        #[diplomat::attr(auto, comparison)]
        pub fn cmp(self, o: Pri) -> core::cmp::Ordering { self.n.cmp(&o.n) }
        // arithmetic on a VALUE type: the C++ backend derives the compound assignments (+=, -=, *=, /=) from these
        #[diplomat::attr(auto, add)]
        pub fn plus(self, o: Pri) -> Pri { Pri { n: self.n.wrapping_add(o.n) } }
        #[diplomat::attr(auto, sub)]
        pub fn minus(self, o: Pri) -> Pri { Pri { n: self.n.wrapping_sub(o.n) } }
        #[diplomat::attr(auto, mul)]
        pub fn times(self, o: Pri) -> Pri { Pri { n: self.n.wrapping_mul(o.n) } }
        #[diplomat::attr(auto, div)]
        pub fn over(self, o: Pri) -> Pri { Pri { n: if o.n == 0 { 0 } else { self.n.wrapping_div(o.n) } } }
    }
    #[diplomat::opaque]
    pub struct It(pub Vec<u8>, pub usize);
    impl It {
        #[diplomat::attr(auto, iterator)]
        pub fn next(&mut self) -> Option<u8> { let r = self.0.get(self.1).copied(); self.1 += 1; r }
    }
    #[diplomat::opaque]
    pub struct Coll(pub Vec<u8>);
    impl Coll {
        pub fn mk(n: u8) -> Box<Coll> { Box::new(Coll((0..n).map(|x| x.wrapping_mul(3)).collect())) }
        #[diplomat::attr(auto, iterable)]
        pub fn iter<'a>(&'a self) -> Box<It> { Box::new(It(self.0.clone(), 0)) }
    }
}
'''


def operators_leg(rep, wd):
    """markers that the C++ backend turns into operators (Special.tla: RelHolds, ArithOp): the operator must give what the marked
    Rust method gives -- all six relational operators from one `comparison` method, +,-,*,/ and the compound assignments,
    operator[] for `indexer`, range-for over an `iterable`"""
    t = lib.tlc("special", "MC_Special", "special_ops.cfg", workers=1, coverage=False, timeout=300)
    lib.tlc_expect_ok(t, "Special: operator laws")
    rep.add_tlc("Special/ops", t)
    ops = t.printed["OPS"][0]
    b = lib.build_bridge("c02_ops", OPS_BRIDGE)
    if not b["ok"]:
        rep.violation({"leg": "operators", "what": "bridge with special-method markers does not compile"}, {"stderr": b["stderr"][-3000:]})
        return 0
    out = os.path.join(wd, "cpp_ops")
    tr = lib.run_tool("cpp", os.path.join(b["dir"], "src", "lib.rs"), out)
    if tr["rc"] != 0:
        rep.violation({"leg": "operators", "what": "C++ backend failed"}, {"stderr": tr["stderr"][-2000:]})
        return 0
    vals = [-2147483647 - 1, -7, -1, 0, 1, 7, 2147483647]
    L = ['#include <cstdio>\n#include <cstdint>\n#include <vector>\n#include "Ver.hpp"\n#include "Pri.hpp"\n#include "Coll.hpp"\n#include "It.hpp"\n',
         'static int bad;\n#define CK(c, ...) do { if (!(c)) { bad++; printf("{\\"bad\\":\\"%s\\",\\"a\\":%lld,\\"b\\":%lld}\\n", #c, (long long)A, (long long)B); } } while (0)\n',
         "static int ord(long long a, long long b) { return a < b ? -1 : (a > b ? 1 : 0); }\n",
         "int main() {\n    const long long V[] = {%s};\n    for (long long A : V) for (long long B : V) {\n" % ", ".join("%dLL" % v for v in vals),
         "        auto a = Ver::mk((int32_t)A); auto b = Ver::mk((int32_t)B); int o = ord(A, B); Pri pa{(int32_t)A}; Pri pb{(int32_t)B};\n"]
    sel = {"lt": "o == -1", "eq": "o == 0", "gt": "o == 1"}
    for op, row in sorted(ops["rel"].items()):
        exp = " || ".join("(%s)" % sel[k] for k, v in row.items() if v) or "false"
        L.append("        CK(((*a) %s (*b)) == (%s));\n        CK((pa %s pb) == (%s));\n" % (op, exp, op, exp))
    w32 = lambda e: "(int32_t)(uint32_t)((uint32_t)(int32_t)A %s (uint32_t)(int32_t)B)" % e
    for marker, (cop, rust) in {"add": ("+", "+"), "sub": ("-", "-"), "mul": ("*", "*")}.items():
        assert ops["arith"][marker] == cop
        L.append("        CK(((*a) %s (*b))->get() == %s);\n" % (cop, w32(rust)))
    L.append("        if (B != 0 && !(A == V[0] && B == -1)) CK(((*a) / (*b))->get() == (int32_t)(A / B));\n")
    for marker, cop in (("add_assign", "+"), ("sub_assign", "-"), ("mul_assign", "*")):
        assert ops["arith"][marker] == cop + "="
        L.append("        { auto c = Ver::mk((int32_t)A); (*c) %s= (*b); CK(c->get() == %s); CK(b->get() == (int32_t)B); }\n" % (cop, w32(cop)))
    # value types: the binary operator and the DERIVED compound assignment (receiver and argument must not be swapped: - and / show it)
    for cop in ("+", "-", "*"):
        L.append("        CK((pa %s pb).n == %s);\n        { Pri c{(int32_t)A}; c %s= pb; CK(c.n == %s); CK(pb.n == (int32_t)B); }\n" % (cop, w32(cop), cop, w32(cop)))
    L.append("        if (B != 0 && !(A == V[0] && B == -1)) { CK((pa / pb).n == (int32_t)(A / B)); Pri c{(int32_t)A}; c /= pb; CK(c.n == (int32_t)(A / B)); }\n")
    L.append("        for (size_t i = 0; i < 5; i++) { auto x = (*a)[i]; CK(x.has_value() == (i < 3)); if (i < 3) CK(*x == (uint8_t)((uint8_t)(int32_t)A + i)); }\n    }\n")
    L.append("    for (long long A : {0LL, 1LL, 5LL}) { long long B = 0; auto c = Coll::mk((uint8_t)A); std::vector<uint8_t> got; for (auto x : *c) got.push_back(x);\n"
             "        CK(got.size() == (size_t)A); for (size_t i = 0; i < got.size(); i++) CK(got[i] == (uint8_t)(3 * i)); }\n")
    L.append('    printf("{\\"checked\\":true,\\"bad\\":%d}\\n", bad);\n    return 0;\n}\n')
    dp = os.path.join(wd, "driver_ops.cpp")
    open(dp, "w").write("".join(L))
    n = 0
    for std in ("c++17", "c++20"):
        exe = os.path.join(wd, "driver_ops_" + std.replace("+", "p"))
        cc = lib.sh(["g++", "-std=" + std, "-g", "-O0", "-fsanitize=address,undefined", "-I", out, dp, b["staticlib"], "-lpthread", "-ldl", "-lm", "-o", exe], timeout=600)
        if cc.returncode != 0:
            rep.violation({"leg": "operators", "std": std, "what": "driver using the generated operators does not compile"}, {"stderr": cc.stderr[:3000], "driver": dp})
            continue
        p = lib.sh([exe], timeout=120, env={"ASAN_OPTIONS": "detect_leaks=1"})
        lines = [json.loads(l) for l in p.stdout.splitlines() if l.startswith("{")]
        fin = [l for l in lines if "checked" in l]
        if p.returncode != 0 or not fin or "ERROR: AddressSanitizer" in p.stderr or "LeakSanitizer" in p.stderr or "runtime error:" in p.stderr:
            rep.violation({"leg": "operators", "std": std, "what": "driver crashed or sanitizer report"}, {"stderr": p.stderr[-2500:], "driver": dp})
            continue
        for l in lines:
            if "bad" in l and "checked" not in l:
                rep.violation({"leg": "operators", "std": std, "what": "operator result differs from the marked Rust method", "check": l["bad"][:60]},
                              {"a": l["a"], "b": l["b"], "check": l["bad"]})
        n += len(vals) * len(vals) * 30
        rep.nontriv("operators|" + std)
    return n


def usable(sig):
    if any(p["k"] == "strs" or (p["k"] == "opt" and p["t"]["k"] == "strs") for p in sig["params"]):
        return False        # lists of strings are driven through the C leg (C01) only
    if any(p["k"] == "trait" for p in sig["params"]):
        return False        # the C++ backend declares no trait support: `impl Trait` parameters belong to the C leg (C01) only
    has_utf8 = any(p["k"] == "str" and p["enc"] == "utf8" for p in sig["params"])
    if has_utf8 and (sig["ret"]["k"] in ("opq", "optopq") or (sig["ret"]["k"] == "res" and sig["ret"]["ok"]["k"] == "opq")
                     or (sig["ret"]["k"] == "struct" and sig["ret"]["n"] == "Brw")):
        return False        # result<const T&, Utf8Error> needs reference_wrapper plumbing the driver generator does not have
    return True


def run(rep, tier):
    wd = rep.wd
    rep.rule = ("cases = the Abi.tla catalogue (incl. 35 callback signatures) x value vectors (as C01) driven through the generated C++ classes: std::optional, "
                "string_view/u16string_view, diplomat::span, structs, enum wrapper, references, unique_ptr, diplomat::result, std::string; "
                "compiled with g++ -std=c++17 (bundled span) and -std=c++20 (std::span) under ASan/UBSan; plus every direct &str "
                "parameter with invalid UTF-8, which must be refused before reaching Rust; non-trivial = distinct (standard, signature, "
                "values)")
    rep.assumptions += ["x86-64, g++ 12", "namespaced/renamed types are exercised by the feature_tests leg only"]
    m = lib.tlc("abi", "CallProtocol", "call.cfg", workers=4)
    lib.tlc_expect_ok(m, "CallProtocol")
    rep.add_tlc("CallProtocol", m)
    defs, cases = c01.catalogue(rep, tier, 40 if tier == "quick" else 1200)
    cases = [c for c in cases if usable(c["sig"])]
    g, entries = c01.make_entries(defs, cases, 1 if tier == "quick" else 3, lib.seed() + 2)
    # invalid UTF-8 through every direct &str parameter
    extra = []
    n = len(entries)
    for e in list(entries):
        idx = [i for i, p in enumerate(e["sig"]["params"]) if p["k"] == "str" and p["enc"] == "utf8" and not p["own"]]
        owned = any((p["k"] == "str" and p["own"]) or (p["k"] == "slice" and p["m"] == "own") for p in e["sig"]["params"])
        if idx and not owned and len(extra) < 80:
            # one call per validated string: exactly that one is malformed, the others stay valid
            for bad in idx:
                e2 = copy.deepcopy(e)
                e2["n"] = n
                n += 1
                e2["args"]["params"][bad] = {"null": False, "items": [0x61, 0xff, 0x62]}
                e2["invalid_utf8"] = True
                extra.append(e2)
    entries += extra
    B = 450
    total = 0

    def run_batch(chunk, tag, namespaced=False):
        n = 0
        res = build_and_run_cpp(rep, tag, defs, chunk, wd, namespaced=namespaced)
        for std, events in res.items():
            n += check_events_cpp(rep, g, chunk, events, std)
            tr = os.path.join(wd, "trace_%s_%s.ndjson" % (tag, std.replace("+", "p")))
            lib.write_ndjson(tr, events)
            ok, r = lib.validate_trace("abi", "Trace_CallProtocol", "call_trace.cfg", tr, heap="4g")
            rep.add_tlc("Trace_CallProtocol/%s/%s" % (tag, std), r)
            if not ok:
                rej = (r.printed.get("REJECTED") or [{}])[0]
                rep.violation({"leg": "trace", "std": std, "what": "trace is not a behaviour of CallProtocol", "event": (rej.get("event") or {}).get("ev")},
                              {"rejected": rej, "trace": tr})
        return n

    for i in range(0, len(entries), B):
        total += run_batch(entries[i:i + B], "b%d" % (i // B))
    # the same calls with every type moved into (nested, shared-prefix and disjoint) C++ namespaces and some renamed:
    # the driver reaches them through aliases, so only the generated code changes
    step = max(1, len(entries) // (150 if tier == "quick" else 450))
    ns_chunk = copy.deepcopy(entries[::step])
    for k, e in enumerate(ns_chunk):
        e["n"] = k
    total += run_batch(ns_chunk, "ns", namespaced=True)
    rep.extra["namespaced_calls"] = len(ns_chunk)
    total += operators_leg(rep, wd)
    nft = feature_tests_leg(rep, wd)
    rep.extra["feature_tests_programs_run"] = nft
    total += nft
    rep.extra["invalid_utf8_calls"] = len(extra)
    rep.evaluations += total
    rep.traces += total
    rep.sample({"sig": entries[3]["sig"], "args": entries[3]["args"], "ret": entries[3]["retv"]})
    rep.exhaustive = False
