#!/usr/bin/env python3
"""./check <ID> [--tier quick|thorough] [--replay FILE]

exit 0: property held on everything explored (KNOWN-FINDING lines may be printed)
exit 1: at least one `VIOLATION property=<id> replay=<path>` line was printed
exit 2: tool error / timeout (never a verdict)
"""
import argparse, importlib, os, sys, traceback
sys.path.insert(0, os.path.dirname(os.path.abspath(__file__)))
import lib


def main():
    ap = argparse.ArgumentParser()
    ap.add_argument("pid")
    ap.add_argument("--tier", default=os.environ.get("VERIF_TIER", "quick"), choices=["quick", "thorough"])
    ap.add_argument("--replay", default=None)
    a = ap.parse_args()
    pid = a.pid.upper()
    try:
        mod = importlib.import_module(pid.lower())
    except ImportError as e:
        print("no check for %s: %s" % (pid, e), file=sys.stderr)
        return 2
    try:
        if a.replay:
            if hasattr(mod, "replay"):
                return mod.replay(a.replay)
            # generic replay: show the recorded case, re-run the check with the recorded seed/tier and
            # report whether the same failing key shows up again
            import json
            v = json.load(open(a.replay))
            print(json.dumps(v, indent=1)[:6000])
            os.environ["VERIF_SEED"] = str(v.get("seed", 1))
            rep = lib.Report(pid, v.get("tier", "quick"))
            mod.run(rep, v.get("tier", "quick"))
            rep.finish()
            again = json.dumps(v.get("key"), sort_keys=True, default=str) in rep.viol_keys
            print("REPLAY %s: %s" % (pid, "violation reproduced" if again else "not reproduced"))
            return 1 if again else 0
        rep = lib.Report(pid, a.tier)
        try:
            mod.run(rep, a.tier)
        except lib.ToolError as e:
            # a leg that could not complete AFTER violations were already observed does not erase them: the verdict
            # stands (exit 1), the incomplete leg is recorded in the evidence
            if rep.violations:
                print("TOOL-ERROR %s (after violations were found; verdict stands): %s" % (pid, e), file=sys.stderr)
                rep.assumptions.append("a later leg did not complete: %s" % str(e)[:300])
                return rep.finish()
            raise
        except Exception:
            # the same for an internal error of a later leg (e.g. a self-test that finds nothing to work on because the run before
            # it crashed inside the code under test): what was observed stays observed
            if rep.violations:
                traceback.print_exc()
                print("INTERNAL-ERROR %s (after violations were found; verdict stands)" % pid, file=sys.stderr)
                rep.assumptions.append("a later leg did not complete (internal error of the check)")
                return rep.finish()
            raise
        return rep.finish()
    except lib.ToolError as e:
        print("TOOL-ERROR %s: %s" % (pid, e), file=sys.stderr)
        return 2
    except Exception:
        traceback.print_exc()
        return 2


if __name__ == "__main__":
    sys.exit(main())
