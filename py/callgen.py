"""Value-level generators for the call-protocol legs (C01, C10, C03b; the C++ variant lives in cppgen.py).

For every signature of the Abi catalogue and every value vector this module produces
  * the Rust method body (logs RustEnter with the tokens of what it received, builds the return value, logs RustReturn),
  * the C driver code (builds the arguments, logs CCall, calls through the generated header, logs CReturn),
  * the expected tokens, computed from the abstract values alone.
Tokens are canonical renderings of bit patterns, so "delivered bit-for-bit" is string equality per ABI slot.
"""
import json, random, struct
from abisig import fname

W = {"u8": 8, "i8": 8, "u16": 16, "i16": 16, "u32": 32, "i32": 32, "u64": 64, "i64": 64, "usize": 64, "isize": 64}
CTY = {"u8": "uint8_t", "i8": "int8_t", "u16": "uint16_t", "i16": "int16_t", "u32": "uint32_t", "i32": "int32_t", "u64": "uint64_t",
       "i64": "int64_t", "usize": "size_t", "isize": "intptr_t", "f32": "float", "f64": "double", "bool": "bool", "char": "char32_t"}
RTY = {"u8": "u8", "i8": "i8", "u16": "u16", "i16": "i16", "u32": "u32", "i32": "i32", "u64": "u64", "i64": "i64", "usize": "usize",
       "isize": "isize", "f32": "f32", "f64": "f64", "bool": "bool", "char": "u32"}
UNS = {8: "u8", 16: "u16", 32: "u32", 64: "u64"}
# E: explicit value equal to its POSITION right after an implicit previous+1 one (a binding that numbers by position or drops
# "redundant" explicit values shows)
ENUM_VALS = [("A", 0), ("B", 5), ("C", -3), ("D", -2), ("E", 4)]

# contents of the Host object every borrowed return borrows from
HOST_TEXT = "héllo €"
HOST_BYTES = [0, 1, 254, 255]
HOST_FLOATS = [1.5, -0.0]
HOST_WORDS = [7, 0xFFFFFFFF, 3]
HOST_WIDE = [0x68, 0xD83D, 0xDE00, 0xDC00]      # includes an unpaired low surrogate


def interesting(p):
    """bit patterns (as unsigned ints of the type's width) worth sending through the boundary"""
    if p in W:
        w = W[p]
        m = (1 << w) - 1
        return [0, 1, m, 1 << (w - 1), (1 << (w - 1)) - 1, 0xA5A5A5A5A5A5A5A5 & m]
    if p == "f32":
        return [0x7fc00001, 0x7fa00001, 0x80000000, 0x7f800000, 0x3fc00000, 0xff800000, 0x00000001]
    if p == "f64":
        return [0x7ff8000000000001, 0x7ff4000000000001, 0x8000000000000000, 0x7ff0000000000000, 0x3ff8000000000000, 0x0000000000000001]
    if p == "bool":
        return [0, 1]
    if p == "char":
        return [0x61, 0x10ffff, 0xd800, 0x110000, 0xffffffff, 0]
    raise ValueError(p)


class Gen:
    def __init__(self, defs, seed):
        self.defs = defs["structs"]
        self.rng = random.Random(seed)
        self.prelude = []        # C functions (callback bodies) that have to precede main()

    # ---------------------------------------------------------------------------------- abstract values
    def value(self, t, pos):
        """pos: 'param' | 'ret'. Returns a JSON-able abstract value."""
        r = self.rng
        k = t["k"]
        if k == "prim":
            return r.choice(interesting(t["p"]))
        if k == "enum":
            return r.choice(ENUM_VALS)[0]
        if k == "struct":
            return [self.value(f, pos) for f in self.defs[t["n"]]]
        if k in ("opq", "opqmut"):
            return "obj" if pos == "param" else "inner"          # a live object / the object inside Host
        if k == "optopq":
            return r.choice([None, "obj" if pos == "param" else "inner"])
        if k == "box":
            return r.choice([11, 12])                              # id of a fresh Opq
        if k == "optbox":
            return r.choice([None, 13])
        if k == "opt":
            if r.random() < 0.4:
                return {"none": True}
            return {"some": None if t["t"]["k"] == "unit" else self.value(t["t"], pos)}
        if k == "slice":
            if pos == "ret":
                return {"host": {"u8": "bytes", "f64": "floats", "u32": "words"}[t["e"]]}
            n = r.choice([0, 0, 1, 3])
            null = (n == 0 and r.random() < 0.5)
            return {"null": null, "items": [r.choice(interesting(t["e"])) for _ in range(n)]}
        if k == "str":
            if pos == "ret":
                return {"host": "text" if t["enc"] == "utf8" else "wide"}
            if t["enc"] == "utf8":
                s = r.choice(["", "a", "hé€\U0001F600", "\u0000x"])
                return {"null": s == "" and r.random() < 0.5, "items": list(s.encode("utf8"))}
            if t["enc"] == "u8":
                b = r.choice([[], [0x61], [0xff, 0xc0, 0x80], [0xed, 0xa0, 0x80, 0x41]])     # not valid UTF-8 on purpose
                return {"null": not b and r.random() < 0.5, "items": b}
            u = r.choice([[], [0x61], [0xd800, 0x41], [0xdc00, 0xffff, 0]])                    # unpaired surrogates on purpose
            return {"null": not u and r.random() < 0.5, "items": u}
        if k == "res":
            if r.random() < 0.5:
                return {"ok": None if t["ok"]["k"] == "unit" else self.value(t["ok"], pos)}
            return {"err": None if t["err"]["k"] == "unit" else self.value(t["err"], pos)}
        if k == "unit":
            return None
        if k == "cb":
            # the script of the callback: how often the Rust body invokes it, with which arguments, and what the
            # foreign side answers each time
            calls = []
            for _ in range(r.choice([0, 1, 1, 2, 3])):
                calls.append({"args": [self.value(a, "param") for a in t["ps"]],
                              "ret": None if t["r"]["k"] == "unit" else self.value(t["r"], "param")})
            return {"calls": calls}
        if k == "strs":
            # a list of 0..3 strings (code units; the validated encoding gets valid UTF-8)
            pool = {"u8": [[], [0x61], [0xff, 0x00, 0x62]], "u16": [[], [0x61], [0xd800, 0x41, 0xffff]], "utf8": [[], [0x61], list("hé€".encode("utf8"))]}[t["enc"]]
            return {"list": [list(r.choice(pool)) for _ in range(r.choice([0, 1, 2, 3]))]}
        if k == "trait":
            # the script of a trait object: which method the Rust body invokes (in this order), with which arguments, and the answers
            calls = []
            for _ in range(r.choice([1, 2, 3, 4])):
                q = r.randrange(len(t["ms"]))
                m = t["ms"][q]
                calls.append({"m": q, "args": [self.value(a, "param") for a in m["ps"]],
                              "ret": None if m["r"]["k"] == "unit" else self.value(m["r"], "param")})
            return {"calls": calls}
        raise ValueError(k)

    # ---------------------------------------------------------------------------------- expected tokens
    def tok(self, t, v):
        k = t["k"]
        if k == "prim":
            return "%s:%x" % (t["p"], v)
        if k == "enum":
            return "e:%x" % (dict(ENUM_VALS)[v] & 0xffffffff)
        if k == "struct":
            return "{" + ",".join(self.tok(f, x) for f, x in zip(self.defs[t["n"]], v)) + "}"
        if k in ("opq", "opqmut", "optopq"):
            return "p:0" if v is None else "p:@" + v
        if k in ("box", "optbox"):
            return "p:0" if v is None else "p:@box%d" % v
        if k == "opt":
            if "none" in v:
                return "none"
            return "some(%s)" % ("" if t["t"]["k"] == "unit" else self.tok(t["t"], v["some"]))
        if k in ("slice", "str"):
            e = t["e"] if k == "slice" else {"utf8": "u8", "u8": "u8", "u16": "u16"}[t["enc"]]
            if "host" in v:
                items = {"bytes": HOST_BYTES, "words": HOST_WORDS, "wide": HOST_WIDE, "text": list(HOST_TEXT.encode("utf8")),
                         "floats": [struct.unpack("<Q", struct.pack("<d", x))[0] for x in HOST_FLOATS]}[v["host"]]
            else:
                items = v["items"]
            return "[%d|%s]" % (len(items), ",".join("%s:%x" % (e, x) for x in items))
        if k == "res":
            if "ok" in v:
                return "ok(%s)" % ("" if t["ok"]["k"] == "unit" else self.tok(t["ok"], v["ok"]))
            return "err(%s)" % ("" if t["err"]["k"] == "unit" else self.tok(t["err"], v["err"]))
        if k == "unit":
            return "()"
        if k in ("cb", "trait"):
            return "cb"
        if k == "strs":
            e = "u16" if t["enc"] == "u16" else "u8"
            return "L[%s]" % ";".join("[%d|%s]" % (len(x), ",".join("%s:%x" % (e, y) for y in x)) for x in v["list"])
        raise ValueError(k)

    # ---------------------------------------------------------------------------------- Rust side
    def rust_fmt(self, t, e):
        """Rust expression of type String rendering value expression `e` (a place expression, not consumed)"""
        k = t["k"]
        if k == "prim":
            p = t["p"]
            if p in ("f32", "f64"):
                return 'format!("%s:{:x}", (%s).to_bits())' % (p, e)
            if p == "bool":
                return 'format!("bool:{:x}", (%s) as u8)' % e
            if p == "char":
                return 'format!("char:{:x}", (%s) as u32)' % e
            return 'format!("%s:{:x}", (%s) as %s)' % (p, e, UNS[W[p]])
        if k == "enum":
            return 'format!("e:{:x}", ((%s) as i32) as u32)' % e
        if k == "struct":
            parts = [self.rust_fmt(f, "(%s).%s" % (e, fname(i))) for i, f in enumerate(self.defs[t["n"]])]
            return 'format!("{{{}}}", vec![%s].join(","))' % ", ".join(parts)
        if k in ("opq", "opqmut"):
            return 'format!("p:{:x}", (&*(%s)) as *const Opq as usize)' % e
        if k == "optopq":
            return 'match &(%s) { Some(x) => format!("p:{:x}", (&**x) as *const Opq as usize), None => "p:0".to_string() }' % e
        if k == "box":
            return 'format!("p:{:x}", (&*(%s)) as *const Opq as usize)' % e
        if k == "optbox":
            return 'match &(%s) { Some(x) => format!("p:{:x}", (&**x) as *const Opq as usize), None => "p:0".to_string() }' % e
        if k == "opt":
            # both spellings are seen as std Option inside the method body for parameters; struct fields keep DiplomatOption
            inner = "String::new()" if t["t"]["k"] == "unit" else self.rust_fmt(t["t"], "(*x)")
            return 'match crate::AsOpt::as_opt(&(%s)) { Some(x) => { let _ = &x; format!("some({})", %s) } None => "none".to_string() }' % (e, inner)
        if k in ("slice", "str"):
            el = t["e"] if k == "slice" else {"utf8": "u8", "u8": "u8", "u16": "u16"}[t["enc"]]
            item = self.rust_fmt({"k": "prim", "p": el}, "*x")
            src = "(%s).as_bytes()" % e if (k == "str" and t["enc"] == "utf8") else "(%s)" % e
            return '{ let s = &%s[..]; format!("[{}|{}]", s.len(), s.iter().map(|x| %s).collect::<Vec<_>>().join(",")) }' % (src, item)
        if k == "res":
            ok = "String::new()" if t["ok"]["k"] == "unit" else self.rust_fmt(t["ok"], "(*x)")
            er = "String::new()" if t["err"]["k"] == "unit" else self.rust_fmt(t["err"], "(*x)")
            return 'match &(%s) { Ok(x) => { let _ = &x; format!("ok({})", %s) } Err(x) => { let _ = &x; format!("err({})", %s) } }' % (e, ok, er)
        if k == "unit":
            return '"()".to_string()'
        if k in ("cb", "trait"):
            return '"cb".to_string()'
        if k == "strs":
            el = "u16" if t["enc"] == "u16" else "u8"
            inner = "x.as_bytes()" if t["enc"] == "utf8" else "&x[..]"
            return ('format!("L[{}]", (%s).iter().map(|x| { let s = %s; format!("[{}|{}]", s.len(), s.iter().map(|y| format!("%s:{:x}", y)).collect::<Vec<_>>().join(",")) })'
                    '.collect::<Vec<_>>().join(";"))' % (e, inner, el))
        raise ValueError(k)

    def rust_lit(self, p, bits):
        if p == "f32":
            return "f32::from_bits(0x%x)" % bits
        if p == "f64":
            return "f64::from_bits(0x%x)" % bits
        if p == "bool":
            return "true" if bits else "false"
        if p == "char":
            return "0x%xu32" % bits
        if p.startswith("i"):
            return "(0x%x%s as %s)" % (bits, UNS[W[p]], RTY[p])
        return "(0x%x%s as %s)" % (bits, UNS[W[p]], RTY[p])

    def rust_make(self, t, v, in_struct=False):
        """Rust expression building return value v of type t (borrowing from `self` where needed)"""
        k = t["k"]
        if k == "prim":
            return self.rust_lit(t["p"], v)
        if k == "enum":
            return "En::" + v
        if k == "struct":
            fs = ", ".join("%s: %s" % (fname(i), self.rust_make(f, x, True)) for i, (f, x) in enumerate(zip(self.defs[t["n"]], v)))
            return "%s { %s }" % (t["n"], fs)
        if k in ("opq", "opqmut"):
            return "&self.inner"
        if k == "optopq":
            return "None" if v is None else "Some(&self.inner)"
        if k == "box":
            return "Box::new(Opq(%d))" % v
        if k == "optbox":
            return "None" if v is None else "Some(Box::new(Opq(%d)))" % v
        if k == "opt":
            if "none" in v:
                inner = "None"
            else:
                inner = "Some(%s)" % ("()" if t["t"]["k"] == "unit" else self.rust_make(t["t"], v["some"], in_struct))
            return inner + (".into()" if (t["s"] == "dipl") else "")
        if k == "slice":
            fld = v["host"]
            e = ("&mut self.%s[..]" if t["m"] == "mut" else "&self.%s[..]") % fld
            return "(%s).into()" % e if in_struct else e
        if k == "str":
            if t["enc"] == "utf8":
                return "self.text.as_str().into()" if in_struct else "self.text.as_str()"
            return "(&self.wide[..]).into()" if in_struct else "&self.wide[..]"
        if k == "res":
            if "ok" in v:
                return "Ok(%s)" % ("()" if t["ok"]["k"] == "unit" else self.rust_make(t["ok"], v["ok"]))
            return "Err(%s)" % ("()" if t["err"]["k"] == "unit" else self.rust_make(t["err"], v["err"]))
        if k == "unit":
            return "()"
        raise ValueError(k)

    def rust_body(self, n, sig, args, retv, wtext, ret_ty=None):
        """body of method f<n>"""
        slots = []
        sk = sig["self"]["k"]
        if sk in ("opq", "opqmut"):
            slots.append('format!("p:{:x}", (&*self) as *const Host as usize)')
        elif sk in ("struct", "enum"):
            slots.append(self.rust_fmt(sig["self"], "self"))
        for i, p in enumerate(sig["params"]):
            slots.append(self.rust_fmt(p, "p%d" % i))
        lines = ['crate::dv_event("RustEnter", "f%d", &vec![%s].join(";"));' % (n, ", ".join(slots) if slots else "String::new()")]
        if not slots:
            lines = ['crate::dv_event("RustEnter", "f%d", "");' % n]
        for i, p in enumerate(sig["params"]):
            if p["k"] == "trait":
                # every scripted invocation of a trait method: the method's index is part of the token ("t1|...")
                for call in args["params"][i]["calls"]:
                    m = p["ms"][call["m"]]
                    binds, names, fmts = [], [], []
                    for j, (a, x) in enumerate(zip(m["ps"], call["args"])):
                        binds.append("let c%d_ = %s;" % (j, self.rust_make(a, x)))
                        names.append("c%d_" % j)
                        fmts.append(self.rust_fmt(a, "c%d_" % j))
                    tokens = '&format!("t%d|{}", vec![%s].join(";"))' % (call["m"], ", ".join(fmts)) if fmts else '"t%d|"' % call["m"]
                    res = '"()".to_string()' if m["r"]["k"] == "unit" else self.rust_fmt(m["r"], "cr_")
                    lines.append('{ %s crate::dv_event("CbInvoke", "f%d.cb%d", %s); let cr_ = p%d.t%d(%s); let _ = &cr_; '
                                 'crate::dv_event("CbResult", "f%d.cb%d", &%s); }'
                                 % (" ".join(binds), n, i, tokens, i, call["m"], ", ".join(names), n, i, res))
                continue
            if p["k"] != "cb":
                continue
            for call in args["params"][i]["calls"]:
                binds, names, fmts = [], [], []
                for j, (a, x) in enumerate(zip(p["ps"], call["args"])):
                    binds.append("let c%d_ = %s;" % (j, self.rust_make(a, x)))
                    names.append("c%d_" % j)
                    fmts.append(self.rust_fmt(a, "c%d_" % j))
                tokens = "&vec![%s].join(\";\")" % ", ".join(fmts) if fmts else '""'
                res = '"()".to_string()' if p["r"]["k"] == "unit" else self.rust_fmt(p["r"], "cr_")
                lines.append('{ %s crate::dv_event("CbInvoke", "f%d.cb%d", %s); let cr_ = p%d(%s); let _ = &cr_; '
                             'crate::dv_event("CbResult", "f%d.cb%d", &%s); }'
                             % (" ".join(binds), n, i, tokens, i, ", ".join(names), n, i, res))
        if sig["write"]:
            lines.append("use core::fmt::Write as _;")
            for chunk in wtext:
                lines.append("let _ = w.write_str(%s);" % json.dumps(chunk, ensure_ascii=False))
        if sig["ret"]["k"] == "unit":
            lines.append('crate::dv_event("RustReturn", "f%d", "()");' % n)
            return " ".join(lines)
        lines.append("let r%s = %s;" % ((": " + ret_ty) if ret_ty else "", self.rust_make(sig["ret"], retv)))
        if sig["ret"]["k"] == "opt" and sig["ret"]["s"] == "dipl" and sig["ret"]["t"]["k"] == "prim":
            # runtime-spelled options are often handed out as clones of a stored value: Clone must keep the arm
            lines.append("let r = r.clone();")
        lines.append('crate::dv_event("RustReturn", "f%d", &%s);' % (n, self.rust_fmt(sig["ret"], "r")))
        lines.append("r")
        return " ".join(lines)

    # ---------------------------------------------------------------------------------- C side
    def c_assign(self, t, v, lv, out, tmp):
        """append C statements assigning abstract value v to lvalue lv"""
        k = t["k"]
        if k == "prim":
            p = t["p"]
            if p in ("f32", "f64"):
                u = "uint32_t" if p == "f32" else "uint64_t"
                out.append("{ %s b_ = 0x%xULL; memcpy(&%s, &b_, sizeof b_); }" % (u, v, lv))
            elif p == "bool":
                out.append("%s = %s;" % (lv, "true" if v else "false"))
            else:
                out.append("%s = (%s)0x%xULL;" % (lv, CTY[p], v))
        elif k == "enum":
            out.append("%s = En_%s;" % (lv, v))
        elif k == "struct":
            for i, (f, x) in enumerate(zip(self.defs[t["n"]], v)):
                self.c_assign(f, x, "%s.%s" % (lv, fname(i)), out, tmp)
        elif k in ("opq", "opqmut", "optopq"):
            out.append("%s = %s;" % (lv, "NULL" if v is None else "obj"))
        elif k == "opt":
            if "none" in v:
                out.append("%s.is_ok = false;" % lv)
            else:
                out.append("%s.is_ok = true;" % lv)
                if t["t"]["k"] != "unit":
                    self.c_assign(t["t"], v["some"], lv + ".ok", out, tmp)
        elif k in ("slice", "str"):
            el = t["e"] if k == "slice" else {"utf8": "u8", "u8": "u8", "u16": "u16"}[t["enc"]]
            cty = CTY[el] if k == "slice" else {"u8": "char", "u16": "char16_t"}[el]
            items = v["items"]
            own = (t.get("m") == "own") or t.get("own", False)
            if not items:
                if v["null"] or own:
                    out.append("%s.data = NULL; %s.len = 0;" % (lv, lv))
                else:
                    nm = "e%d_" % len(tmp)
                    tmp.append(nm)
                    out.append("static %s %s[1]; %s.data = %s; %s.len = 0;" % (cty, nm, lv, nm, lv))
                return
            nm = "a%d_" % len(tmp)
            tmp.append(nm)
            if own:
                # an owned slice must come from Rust's allocator: Rust frees it
                out.append("%s* %s = (%s*)diplomat_alloc(sizeof(%s) * %d, _Alignof(%s));" % (cty, nm, cty, cty, len(items), cty))
            else:
                out.append("%s %s[%d];" % (cty, nm, len(items)))
            for j, x in enumerate(items):
                if el in ("f32", "f64"):
                    u = "uint32_t" if el == "f32" else "uint64_t"
                    out.append("{ %s b_ = 0x%xULL; memcpy(&%s[%d], &b_, sizeof b_); }" % (u, x, nm, j))
                elif el == "bool":
                    out.append("%s[%d] = %s;" % (nm, j, "true" if x else "false"))
                else:
                    out.append("%s[%d] = (%s)0x%xULL;" % (nm, j, cty, x))
            out.append("%s.data = %s; %s.len = %d;" % (lv, nm, lv, len(items)))
        elif k == "strs":
            wide = t["enc"] == "u16"
            cty, vty = ("char16_t", "DiplomatString16View") if wide else ("char", "DiplomatStringView")
            base = "s%d_" % len(tmp)
            tmp.append(base)
            n = len(v["list"])
            out.append("static %s %sv[%d];" % (vty, base, max(n, 1)))
            for j, x in enumerate(v["list"]):
                out.append("static %s %s%d[%d];" % (cty, base, j, max(len(x), 1)))
                for q, y in enumerate(x):
                    out.append("%s%d[%d] = (%s)0x%x;" % (base, j, q, cty, y))
                out.append("%sv[%d].data = %s%d; %sv[%d].len = %d;" % (base, j, base, j, base, j, len(x)))
            out.append("%s.data = %sv; %s.len = %d;" % (lv, base, lv, n))
        elif k == "cb":
            out.append("%s.data = NULL; %s.run_callback = %s; %s.destructor = %s;" % (lv, lv, v["c_run"], lv, v["c_drop"]))
        elif k == "trait":
            # the first word of the object is the data pointer (the generated header calls that member `destructor`)
            out.append("{ const void* d_ = (const void*)(uintptr_t)0x5150; memcpy(&%s, &d_, sizeof d_); }" % lv)
            out.append("%s.vtable.destructor = %s; %s.vtable.SIZE = 0; %s.vtable.ALIGNMENT = 1;" % (lv, v["c_drop"], lv, lv))
            for q, fn in enumerate(v["c_runs"]):
                out.append("%s.vtable.run_t%d_callback = %s;" % (lv, q, fn))
        else:
            raise ValueError("c_assign " + k)

    def c_fmt(self, t, e, out):
        """append C statements that append the token of expression e to the log buffer"""
        k = t["k"]
        if k == "prim":
            p = t["p"]
            if p == "f32":
                out.append('{ uint32_t b_; float f_ = %s; memcpy(&b_, &f_, 4); L("f32:%%x", b_); }' % e)
            elif p == "f64":
                out.append('{ uint64_t b_; double f_ = %s; memcpy(&b_, &f_, 8); L("f64:%%llx", (unsigned long long)b_); }' % e)
            elif p == "bool":
                out.append('{ bool v_ = %s; uint8_t b_; memcpy(&b_, &v_, 1); L("bool:%%x", (unsigned)b_); }' % e)
            elif p == "char":
                out.append('L("char:%%x", (unsigned)(%s));' % e)
            else:
                w = W[p]
                out.append('L("%s:%%llx", (unsigned long long)(uint%d_t)(%s));' % (p, w, e))
        elif k == "enum":
            out.append('L("e:%%x", (unsigned)(uint32_t)(int32_t)(%s));' % e)
        elif k == "struct":
            out.append('L("{");')
            for i, f in enumerate(self.defs[t["n"]]):
                if i:
                    out.append('L(",");')
                self.c_fmt(f, "(%s).%s" % (e, fname(i)), out)
            out.append('L("}");')
        elif k in ("opq", "opqmut", "optopq", "box", "optbox"):
            out.append('L("p:%%llx", (unsigned long long)(uintptr_t)(%s));' % e)
        elif k == "opt":
            out.append("if ((%s).is_ok) { L(\"some(\");" % e)
            if t["t"]["k"] != "unit":
                self.c_fmt(t["t"], "(%s).ok" % e, out)
            out.append('L(")"); } else { L("none"); }')
        elif k in ("slice", "str"):
            el = t["e"] if k == "slice" else {"utf8": "u8", "u8": "u8", "u16": "u16"}[t["enc"]]
            out.append('L("[%%llu|", (unsigned long long)(%s).len);' % e)
            out.append("for (size_t i_ = 0; i_ < (%s).len; i_++) { if (i_) L(\",\");" % e)
            cast = {"u8": "(uint8_t)", "u16": "(uint16_t)"}.get(el, "")
            self.c_fmt({"k": "prim", "p": el}, "%s(%s).data[i_]" % (cast, e), out)
            out.append("}")
            out.append('L("]");')
        elif k == "res":
            out.append("if ((%s).is_ok) { L(\"ok(\");" % e)
            if t["ok"]["k"] != "unit":
                self.c_fmt(t["ok"], "(%s).ok" % e, out)
            out.append('L(")"); } else { L("err(");')
            if t["err"]["k"] != "unit":
                self.c_fmt(t["err"], "(%s).err" % e, out)
            out.append('L(")"); }')
        elif k == "unit":
            out.append('L("()");')
        elif k in ("cb", "trait"):
            out.append('L("cb");')
        elif k == "strs":
            el = "u16" if t["enc"] == "u16" else "u8"
            cast = "(uint16_t)" if el == "u16" else "(uint8_t)"
            out.append('L("L[");')
            out.append("for (size_t j_ = 0; j_ < (%s).len; j_++) { if (j_) L(\";\"); L(\"[%%llu|\", (unsigned long long)(%s).data[j_].len);" % (e, e))
            out.append("for (size_t i_ = 0; i_ < (%s).data[j_].len; i_++) { if (i_) L(\",\");" % e)
            self.c_fmt({"k": "prim", "p": el}, "%s(%s).data[j_].data[i_]" % (cast, e), out)
            out.append("} L(\"]\"); }")
            out.append('L("]");')
        else:
            raise ValueError("c_fmt " + k)

    def c_ty(self, t):
        k = t["k"]
        if k == "prim":
            return CTY[t["p"]]
        if k == "enum":
            return "En"
        if k == "struct":
            return t["n"]
        if k == "unit":
            return "void"
        raise ValueError("c_ty " + k)

    def c_callback(self, n, i, t, v):
        """emit the C functions behind callback parameter i of call n: run_callback logs what it receives (CbEnter),
        answers with the scripted value (CbReturn); the destructor logs CbDrop"""
        run, drop, f = "cb_%d_%d" % (n, i), "cbd_%d_%d" % (n, i), "f%d.cb%d" % (n, i)
        ps = "".join(", %s c%d" % (self.c_ty(a), j) for j, a in enumerate(t["ps"]))
        body = ["(void)d_; LB();"]
        for j, a in enumerate(t["ps"]):
            if j:
                body.append('L(";");')
            self.c_fmt(a, "c%d" % j, body)
        body.append('LE("CbEnter", "%s");' % f)
        rt = self.c_ty(t["r"])
        if t["r"]["k"] != "unit":
            body.append("%s r_; memset(&r_, 0, sizeof r_); static int k_; switch (k_++) {" % rt)
            for c, call in enumerate(v["calls"]):
                asg = []
                self.c_assign(t["r"], call["ret"], "r_", asg, [])
                body.append("case %d: %s break;" % (c, " ".join(asg)))
            body.append("default: break; }")
            body.append("LB();")
            self.c_fmt(t["r"], "r_", body)
            body.append('LE("CbReturn", "%s"); return r_;' % f)
        else:
            body.append('LB(); L("()"); LE("CbReturn", "%s");' % f)
        self.prelude.append("static %s %s(const void* d_%s) { %s }" % (rt, run, ps, " ".join(body)))
        self.prelude.append('static void %s(const void* d_) { (void)d_; LB(); LE("CbDrop", "%s"); }' % (drop, f))
        return {"c_run": run, "c_drop": drop}

    def c_trait(self, n, i, t, v):
        """the C functions behind trait parameter i of call n: one per trait method (logging CbEnter with the method's tag and what
        it receives, answering with the scripted value, checking the data pointer) and the destructor (CbDrop)"""
        drop, f = "cbd_%d_%d" % (n, i), "f%d.cb%d" % (n, i)
        runs = []
        for q, m in enumerate(t["ms"]):
            run = "cb_%d_%d_%d" % (n, i, q)
            ps = "".join(", %s c%d" % (self.c_ty(a), j) for j, a in enumerate(m["ps"]))
            body = ['LB(); L("t%d|"); if ((uintptr_t)d_ != 0x5150) L("BAD-DATA-POINTER;");' % q]
            for j, a in enumerate(m["ps"]):
                if j:
                    body.append('L(";");')
                self.c_fmt(a, "c%d" % j, body)
            body.append('LE("CbEnter", "%s");' % f)
            rt = self.c_ty(m["r"])
            mine = [c for c in v["calls"] if c["m"] == q]
            if m["r"]["k"] != "unit":
                body.append("%s r_; memset(&r_, 0, sizeof r_); static int k_; switch (k_++) {" % rt)
                for c, call in enumerate(mine):
                    asg = []
                    self.c_assign(m["r"], call["ret"], "r_", asg, [])
                    body.append("case %d: %s break;" % (c, " ".join(asg)))
                body.append("default: break; }")
                body.append("LB();")
                self.c_fmt(m["r"], "r_", body)
                body.append('LE("CbReturn", "%s"); return r_;' % f)
            else:
                body.append('LB(); L("()"); LE("CbReturn", "%s");' % f)
            self.prelude.append("static %s %s(void* d_%s) { %s }" % (rt, run, ps, " ".join(body)))
            runs.append(run)
        self.prelude.append('static void %s(const void* d_) { LB(); if ((uintptr_t)d_ != 0x5150) L("BAD-DATA-POINTER"); LE("CbDrop", "%s"); }' % (drop, f))
        return {"c_runs": runs, "c_drop": drop}

    def c_call(self, n, sig, sym, proto, args, write):
        """C statements performing one call. proto = (ret C type, [param C types]) parsed from the generated header."""
        rty, ptys = proto
        out, tmp = ["{"], []
        names = []
        idx = 0
        sk = sig["self"]["k"]
        slot_fmt = []
        if sk in ("opq", "opqmut"):
            names.append("host")
            slot_fmt.append(("ptr", "host"))
            idx += 1
        elif sk in ("struct", "enum"):
            out.append("%s s_; memset(&s_, 0, sizeof s_);" % ptys[idx])
            self.c_assign(sig["self"], args["self"], "s_", out, tmp)
            names.append("s_")
            slot_fmt.append((sig["self"], "s_"))
            idx += 1
        for i, p in enumerate(sig["params"]):
            out.append("%s a%d; memset(&a%d, 0, sizeof a%d);" % (ptys[idx], i, i, i))
            if p["k"] == "cb":
                args["params"][i] = dict(args["params"][i], **self.c_callback(n, i, p, args["params"][i]))
            if p["k"] == "trait":
                args["params"][i] = dict(args["params"][i], **self.c_trait(n, i, p, args["params"][i]))
            self.c_assign(p, args["params"][i], "a%d" % i, out, tmp)
            names.append("a%d" % i)
            slot_fmt.append((p, "a%d" % i))
            idx += 1
        if sig["write"]:
            out.append("DiplomatWrite* w_ = diplomat_buffer_write_create(%d);" % write["cap"])
            names.append("w_")
        out.append("LB();")
        for j, (t, e) in enumerate(slot_fmt):
            if j:
                out.append('L(";");')
            if t == "ptr":
                out.append('L("p:%%llx", (unsigned long long)(uintptr_t)%s);' % e)
            else:
                self.c_fmt(t, e, out)
        cbs = ["f%d.cb%d" % (n, i) for i, p in enumerate(sig["params"]) if p["k"] in ("cb", "trait")]
        if cbs:
            out.append('LEC("f%d", "%s");' % (n, json.dumps(cbs).replace('"', '\\"')))
        else:
            out.append('LE("CCall", "f%d");' % n)
        call = "%s(%s)" % (sym, ", ".join(names))
        if sig["ret"]["k"] == "unit":
            out.append(call + ";")
            out.append('LB(); L("()"); LE("CReturn", "f%d");' % n)
        else:
            out.append("%s r_ = %s;" % (rty, call))
            out.append("LB();")
            self.c_fmt(sig["ret"], "r_", out)
            out.append('LE("CReturn", "f%d");' % n)
            # release what the call handed to us
            rk = sig["ret"]["k"]
            if rk == "box":
                out.append("Opq_destroy(r_);")
            elif rk == "optbox":
                out.append("if (r_) Opq_destroy(r_);")
            elif rk == "res" and sig["ret"]["ok"]["k"] == "box":
                out.append("if (r_.is_ok) Opq_destroy(r_.ok);")
            elif rk == "res" and sig["ret"]["ok"]["k"] == "optbox":
                out.append("if (r_.is_ok && r_.ok) Opq_destroy(r_.ok);")
            elif rk == "struct" and sig["ret"]["n"] == "Os":
                out.append("Opq_destroy(r_.%s); if (r_.%s) Opq_destroy(r_.%s);" % (fname(0), fname(1), fname(1)))
            elif rk == "res" and sig["ret"]["ok"]["k"] == "struct" and sig["ret"]["ok"]["n"] == "Os":
                out.append("if (r_.is_ok) { Opq_destroy(r_.ok.%s); if (r_.ok.%s) Opq_destroy(r_.ok.%s); }" % (fname(0), fname(1), fname(1)))
        if sig["write"]:
            out.append('LB(); L("w[%llu|", (unsigned long long)diplomat_buffer_write_len(w_));')
            out.append("{ char* b_ = diplomat_buffer_write_get_bytes(w_); for (size_t i_ = 0; i_ < diplomat_buffer_write_len(w_); i_++) "
                       "{ if (i_) L(\",\"); L(\"u8:%x\", (unsigned)(uint8_t)b_[i_]); } }")
            out.append('L("]"); LE("CWrite", "f%d");' % n)
            out.append("diplomat_buffer_write_destroy(w_);")
        out.append("}")
        return "\n    ".join(out)


RUST_SUPPORT = r'''
use std::os::raw::c_char;
extern "C" {
    fn dv_log(kind: *const c_char, f: *const c_char, v: *const c_char);
}
pub fn dv_event(kind: &str, f: &str, v: &str) {
    let k = std::ffi::CString::new(kind).unwrap();
    let f = std::ffi::CString::new(f).unwrap();
    let v = std::ffi::CString::new(v).unwrap();
    unsafe { dv_log(k.as_ptr(), f.as_ptr(), v.as_ptr()) }
}
/// both spellings of an option look the same to the logging code
pub trait AsOpt<T> { fn as_opt(&self) -> Option<&T>; }
impl<T> AsOpt<T> for Option<T> { fn as_opt(&self) -> Option<&T> { self.as_ref() } }
impl<T> AsOpt<T> for diplomat_runtime::DiplomatOption<T> { fn as_opt(&self) -> Option<&T> { self.as_ref().ok() } }
'''

C_SUPPORT = r'''
#include <stdio.h>
#include <stdlib.h>
#include <string.h>
#include <stdarg.h>
#include <stdint.h>
extern uint8_t* diplomat_alloc(size_t size, size_t align);
static char lb_[1 << 16];
static size_t ln_;
static unsigned long seq_;
static void LB(void) { static int init_; if (!init_) { setvbuf(stdout, NULL, _IOLBF, 0); init_ = 1; } ln_ = 0; lb_[0] = 0; }
static void L(const char* fmt, ...) { va_list ap; va_start(ap, fmt); ln_ += (size_t)vsnprintf(lb_ + ln_, sizeof lb_ - ln_, fmt, ap); va_end(ap); }
void dv_log(const char* kind, const char* f, const char* v) { printf("{\"seq\":%lu,\"ev\":\"%s\",\"f\":\"%s\",\"v\":\"%s\"}\n", ++seq_, kind, f, v); }
static void LE(const char* kind, const char* f) { dv_log(kind, f, lb_); }
static void LEC(const char* f, const char* cbs) { printf("{\"seq\":%lu,\"ev\":\"CCall\",\"f\":\"%s\",\"v\":\"%s\",\"cbs\":%s}\n", ++seq_, f, lb_, cbs); }
'''
