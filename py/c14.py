"""C14 — output is a deterministic, order-independent, local function of the bridge (spec/determ)."""
import copy, json, os, random, shutil
import lib, observe

TYPES = {
    # namespaces (where the backend has them): one header then forward-declares types from several namespace groups
    "Alpha": ("    #[diplomat::attr(supports = namespacing, namespace = \"n1\")]\n    #[diplomat::opaque]\n    pub struct Alpha(u8);\n",
              {1: "    impl Alpha {\n        #[diplomat::demo(default_constructor)]\n        pub fn new_alpha(v: u8) -> Box<Alpha> { Box::new(Alpha(v)) }\n"
                  "        pub fn with_beta(&self, b: Beta) -> u16 { b.x as u16 }\n        pub fn gamma(&self) -> Gamma { Gamma::One }\n    }\n",
               # the second impl block carries attributes of its own: they belong to THIS block only, wherever it stands
               2: "    #[diplomat::abi_rename = \"pfx_{0}\"]\n    #[diplomat::attr(*, rename = \"rn_{0}\")]\n"
                  "    impl Alpha {\n        pub fn extra(&self, w: &mut DiplomatWrite) {}\n        pub fn again<'a>(&'a self) -> &'a Alpha { self }\n"
                  "        pub fn pick<'a, 'b: 'a, 'c: 'a, 'd: 'a>(&'b self, o: &'c Alpha, p: &'d Alpha) -> &'a Alpha { self }\n    }\n"}),
    "Beta": ("    pub struct Beta {\n        pub x: u8,\n        pub y: u16,\n        pub g: Gamma,\n    }\n",
             {1: "    impl Beta {\n        pub fn sum(self) -> u16 { self.y }\n        pub fn make(x: u8) -> Beta { Beta { x, y: 1, g: Gamma::Two } }\n    }\n"}),
    "Gamma": ("    #[diplomat::attr(supports = namespacing, namespace = \"n2::deep\")]\n    pub enum Gamma {\n        One,\n        Two = 5,\n    }\n",
              {1: "    impl Gamma {\n        pub fn is_one(self) -> bool { matches!(self, Gamma::One) }\n    }\n"}),
    "Uno": ("    #[diplomat::attr(supports = namespacing, namespace = \"n3\")]\n    #[diplomat::opaque]\n    pub struct Uno(u8);\n",
            {1: "    impl Uno {\n        pub fn make_uno() -> Box<Uno> { Box::new(Uno(1)) }\n        pub fn val(&self) -> u8 { self.0 }\n    }\n"}),
    "Duo": ("    pub struct Duo {\n        pub a: i32,\n        pub b: bool,\n    }\n",
            {1: "    impl Duo {\n        pub fn first(self) -> i32 { self.a }\n    }\n"}),
    # "rich" unrelated types: they exercise the generator state that is shared between types (callback wrappers,
    # slice/option/result helpers, imports); Work sorts after every base opaque, Ada before every base type
    "Work": ("    #[diplomat::opaque]\n    pub struct Work(Vec<u8>);\n",
             {1: "    impl Work {\n        #[diplomat::demo(default_constructor)]\n        pub fn mk(v: u8) -> Box<Work> { Box::new(Work(vec![v])) }\n"
                 "        #[diplomat::attr(not(supports = callbacks), disable)]\n"
                 "        pub fn apply(f: impl Fn(i32) -> i32, x: i32) -> i32 { f(x) }\n"
                 "        pub fn name(&self, w: &mut DiplomatWrite) {}\n"
                 "        pub fn try_make(s: &str) -> Result<Box<Work>, ()> { Ok(Box::new(Work(s.as_bytes().to_vec()))) }\n"
                 "        pub fn first(&self) -> Option<u8> { self.0.first().copied() }\n"
                 "        pub fn bytes<'a>(&'a self) -> &'a [u8] { &self.0 }\n    }\n"}),
    "Ada": ("    pub struct Ada {\n        pub a: u8,\n        pub b: f64,\n    }\n",
            {1: "    impl Ada {\n        #[diplomat::attr(not(supports = callbacks), disable)]\n"
                "        pub fn each(self, f: impl Fn(u8)) { f(self.a) }\n"
                "        pub fn sum(self, xs: &[f64]) -> f64 { xs.iter().sum::<f64>() + self.b }\n"
                "        pub fn check(self) -> Result<u8, ()> { Ok(self.a) }\n"
                # a render terminus on a type that sorts BEFORE every base type in the tool's type order (structs first): state
                # that demo_gen keeps between types must not spill into the files of the types after it
                "        pub fn render(self, w: &mut DiplomatWrite) {}\n    }\n"}),
    "Zen": ("    pub enum Zen {\n        P,\n        Q = 9,\n    }\n",
            {1: "    impl Zen {\n        pub fn parse(s: &str) -> Option<Zen> { if s.is_empty() { None } else { Some(Zen::P) } }\n"
                "        pub fn label(self, w: &mut DiplomatWrite) {}\n    }\n"}),
}
NONBRIDGE = {
    "free_fn": "pub fn free_fn(x: u8) -> u8 { x }\n",
    "same_named_struct": "pub struct Alpha { pub q: u64 }\nimpl Alpha { pub fn root_method(&self) -> u64 { self.q } }\n",
    "same_named_impl": "pub struct Beta(pub u8);\nimpl Beta { pub fn sum(self) -> u16 { 7 } pub fn other(&self) {} }\n",
    "plain_module": "mod plain {\n    pub struct Zeta(pub u8);\n    impl Zeta { pub fn z(&self) -> u8 { self.0 } }\n    pub enum Gamma { Nine }\n}\n",
    "constant": "#[allow(dead_code)]\nconst K: u8 = 1;\n",
    "foreign_attr": "#[appcfg::config(lib_name = \"settings\", js.abi = \"spec\", kotlin.domain = \"org.example\", demo_gen.module_name = \"m\")]\n"
                    "pub struct Settings { pub v: u8 }\n#[other::config(lib_name = \"x\")]\nimpl Settings { pub fn get(&self) -> u8 { self.v } }\n",
    "outer_attr": "",      # not an item of its own: attributes on the ordinary module `outer` that encloses the bridge module mb (see render)
}
OUTER_ATTRS = "#[diplomat::attr(*, rename = \"Geo{0}\")]\n#[diplomat::attr(auto, namespace = \"geo\")]\n"
BASE = [["ma", [("type", "Alpha", 0), ("impl", "Alpha", 1), ("type", "Beta", 0), ("impl", "Beta", 1), ("impl", "Alpha", 2)]],
        ["mb", [("type", "Gamma", 0), ("impl", "Gamma", 1)]]]
AGGREGATE = {"index.mjs", "index.d.ts", "lib.g.dart", "somelib_ext.cpp", "Lib.kt", "js/index.mjs", "js/index.d.ts",
             "diplomat.config.mjs"}


def render(mods, extras):
    out = []
    for name, items in mods:
        body = []
        others = [m for m, its in mods if m != name]
        for k, t, n in items:
            body.append(TYPES[t][0] if k == "type" else TYPES[t][1][n])
        # types declared in other bridge modules are imported by path
        uses = ""
        if name == "ma":
            uses = "    use crate::outer::mb::Gamma;\n" if any(t == "Gamma" for m, its in mods if m == "mb" for _, t, _ in its) else ""
        text = "#[diplomat::bridge]\npub mod %s {\n    use diplomat_runtime::DiplomatWrite;\n%s%s}\n" % (name, uses, "\n".join(body))
        if name == "mb":
            # the bridge module mb is NESTED in an ordinary module (what `mod foo;` files look like once inlined); Diplomat attributes
            # on that ordinary module are code outside every bridge module
            text = ((OUTER_ATTRS if "outer_attr" in extras else "") + "pub mod outer {\n" +
                    "".join("    " + l + "\n" if l else "\n" for l in text.splitlines()) + "}\n")
        out.append(text)
    return "".join(NONBRIDGE[x] for x in sorted(extras)) + "\n".join(out)


def apply(mods, extras, a):
    mods = copy.deepcopy(mods)
    extras = set(extras)
    k = a["a"]
    if k == "SwapItems":
        it = mods[a["m"] - 1][1]
        i = a["i"] - 1
        it[i], it[i + 1] = it[i + 1], it[i]
    elif k == "SwapModules":
        m = a["m"] - 1
        mods[m], mods[m + 1] = mods[m + 1], mods[m]
    elif k == "InsertUnrelated":
        it = mods[a["m"] - 1][1]
        it[a["i"]:a["i"]] = [("type", a["u"], 0), ("impl", a["u"], 1)]
    elif k == "RemoveUnrelated":
        for m in mods:
            m[1][:] = [x for x in m[1] if x[1] != a["u"]]
    elif k == "AddNonBridge":
        extras.add(a["x"])
    elif k == "RemoveNonBridge":
        extras.discard(a["x"])
    return mods, extras


def gen(wd, src_text, tag):
    p = os.path.join(wd, "lib_%s.rs" % tag)
    open(p, "w").write(src_text)
    outs = {}
    for b in lib.BACKENDS:
        o = os.path.join(wd, "out_%s_%s" % (tag, b))
        r = lib.run_tool(b, p, o)
        outs[b] = {"rc": r["rc"], "tree": observe.read_tree(o) if r["rc"] == 0 else None, "stderr": r["stderr"][-600:]}
    return outs


def stem(f):
    return os.path.basename(f).split(".")[0]


def compare(rep, a, before, after, beh, step, src_before, src_after):
    k = a["a"]
    for b in lib.BACKENDS:
        x, y = before[b], after[b]
        if x["rc"] != 0 or y["rc"] != 0:
            if x["rc"] != y["rc"]:
                rep.violation({"action": k, "backend": b, "what": "tool status changed"}, {"history": beh, "step": step, "stderr": y["stderr"]})
            continue
        tx, ty = x["tree"], y["tree"]
        if k in ("InsertUnrelated", "RemoveUnrelated"):
            u = a["u"]
            keep = lambda f: stem(f) != u and f not in AGGREGATE and os.path.basename(f) not in AGGREGATE
            fx = {f: v for f, v in tx.items() if keep(f)}
            fy = {f: v for f, v in ty.items() if keep(f)}
        else:
            fx, fy = tx, ty
        if fx != fy:
            diff = sorted(f for f in set(fx) | set(fy) if fx.get(f) != fy.get(f))
            rep.violation({"action": k, "backend": b, "what": "output changed", "detail": a.get("x") or a.get("u") or ""},
                          {"history": beh, "step": step, "files": diff[:8], "source_before": src_before, "source_after": src_after})


# an unrelated bridge MODULE whose types carry the NAMES of types of the base program (same kind), told apart by namespace
# where the backend has namespaces and by a rename elsewhere: InsertUnrelated of Determinism.tla with u's name taken
CLASH = """#[diplomat::bridge]
#[diplomat::abi_rename = "z_{0}"]
pub mod mz {
    #[diplomat::attr(supports = namespacing, namespace = "zz")]
    #[diplomat::attr(not(supports = namespacing), rename = "GammaZ")]
    pub enum Gamma {
        Nine,
        Ten,
        Eleven,
    }
    impl Gamma {
        pub fn is_nine(self) -> bool { matches!(self, Gamma::Nine) }
    }
    #[diplomat::attr(supports = namespacing, namespace = "zz")]
    #[diplomat::attr(not(supports = namespacing), rename = "BetaZ")]
    pub struct Beta {
        pub p: f64,
        pub g: Gamma,
    }
    impl Beta {
        pub fn pee(self) -> f64 { self.p }
    }
    #[diplomat::attr(supports = namespacing, namespace = "zz")]
    #[diplomat::attr(not(supports = namespacing), rename = "AlphaZ")]
    #[diplomat::opaque]
    pub struct Alpha(u8);
    impl Alpha {
        pub fn zed(&self) -> u8 { self.0 }
    }
}
"""


def same_named_leg(rep, wd, base_src, base_out):
    """LocalFrame for an inserted module whose types are NAMED like existing ones: every file the base program produced is still
    produced, byte for byte (aggregates exempt).  Backends that refuse the name clash altogether are outside the comparison."""
    out2 = gen(wd, base_src + "\n" + CLASH, "clash")
    compared = 0
    for b in lib.BACKENDS:
        x, y = base_out[b], out2[b]
        if x["rc"] != 0 or y["rc"] != 0:
            continue
        compared += 1
        keep = lambda f: f not in AGGREGATE and os.path.basename(f) not in AGGREGATE
        diff = sorted(f for f, v in x["tree"].items() if keep(f) and y["tree"].get(f) != v)
        if diff:
            rep.violation({"action": "InsertUnrelated", "backend": b, "what": "output changed", "detail": "module with same-named types"},
                          {"files": diff[:8], "source_after": base_src + "\n" + CLASH})
        rep.nontriv("%s|InsertUnrelated|same-named module" % b)
    if compared < 3:
        raise lib.ToolError("same-named leg: only %d backends accept the program with the name clash: %s" % (
            compared, {b: out2[b]["stderr"][-200:] for b in lib.BACKENDS if out2[b]["rc"] != 0}))
    rep.extra["same_named_backends_compared"] = compared
    return 1


def reused_directory_leg(rep, wd, base_src, base_out):
    """The output is a function of the bridge, not of what an earlier run left in the output directory: generating a SHORTER revision
    of the program into the directory that holds the longer one must give, for every file the tool writes, exactly what it writes
    into an empty directory (files of types that no longer exist may stay behind: the tool does not delete)."""
    longer = render(apply(copy.deepcopy(BASE), set(), {"a": "InsertUnrelated", "u": "Work", "m": 1, "i": 0})[0], set())
    shorter_mods = copy.deepcopy(BASE)
    shorter_mods[0][1] = [x for x in shorter_mods[0][1] if not (x[0] == "impl" and x[1] == "Alpha" and x[2] == 2)]    # Alpha loses its second impl block
    shorter = render(shorter_mods, set())
    ps, pl = os.path.join(wd, "rev_short.rs"), os.path.join(wd, "rev_long.rs")
    open(ps, "w").write(shorter)
    open(pl, "w").write(longer)
    fresh = gen(wd, shorter, "revfresh")
    exe = lib.build_tool()
    n = 0
    for b in lib.BACKENDS:
        d = os.path.join(wd, "out_reused_" + b)
        shutil.rmtree(d, ignore_errors=True)
        r1 = lib.sh([exe] + lib.tool_args(b, pl, d), timeout=120)
        r2 = lib.sh([exe] + lib.tool_args(b, ps, d), timeout=120)       # same directory, not emptied
        if r1.returncode != 0 or r2.returncode != 0 or fresh[b]["rc"] != 0:
            if (r2.returncode != 0) != (fresh[b]["rc"] != 0):
                rep.violation({"action": "Regenerate", "backend": b, "what": "tool status depends on the output directory's history"}, {"stderr": r2.stderr[-400:]})
            continue
        got = observe.read_tree(d)
        diff = sorted(f for f, v in fresh[b]["tree"].items() if got.get(f) != v)
        n += 1
        if diff:
            rep.violation({"action": "Regenerate", "backend": b, "what": "output changed", "detail": "directory held an earlier, longer revision"},
                          {"files": diff[:8], "example": {"file": diff[0], "fresh_bytes": len(fresh[b]["tree"][diff[0]]), "reused_bytes": len(got.get(diff[0], b""))}})
        rep.nontriv("%s|Regenerate|into a used directory" % b)
    return 1 if n else 0


DOC_SRC = """#[diplomat::bridge]
mod ffi {
    #[diplomat::opaque]
    #[diplomat::rust_link(icu::locale::Locale, Struct)]
    pub struct Loc(u8);
    impl Loc {
        #[diplomat::rust_link(icu_provider::DataProvider::load, FnInTrait)]
        pub fn load(&self) -> u8 { 0 }
        #[diplomat::rust_link(icu_provider_adapters::fork::ForkByKeyProvider, Struct)]
        #[diplomat::rust_link(icu_provider_adapters::fork::ForkByKeyProvider::new, FnInStruct, compact)]
        pub fn fork(&self) -> u8 { 0 }
        #[diplomat::rust_link(other_crate::thing, Fn)]
        pub fn other(&self) -> u8 { 0 }
    }
    #[diplomat::rust_link(icu_provider_adapters::either::EitherProvider, Enum)]
    pub enum Either {
        #[diplomat::rust_link(icu_provider_adapters::either::EitherProvider::A, EnumVariant)]
        A,
        B,
    }
}
"""


def command_line_leg(rep, wd, tier):
    """Rerun with a non-default command line: documentation base URLs (`-u <crate>:<url>`, several of them, some for crates whose
    name is a prefix of another linked crate's name).  The same command line in fresh processes gives byte-identical files, and so
    does the same set of entries given in another order."""
    p = os.path.join(wd, "doclinks.rs")
    open(p, "w").write(DOC_SRC)
    exe = lib.build_tool()
    sets = [["-u", "icu:https://family.example/", "-u", "icu_provider:https://provider.example/"],
            ["-u", "icu_provider:https://provider.example/", "-u", "icu:https://family.example/", "-u", "icu_provider_adapters_x:https://x.example/",
             "-u", "*:https://default.example/"]]
    n = 0
    for b in lib.BACKENDS:
        for si, us in enumerate(sets):
            ref = None
            runs = (8 if tier == "quick" else 24) if si == 0 else 3
            # the last run of each set gives the entries in the opposite order
            for i in range(runs + 1):
                opts = us if i < runs else [x for pair in reversed([us[j:j + 2] for j in range(0, len(us), 2)]) for x in pair]
                d = os.path.join(wd, "out_docs_%s" % b)
                shutil.rmtree(d, ignore_errors=True)
                r = lib.sh([exe] + lib.tool_args(b, p, d) + opts, timeout=120)
                if r.returncode != 0:
                    rep.violation({"action": "Rerun", "backend": b, "what": "tool failed with documentation base URLs"}, {"stderr": r.stderr[-400:], "options": opts})
                    break
                tree = observe.read_tree(d)
                n += 1
                if ref is None:
                    ref = tree
                elif tree != ref:
                    diff = sorted(f for f in set(tree) | set(ref) if tree.get(f) != ref.get(f))
                    rep.violation({"action": "Rerun", "backend": b, "what": "output changed",
                                   "detail": "documentation base URLs on the command line" + ("" if i < runs else ", entries in another order")},
                                  {"options": opts, "files": diff[:6], "run": i})
                    break
            rep.nontriv("%s|Rerun|docs base urls %d" % (b, si))
    # the same setting given in two spellings (kebab-case in the file, kebab-case on the command line, snake_case on the command
    # line): whatever the tool makes of it, it makes the same of it in every process
    cf = os.path.join(wd, "spell.toml")
    open(cf, "w").write("[kotlin]\nlib-name = \"fromfile\"\ndomain = \"dev.verif\"\n[nanobind]\nlib-name = \"fromfile\"\n")
    for b in ("kotlin", "nanobind"):
        for extra in (["--config", "%s.lib-name=fromcli" % b], ["--config", "%s.lib-name=fromcli" % b, "--config", "%s.lib_name=snakecli" % b]):
            ref = None
            for i in range(8 if tier == "quick" else 24):
                d = os.path.join(wd, "out_spell_%s" % b)
                shutil.rmtree(d, ignore_errors=True)
                r = lib.sh([exe, b, d, "--entry", p, "--config-file", cf] + extra, timeout=120)
                tree = (r.returncode, observe.read_tree(d) if r.returncode == 0 else None)
                n += 1
                if ref is None:
                    ref = tree
                elif tree != ref:
                    rep.violation({"action": "Rerun", "backend": b, "what": "output changed", "detail": "one setting in two spellings (file and command line)"},
                                  {"options": extra, "config_file": open(cf).read(), "run": i,
                                   "files_first": sorted((ref[1] or {}).keys())[:6], "files_now": sorted((tree[1] or {}).keys())[:6]})
                    break
            rep.nontriv("%s|Rerun|spellings %d" % (b, len(extra)))
    rep.extra["command_line_runs"] = n
    return 3


def run(rep, tier):
    wd = rep.wd
    rep.rule = ("histories = TLC-simulated edit sequences (rerun, swap adjacent items/modules, insert/remove an unrelated type, add/remove "
                "non-bridge items incl. same-named types) over a 3-type program; after every step all 7 backends run in fresh processes "
                "and output trees are compared per the action's frame condition; non-trivial = distinct (action, arguments, backend) steps")
    rep.assumptions += ["aggregate files (index.mjs, lib.g.dart, <lib>_ext.cpp, Lib.kt) are per-crate and exempt for insert/remove only",
                        "impl blocks of one type keep their relative order (method order is part of the definition)"]
    r = lib.tlc("determ", "MC_Determinism", "inv_quick.cfg" if tier == "quick" else "inv.cfg", workers=8)
    lib.tlc_expect_ok(r, "Determinism frame conditions")
    vac = lib.vacuous_actions(r)
    if vac:
        raise lib.ToolError("vacuous actions %s" % vac)
    rep.add_tlc("Determinism/inv", r)
    rn = lib.tlc("determ", "MC_Determinism", "neg.cfg", workers=8, coverage=False)
    lib.tlc_expect_violation(rn, "swapping impl blocks of one type", "GlobalFrame")
    rep.extra["negative_models_refuted"] = 1
    nb = 12 if tier == "quick" else 150
    h = lib.tlc("determ", "MCB_Determinism", "beh.cfg", workers=1, coverage=False, simulate=nb * 3, depth=7)
    lib.tlc_expect_ok(h, "history emission")
    rep.add_tlc("Determinism/beh", h)
    # every single edit of the base program (exhaustive, one step), then the simulated longer histories
    h1 = lib.tlc("determ", "MCB_Determinism", "beh1.cfg", workers=1, coverage=False)
    lib.tlc_expect_ok(h1, "one-step history emission")
    rep.add_tlc("Determinism/beh1", h1)
    seen, behs = set(), []
    for b in h1.printed.get("BEH", []):
        kx = json.dumps(b, sort_keys=True)
        if kx not in seen:
            seen.add(kx)
            behs.append(b)
    sim = []
    for b in h.printed.get("BEH", []):
        kx = json.dumps(b, sort_keys=True)
        if kx not in seen:
            seen.add(kx)
            sim.append(b)
    need = {"Rerun", "SwapItems", "SwapModules", "InsertUnrelated", "RemoveUnrelated", "AddNonBridge"}
    # of the simulated histories (3x as many as are run) take first those that add an action no chosen history has yet
    # (RemoveUnrelated needs an earlier InsertUnrelated, so no one-step history has it), then the rest in TLC's order
    acts = set(e["a"] for b in behs for e in b)
    first = []
    for b in sim:
        new_acts = set(e["a"] for e in b) & need - acts
        if new_acts:
            first.append(b)
            acts |= new_acts
    behs = behs + first + [b for b in sim if b not in first][:max(0, nb - len(first))]
    acts = set(e["a"] for b in behs for e in b)
    if not need <= acts:
        raise lib.ToolError("histories never exercise %s" % (need - acts))
    base_src = render(BASE, set())
    base_out = gen(wd, base_src, "base")
    for b in lib.BACKENDS:
        if base_out[b]["rc"] != 0:
            raise lib.ToolError("base program rejected by %s: %s" % (b, base_out[b]["stderr"]))
    cache = {base_src: base_out}
    nsteps = 0
    for beh in behs:
        mods, extras = copy.deepcopy(BASE), set()
        cur_src, cur = base_src, base_out
        for i, a in enumerate(beh):
            mods2, extras2 = apply(mods, extras, a)
            src2 = render(mods2, extras2)
            # Rerun must really run again; other sources are cached per distinct text
            if a["a"] == "Rerun" or src2 not in cache:
                out2 = gen(wd, src2, "step")
                if a["a"] == "Rerun":
                    # hash-order nondeterminism shows only in some processes: two more fresh runs
                    for extra_run in range(2):
                        out3 = gen(wd, src2, "step%d" % extra_run)
                        compare(rep, a, out2, out3, beh, i, cur_src, src2)
                if a["a"] != "Rerun":
                    cache[src2] = out2
            else:
                out2 = cache[src2]
            compare(rep, a, cur, out2, beh, i, cur_src, src2)
            nsteps += 1
            for b in lib.BACKENDS:
                rep.nontriv("%s|%s|%s" % (b, a["a"], json.dumps({k: v for k, v in a.items() if k != "a"}, sort_keys=True)))
            mods, extras, cur_src, cur = mods2, extras2, src2, out2
    nsteps += same_named_leg(rep, wd, base_src, base_out)
    nsteps += reused_directory_leg(rep, wd, base_src, base_out)
    nsteps += command_line_leg(rep, wd, tier)
    rep.evaluations += nsteps * len(lib.BACKENDS)
    rep.traces += len(behs)
    rep.sample({"history": behs[0], "final_source": cur_src[:1500]})
    rep.exhaustive = False
