"""C01 — the Rust extern "C" layer and the generated C headers agree on the ABI (spec/abi: Abi, CallProtocol)."""
import json, os, random, re, struct
import lib, abisig, callgen


def catalogue(rep, tier, n_random):
    r = lib.tlc("abi", "MC_Abi", "abi_cover.cfg", workers=4, coverage=False)
    lib.tlc_expect_ok(r, "Abi cover")
    rep.add_tlc("Abi/cover", r)
    defs = r.printed["DEFS"][0]
    cases = r.printed["CASE"]
    rc = lib.tlc("abi", "MC_Abi", "abi_cb.cfg", workers=2, coverage=False)
    lib.tlc_expect_ok(rc, "Abi callbacks")
    rep.add_tlc("Abi/cb", rc)
    cases = cases + rc.printed["CASE"]
    rt = lib.tlc("abi", "MC_Abi", "abi_trait.cfg", workers=2, coverage=False)
    lib.tlc_expect_ok(rt, "Abi trait objects")
    rep.add_tlc("Abi/trait", rt)
    cases = cases + rt.printed["CASE"]
    rl = lib.tlc("abi", "MC_Abi", "abi_strs.cfg", workers=2, coverage=False)
    lib.tlc_expect_ok(rl, "Abi lists of strings")
    rep.add_tlc("Abi/strs", rl)
    cases = cases + rl.printed["CASE"]
    rs = lib.tlc("abi", "MC_Abi", "abi_random.cfg", workers=1, coverage=False, simulate=100, depth=8)
    lib.tlc_expect_ok(rs, "Abi random")
    rep.add_tlc("Abi/random", rs)
    seen = set(json.dumps(c["sig"], sort_keys=True) for c in cases)
    extra = []
    for c in rs.printed.get("CASE", []):
        k = json.dumps(c["sig"], sort_keys=True)
        if k not in seen and len(c["sig"]["params"]) >= 2:
            seen.add(k)
            extra.append(c)
    random.Random(lib.seed()).shuffle(extra)
    return defs, cases + extra[:n_random]


def parse_protos(outdir):
    protos = {}
    for f in os.listdir(outdir):
        if f.endswith(".h") and not f.endswith(".d.h") and f != "diplomat_runtime.h":
            for line in open(os.path.join(outdir, f)):
                m = re.match(r'^(\S.*?)\s+(\w+)\((.*)\);\s*$', line)
                if m and not line.startswith("typedef"):
                    ps = [] if m.group(3).strip() == "void" else [p.strip() for p in m.group(3).split(",")]
                    tys = [re.sub(r'\s*\w+$', '', p).strip() for p in ps]
                    protos[m.group(2)] = (m.group(1).strip(), tys)
    return protos


def c_scalar(sh):
    """C spelling of a scalar spec shape (None for aggregates and pointers, which keep the header's own spelling)"""
    k = sh["s"]
    if k == "int":
        if sh.get("p") == "enum":
            return "En"
        if sh.get("p") == "char":
            return "char32_t"
        return "%sint%d_t" % ("" if sh["signed"] else "u", sh["bits"])
    if k == "size":
        return "intptr_t" if sh["signed"] else "size_t"
    if k == "float":
        return "float" if sh["bits"] == 32 else "double"
    if k == "bool":
        return "bool"
    if k == "void":
        return "void"
    return None


def static_checks(e, sym, proto):
    """C declarations that only compile if the header's prototype has the scalar types, sizes and alignments the spec computes"""
    rty, ptys = proto
    sh, lay = e["shape"], e["lay"]
    if len(ptys) != len(sh["params"]):
        return "_Static_assert(0, \"%s: parameter count %d, spec says %d\");" % (sym, len(ptys), len(sh["params"]))
    out = []
    exp_ps = [c_scalar(s) or t for s, t in zip(sh["params"], ptys)]
    exp_r = c_scalar(sh["ret"]) or rty
    out.append("{ %s (*fp_)(%s) = &%s; (void)fp_; }" % (exp_r, ", ".join(exp_ps) if exp_ps else "void", sym))
    for s, t, l in zip(sh["params"] + [sh["ret"]], ptys + [rty], lay["params"] + [lay["ret"]]):
        if s["s"] in ("struct",):
            out.append("_Static_assert(sizeof(%s) == %d && _Alignof(%s) == %d, \"%s: size/align of %s\");" % (t, l["size"], t, l["align"], sym, t))
    # callbacks: run_callback must have exactly the native signature the spec computes (data pointer first)
    cbs = e.get("cbs") or {}
    if isinstance(cbs, list):
        cbs = {str(i + 1): c for i, c in enumerate(cbs)}
    off = len(sh["params"]) - len(e["sig"]["params"]) - (1 if e["sig"]["write"] else 0)
    for idx, cs in cbs.items():
        i = int(idx) - 1
        p = e["sig"]["params"][i]
        names = ["const void*"] + [c_scalar(x) or (a["n"] if a["k"] == "struct" else "?") for x, a in zip(cs["params"][1:], p["ps"])]
        r = c_scalar(cs["ret"]) or (p["r"]["n"] if p["r"]["k"] == "struct" else "?")
        out.append("{ %s t_; memset(&t_, 0, sizeof t_); %s (*fp_)(%s) = t_.run_callback; void (*dp_)(const void*) = t_.destructor; "
                   "const void* d_ = t_.data; (void)fp_; (void)dp_; (void)d_; }" % (ptys[off + i], r, ", ".join(names)))
    # trait objects: every vtable entry must have exactly the native signature the spec computes; destructor/SIZE/ALIGNMENT lead
    trs = e.get("traits") or {}
    if isinstance(trs, list):
        trs = {str(i + 1): c for i, c in enumerate(trs)}
    for idx, mss in trs.items():
        i = int(idx) - 1
        p = e["sig"]["params"][i]
        if isinstance(mss, dict):
            mss = [mss[k] for k in sorted(mss, key=int)]
        chk = ["%s t_; memset(&t_, 0, sizeof t_); void (*dp_)(const void*) = t_.vtable.destructor; size_t* sz_ = &t_.vtable.SIZE; "
               "size_t* al_ = &t_.vtable.ALIGNMENT; (void)dp_; (void)sz_; (void)al_;" % ptys[off + i],
               "_Static_assert(offsetof(%s, vtable) == sizeof(void*), \"%s: the vtable follows the data pointer\");" % (ptys[off + i], sym)]
        for q, (cs, m) in enumerate(zip(mss, p["ms"])):
            names = ["void*"] + [c_scalar(x) or (a["n"] if a["k"] == "struct" else "?") for x, a in zip(cs["params"][1:], m["ps"])]
            r = c_scalar(cs["ret"]) or (m["r"]["n"] if m["r"]["k"] == "struct" else "?")
            chk.append("%s (*f%d_)(%s) = t_.vtable.run_t%d_callback; (void)f%d_;" % (r, q, ", ".join(names), q, q))
        out.append("{ " + " ".join(chk) + " }")
    return " ".join(out)


def norm_ptr(s):
    return re.sub(r'p:(?!0\b)[0-9a-f@a-z]+', 'p:*', s)


def layout_rust(defs):
    lines = []
    for n, fields in defs["structs"].items():
        ty = "ffi::%s" % n + ("<'static>" if n == "Brw" else "")
        offs = ", ".join("core::mem::offset_of!(%s, %s)" % (ty, abisig.fname(i)) for i in range(len(fields)))
        lines.append('    dv_event("RustLayout", "%s", &format!("size={};align={};off={:?}", core::mem::size_of::<%s>(), '
                     'core::mem::align_of::<%s>(), [%s]));' % (n, ty, ty, offs))
    return "#[no_mangle]\npub extern \"C\" fn dv_layouts() {\n" + "\n".join(lines) + "\n}\n"


def layout_c(defs):
    out = []
    for n, fields in defs["structs"].items():
        out.append('LB(); L("size=%%zu;align=%%zu;off=[", sizeof(%s), _Alignof(%s));' % (n, n))
        for i in range(len(fields)):
            out.append('L("%s%%zu", offsetof(%s, %s));' % (", " if i else "", n, abisig.fname(i)))
        out.append('L("]"); LE("CLayout", "%s");' % n)
    return "\n    ".join(out)


def build_and_run(rep, tag, defs, entries, wd, cc_flags=("-std=c11",), lang="c"):
    """entries: list of dict(n, sig, args, retv, write). Returns list of events or None."""
    g = callgen.Gen(defs, 0)
    bodies = {}
    for e in entries:
        bodies[e["n"]] = g.rust_body(e["n"], e["sig"], e["args"], e["retv"], e["write"]["chunks"] if e["write"] else None,
                                     ret_ty=abisig.rust_ty(e["sig"]["ret"], "'a" if abisig.mentions_borrow(e["sig"]["ret"]) else None))
    src, syms = abisig.module(defs, [(e["n"], e["sig"]) for e in entries], bodies=bodies,
                              host_data=(callgen.HOST_TEXT, callgen.HOST_BYTES, callgen.HOST_WORDS, callgen.HOST_WIDE),
                              # the catalogue's enum carries a representation hint of its own (one that does not conflict with C): the
                              # macro has to force #[repr(C)] on top of it all the same, or the enum shrinks to one byte
                              type_attr=lambda n: "    #[repr(align(1))]\n" if n == "En" else "")
    lib_rs = "#![allow(unused, non_snake_case, clippy::all)]\n" + callgen.RUST_SUPPORT + layout_rust(defs) + src
    b = lib.build_bridge("c01_" + tag, lib_rs)
    if not b["ok"]:
        rep.violation({"leg": "build", "what": "macro expansion of the catalogue does not compile"}, {"stderr": b["stderr"][-4000:]})
        open(os.path.join(wd, "build_stderr.txt"), "w").write(b["stderr"])
        return None, syms
    out = os.path.join(wd, "c_" + tag)
    tr = lib.run_tool("c", os.path.join(b["dir"], "src", "lib.rs"), out)
    if tr["rc"] != 0:
        rep.violation({"leg": "tool", "what": "C backend failed on the catalogue"}, {"stderr": tr["stderr"][-2000:]})
        return None, syms
    protos = parse_protos(out)
    calls = []
    for e in entries:
        sym = syms[e["n"]]
        if sym not in protos:
            rep.violation({"leg": "header", "what": "exported function not declared in the C header"}, {"symbol": sym, "sig": e["sig"]})
            continue
        calls.append(static_checks(e, sym, protos[sym]))
        calls.append(g.c_call(e["n"], e["sig"], sym, protos[sym], e["args"], e["write"]))
    headers = sorted(f for f in os.listdir(out) if f.endswith(".h") and not f.endswith(".d.h"))
    drv = (callgen.C_SUPPORT + "".join('#include "%s"\n' % h for h in headers) + "\n".join(g.prelude) + "\nextern void dv_layouts(void);\n"
           "int main(void) {\n    Opq* obj = Opq_mk(1);\n    Host* host = Host_mk(7);\n    (void)obj; (void)host;\n    dv_layouts();\n    "
           + layout_c(defs) + "\n    " + "\n    ".join(calls) + "\n    Opq_destroy(obj);\n    Host_destroy(host);\n    return 0;\n}\n")
    dp = os.path.join(wd, "driver_%s.c" % tag)
    open(dp, "w").write(drv)
    exe = os.path.join(wd, "driver_" + tag)
    cc = lib.sh(["gcc"] + list(cc_flags) + ["-g", "-O0", "-Werror=incompatible-pointer-types", "-fsanitize=address,undefined", "-fno-omit-frame-pointer", "-I", out, dp, b["staticlib"],
                 "-lpthread", "-ldl", "-lm", "-o", exe], timeout=600)
    if cc.returncode != 0:
        rep.violation({"leg": "cc", "what": "driver does not compile against the generated headers"}, {"stderr": cc.stderr[-4000:], "driver": dp})
        return None, syms
    p = lib.sh([exe], timeout=300, env={"ASAN_OPTIONS": "detect_leaks=1:abort_on_error=0", "UBSAN_OPTIONS": "print_stacktrace=1"})
    events = []
    for line in p.stdout.splitlines():
        if line.startswith("{"):
            try:
                events.append(json.loads(line))
            except ValueError:
                pass
    if p.returncode != 0 or "ERROR: AddressSanitizer" in p.stderr or "runtime error:" in p.stderr or "LeakSanitizer" in p.stderr:
        last = events[-1] if events else None
        rep.violation({"leg": "run", "what": "driver crashed or sanitizer report", "signal": p.returncode},
                      {"stderr": p.stderr[-3000:], "last_event": last, "driver": dp})
    return events, syms


def make_entries(defs, cases, vectors, seed):
    g = callgen.Gen(defs, seed)
    entries = []
    n = 0
    for c in cases:
        sig = c["sig"]
        views = [i for i, p in enumerate(sig["params"]) if p["k"] in ("slice", "str")]
        # the last vector of a signature with slice/string parameters always carries the C-land empty view {NULL, 0}
        # (what a default-constructed span / string_view passes); the others are drawn at random
        for vi in range(vectors + (1 if views else 0)):
            args = {"self": g.value(sig["self"], "param") if sig["self"]["k"] in ("struct", "enum") else None,
                    "params": [g.value(p, "param") for p in sig["params"]]}
            if vi == vectors:
                for i in views:
                    args["params"][i] = {"null": True, "items": []}
            retv = g.value(sig["ret"], "ret")
            write = None
            if sig["write"]:
                chunks = g.rng.choice([[], ["a"], ["héllo", "", " €"], ["0123456789" * 3, "x"]])
                write = {"chunks": chunks, "cap": g.rng.choice([0, 0, 1, 4, 64])}
            entries.append({"n": n, "sig": sig, "shape": c["shape"], "lay": c["lay"], "cbs": c.get("cbs"), "traits": c.get("traits"), "args": args, "retv": retv, "write": write})
            n += 1
    return g, entries


def check_events(rep, g, entries, events, leg="c"):
    by_f, cb_f = {}, {}
    for ev in events:
        if ev["ev"] in ("CCall", "RustEnter", "RustReturn", "CReturn", "CWrite"):
            by_f.setdefault(ev["f"], []).append(ev)
        elif ev["ev"] in ("CbInvoke", "CbEnter", "CbReturn", "CbResult", "CbDrop"):
            cb_f.setdefault(ev["f"].split(".")[0], []).append(ev)
    ncmp = 0
    for e in entries:
        f = "f%d" % e["n"]
        evs = by_f.get(f, [])
        kinds = [x["ev"] for x in evs]
        sig = e["sig"]
        key = {"leg": leg, "ret": sig["ret"]["k"], "self": sig["self"]["k"],
               "params": [p["k"] + ":" + str(p.get("p") or p.get("n") or p.get("e") or p.get("enc") or "") for p in sig["params"]]}
        want_kinds = ["CCall", "RustEnter", "RustReturn", "CReturn"] + (["CWrite"] if sig["write"] else [])
        if kinds != want_kinds:
            rep.violation(dict(key, what="call protocol (exactly once, in order)"), {"sig": sig, "events": evs, "expected_order": want_kinds})
            continue
        if not check_callbacks(rep, g, e, key, evs, cb_f.get(f, [])):
            continue
        slots = []
        if sig["self"]["k"] in ("opq", "opqmut"):
            slots.append("p:@host")
        elif sig["self"]["k"] in ("struct", "enum"):
            slots.append(g.tok(sig["self"], e["args"]["self"]))
        slots += [g.tok(p, v) for p, v in zip(sig["params"], e["args"]["params"])]
        exp_args = ";".join(slots)
        exp_ret = g.tok(sig["ret"], e["retv"])
        ccall, enter, rret, cret = evs[0]["v"], evs[1]["v"], evs[2]["v"], evs[3]["v"]
        ncmp += 1
        if ccall != enter or norm_ptr(ccall) != norm_ptr(exp_args):
            rep.violation(dict(key, what="arguments not delivered bit-for-bit"),
                          {"sig": sig, "expected": exp_args, "c_sent": ccall, "rust_received": enter})
        if rret != cret or norm_ptr(cret) != norm_ptr(exp_ret):
            rep.violation(dict(key, what="return value differs"),
                          {"sig": sig, "expected": exp_ret, "rust_returned": rret, "c_received": cret})
        if sig["write"]:
            text = "".join(e["write"]["chunks"]).encode("utf8")
            expw = "w[%d|%s]" % (len(text), ",".join("u8:%x" % b for b in text))
            if evs[4]["v"] != expw:
                rep.violation(dict(key, what="written string differs"), {"sig": sig, "expected": expw, "observed": evs[4]["v"], "cap": e["write"]["cap"]})
        rep.nontriv(json.dumps([sig, e["args"], e["retv"]], sort_keys=True))
    return ncmp


def check_callbacks(rep, g, e, key, evs, cbevs):
    """callback parameters: every scripted invocation happens once, in order, inside the body (between RustEnter and
    RustReturn), with the tokens Rust sent == the tokens the foreign callback received == the script, the answer the
    callback gave == what Rust got back == the script; every callback is destroyed exactly once before the caller resumes"""
    sig = e["sig"]
    cbi = [i for i, p in enumerate(sig["params"]) if p["k"] in ("cb", "trait")]
    if not cbi:
        if cbevs:
            rep.violation(dict(key, what="callback events for a call without callbacks"), {"sig": sig, "events": cbevs})
            return False
        return True
    want = []
    for i in cbi:
        cf = "f%d.cb%d" % (e["n"], i)
        p = sig["params"][i]
        for call in e["args"]["params"][i]["calls"]:
            m = p["ms"][call["m"]] if p["k"] == "trait" else p
            at = ("t%d|" % call["m"] if p["k"] == "trait" else "") + ";".join(g.tok(a, x) for a, x in zip(m["ps"], call["args"]))
            rt = "()" if m["r"]["k"] == "unit" else g.tok(m["r"], call["ret"])
            want += [("CbInvoke", cf, at), ("CbEnter", cf, at), ("CbReturn", cf, rt), ("CbResult", cf, rt)]
    got = [(x["ev"], x["f"], x["v"]) for x in cbevs if x["ev"] != "CbDrop"]
    drops = [x for x in cbevs if x["ev"] == "CbDrop"]
    if [(a, b, norm_ptr(c)) for a, b, c in got] != [(a, b, norm_ptr(c)) for a, b, c in want]:
        rep.violation(dict(key, what="callback invocations differ from the script (values or order)"),
                      {"sig": sig, "expected": want, "observed": got})
        return False
    if sorted(x["f"] for x in drops) != sorted("f%d.cb%d" % (e["n"], i) for i in cbi):
        rep.violation(dict(key, what="callback not destroyed exactly once"), {"sig": sig, "drops": drops})
        return False
    enter, ret, cret = evs[1]["seq"], evs[2]["seq"], evs[3]["seq"]
    if any(not (enter < x["seq"] < ret) for x in cbevs if x["ev"] != "CbDrop") or any(not (enter < x["seq"] < cret) for x in drops) \
            or any(d["seq"] < x["seq"] for d in drops for x in cbevs if x["ev"] != "CbDrop" and x["f"] == d["f"]):
        rep.violation(dict(key, what="callback used outside the call that owns it"), {"sig": sig, "events": evs, "callback_events": cbevs})
        return False
    return True


def check_layouts(rep, defs, events):
    rl = {e["f"]: e["v"] for e in events if e["ev"] == "RustLayout"}
    cl = {e["f"]: e["v"] for e in events if e["ev"] == "CLayout"}
    for n in defs["structs"]:
        ly = defs["layouts"][n]["p64"]
        exp = "size=%d;align=%d;off=[%s]" % (ly["size"], ly["align"], ", ".join(str(x) for x in ly["offsets"]))
        if rl.get(n) != exp or cl.get(n) != exp:
            rep.violation({"leg": "layout", "struct": n}, {"spec": exp, "rustc": rl.get(n), "c": cl.get(n)})


def validate_protocol(rep, events, wd, tag):
    tr = os.path.join(wd, "trace_%s.ndjson" % tag)
    lib.write_ndjson(tr, [e for e in events if e["ev"] in ("CCall", "RustEnter", "RustReturn", "CReturn", "CWrite", "Reject",
                                                           "CbInvoke", "CbEnter", "CbReturn", "CbResult", "CbDrop")])
    ok, r = lib.validate_trace("abi", "Trace_CallProtocol", "call_trace.cfg", tr, heap="4g")
    rep.add_tlc("Trace_CallProtocol/" + tag, r)
    if not ok:
        rej = (r.printed.get("REJECTED") or [{}])[0]
        rep.violation({"leg": "trace", "what": "trace is not a behaviour of CallProtocol", "event": (rej.get("event") or {}).get("ev")},
                      {"rejected": rej, "tlc_tail": r.out[-500:], "trace": tr})
    return tr


def write_value_leg(rep, defs, wd):
    """A method that takes a DiplomatWrite AND returns a value: accepted by the tool, compiled by the macro as (self, parameters,
    writer) -> value.  The header has to declare exactly that (SigShape of Abi.tla: the writer is the last parameter whatever the
    result is) -- only the declarations are compared; calling through a header with a missing parameter is undefined behaviour."""
    r = lib.tlc("abi", "MC_Abi", "abi_wval.cfg", workers=2, coverage=False)
    lib.tlc_expect_ok(r, "Abi writer + value")
    rep.add_tlc("Abi/wval", r)
    cases = r.printed["CASE"]
    src, syms = abisig.module(defs, [(9000 + i, c["sig"]) for i, c in enumerate(cases)])
    p = os.path.join(wd, "wval.rs")
    open(p, "w").write(src)
    out = os.path.join(wd, "wval_c")
    t = lib.run_tool("c", p, out)
    if t["rc"] != 0:
        # "for every bridge module the tool accepts": a diagnostic about the shape is a legitimate answer
        if "DiplomatWrite" in t["stderr"] and not t["panicked"]:
            rep.extra["write_value"] = "rejected by the tool"
            return 0
        rep.violation({"leg": "write_value", "what": "C backend failed"}, {"stderr": t["stderr"][-1500:]})
        return 0
    protos = parse_protos(out)
    for i, c in enumerate(cases):
        sym = syms[9000 + i]
        ret = c["sig"]["ret"]
        key = {"leg": "write_value", "ret": ret["k"] + ":" + str(ret.get("p") or ret.get("n") or "")}
        if sym not in protos:
            rep.violation(dict(key, what="exported function not declared"), {"symbol": sym, "sig": c["sig"]})
            continue
        rty, ptys = protos[sym]
        rep.nontriv("wval|" + json.dumps(c["sig"], sort_keys=True))
        if len(ptys) != len(c["shape"]["params"]) or not ptys or "DiplomatWrite" not in ptys[-1]:
            rep.violation(dict(key, what="the writer the macro compiles is missing from the C declaration"),
                          {"symbol": sym, "sig": c["sig"], "declared": {"ret": rty, "params": ptys}, "spec_parameters": len(c["shape"]["params"]),
                           "rust": [l for l in src.splitlines() if "fn f%d" % (9000 + i) in l]})
    return len(cases)


def run(rep, tier):
    wd = rep.wd
    rep.rule = ("cases = Abi.tla catalogue (206 structured-coverage signatures + TLC-simulated multi-parameter ones) x value vectors drawn "
                "from extremes/NaN payloads/invalid scalar values/NULL+0 slices/invalid UTF-8 and UTF-16; each is compiled with the real "
                "macro, declared by the real C backend, called from a gcc -fsanitize=address,undefined driver; tokens sent by C, received "
                "by Rust, returned by Rust and received by C must equal each other and the spec's expectation; the whole event log is "
                "validated by Trace_CallProtocol.tla; non-trivial = distinct (signature, argument vector, return value)")
    rep.assumptions += ["x86-64 SysV, gcc 12", "pointers are compared between the two sides (and only for NULL-ness with the spec)",
                        "&str arguments are valid UTF-8 (a C caller's obligation); unvalidated encodings carry invalid data on purpose"]
    m = lib.tlc("abi", "CallProtocol", "call.cfg", workers=4)
    lib.tlc_expect_ok(m, "CallProtocol")
    if lib.vacuous_actions(m):
        raise lib.ToolError("vacuous CallProtocol actions")
    rep.add_tlc("CallProtocol", m)
    rn = lib.tlc("abi", "MC_Abi", "abi_neg.cfg", workers=4, coverage=False)
    lib.tlc_expect_violation(rn, "flag-first option encoding", "FlagLast")
    defs, cases = catalogue(rep, tier, 60 if tier == "quick" else 1500)
    rep.evaluations += write_value_leg(rep, defs, wd)
    g, entries = make_entries(defs, cases, 2 if tier == "quick" else 4, lib.seed())
    B = 700
    total = 0
    for i in range(0, len(entries), B):
        chunk = entries[i:i + B]
        tag = "b%d" % (i // B)
        events, syms = build_and_run(rep, tag, defs, chunk, wd)
        if events is None:
            continue
        total += check_events(rep, g, chunk, events)
        check_layouts(rep, defs, events)
        tr = validate_protocol(rep, events, wd, tag)
        if i == 0:
            # binding self-test: corrupt one argument token -> rejected
            evs = lib.read_ndjson(tr)
            k = next((j for j, e in enumerate(evs) if e["ev"] == "RustEnter" and "u16:" in e["v"]), None)
            if k is None:
                if rep.violations:
                    continue       # the driver died before the first such call: reported above
                raise lib.ToolError("binding self-test: no call with a u16 argument in the first batch")
            evs[k]["v"] = evs[k]["v"].replace("u16:", "u16:f", 1)
            bad = os.path.join(wd, "trace_corrupt.ndjson")
            lib.write_ndjson(bad, evs[:k + 3])
            ok2, _ = lib.validate_trace("abi", "Trace_CallProtocol", "call_trace.cfg", bad)
            if ok2:
                raise lib.ToolError("binding self-test failed: corrupted argument token accepted")
            rep.extra["binding_selftest"] = "corrupted token at event %d rejected" % (k + 1)
    rep.evaluations += total
    rep.traces += total
    rep.sample({"sig": entries[5]["sig"], "args": entries[5]["args"], "ret": entries[5]["retv"]})
    rep.exhaustive = False
