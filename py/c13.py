"""C13 — backend-conditional attributes apply exactly where their condition holds (spec/attrs)."""
import json, os, random
import lib, profiles, observe


def ftext(f):
    k = f["k"]
    if k == "star":
        return "*"
    if k == "name":
        return f["n"]
    if k == "supports":
        return "supports = %s" % f["f"]
    if k == "not":
        return "not(%s)" % ftext(f["a"])
    return "%s(%s)" % (k, ", ".join(ftext(x) for x in f["xs"]))


def depth(f):
    if f["k"] == "not":
        return 1 + depth(f["a"])
    if f["k"] in ("any", "all"):
        return 1 + max([depth(x) for x in f["xs"]] or [0])
    return 0


ATTR = {
    ("disable", "module"): "disable", ("disable", "type"): "disable", ("disable", "impl"): "disable", ("disable", "method"): "disable",
    ("rename", "module"): 'rename = "Ren{0}"', ("rename", "type"): 'rename = "RenTee"',
    ("rename", "impl"): 'rename = "ren_{0}"', ("rename", "method"): 'rename = "ren_one"',
}


TKINDS = ("opaque", "struct", "enum")
TDECL = {"opaque": "    #[diplomat::opaque]\n    pub struct Tee(u8);\n", "struct": "    pub struct Tee {\n        pub a: u8,\n    }\n",
         "enum": "    pub enum Tee {\n        A,\n        B,\n    }\n"}


def program(kind, place, cfg, tkind="opaque"):
    """the attributed item is the type Tee (an opaque, a struct or an enum: the three kinds are lowered by different code)"""
    a = lambda pl: ("    #[diplomat::attr(%s, %s)]\n" % (cfg, ATTR[(kind, place)])) if (cfg is not None and pl == place) else ""
    mod_attr = ("#[diplomat::attr(%s, %s)]\n" % (cfg, ATTR[(kind, place)])) if (cfg is not None and place == "module") else ""
    slf = "&self" if tkind == "opaque" else "self"
    return ("#[diplomat::bridge]\n" + mod_attr + "mod ffi {\n" + a("type") + TDECL[tkind] + a("impl") +
            "    impl Tee {\n    " + a("method") +
            "        pub fn m_one(%s) -> u8 { 1 }\n        pub fn m_two(%s) -> u8 { 2 }\n    }\n"
            "    impl Tee {\n        pub fn m_three(%s) -> u8 { 3 }\n    }\n"
            "    #[diplomat::opaque]\n    pub struct Uuu(u8);\n"
            "    impl Uuu {\n        pub fn u_one(&self) -> u8 { 1 }\n    }\n}\n" % (slf, slf, slf))


# what the attributed method m_one looks like: a plain method, or a SPECIAL one whose presence changes how the type is rendered
# (comparison -> operators / Comparable, iterator -> next(), stringifier -> toString), or one whose signature half of the backends
# cannot lower at all
SPECIAL_M1 = {
    "comparison": "        #[diplomat::attr(auto, comparison)]\n        pub fn m_one(&self, o: &Tee) -> core::cmp::Ordering { todo!() }\n",
    "iterator": "        #[diplomat::attr(auto, iterator)]\n        pub fn m_one(&mut self) -> Option<u8> { None }\n",
    "stringifier": "        #[diplomat::attr(auto, stringifier)]\n        pub fn m_one(&self, w: &mut DiplomatWrite) {}\n",
    "static_slice": "        pub fn m_one(&self, x: &'static [u8]) -> u8 { 1 }\n",
}


def program_m1(variant, cfg, erased=False, after=False):
    """opaque Tee whose first method is `variant`; disabled under cfg (method place), or not written at all (erased).
    after: the conditional attribute is written AFTER the method's own `auto`-gated marker instead of before it -- attributes of one
    item are independent of each other (Attrs.tla evaluates each formula on its own), so the order cannot matter"""
    attr = ("        #[diplomat::attr(%s, disable)]\n" % cfg) if cfg is not None else ""
    body = SPECIAL_M1[variant]
    if after and body.lstrip().startswith("#[diplomat::attr(auto"):
        first, rest = body.split("\n", 1)
        m1 = first + "\n" + attr + rest
    else:
        m1 = attr + body
    if erased:
        m1 = ""
    return ("#[diplomat::bridge]\nmod ffi {\n    use diplomat_runtime::DiplomatWrite;\n" + TDECL["opaque"] +
            "    impl Tee {\n" + m1 + "        pub fn m_two(&self) -> u8 { 2 }\n    }\n"
            "    impl Tee {\n        pub fn m_three(&self) -> u8 { 3 }\n    }\n"
            "    #[diplomat::opaque]\n    pub struct Uuu(u8);\n    impl Uuu {\n        pub fn u_one(&self) -> u8 { 1 }\n    }\n}\n")


def program_t(cfg, erased=False, after=False):
    """a whole TYPE disabled under cfg: an opaque with a render terminus and a hand-written demo function file
    (#[diplomat::demo(custom_func = ..)], copied and imported by demo_gen) -- or not written at all (erased)"""
    attr = ("    #[diplomat::attr(%s, disable)]\n" % cfg) if cfg is not None else ""
    demo = '    #[diplomat::demo(custom_func = "custom_cus.mjs")]\n'
    t = "" if erased else ((demo + attr if after else attr + demo) + "    #[diplomat::opaque]\n    pub struct Cus(u8);\n"
                           "    impl Cus {\n        #[diplomat::demo(default_constructor)]\n        pub fn mk() -> Box<Cus> { Box::new(Cus(0)) }\n"
                           "        pub fn show(&self, w: &mut DiplomatWrite) {}\n    }\n")
    return ("#[diplomat::bridge]\nmod ffi {\n    use diplomat_runtime::DiplomatWrite;\n" + TDECL["opaque"] +
            "    impl Tee {\n        #[diplomat::demo(default_constructor)]\n        pub fn mk() -> Box<Tee> { Box::new(Tee(0)) }\n"
            "        pub fn m_two(&self) -> u8 { 2 }\n        pub fn show_tee(&self, w: &mut DiplomatWrite) {}\n    }\n" + t + "}\n")


def no_trace(rep, tier, cases):
    """Remaining(pl, holds) of Attrs.tla: on a backend where the condition holds, a disabled method leaves no trace -- the output is
    byte-identical to that of the program in which the method was never written; where it does not hold, identical to the
    attribute-free program.  The method is a special method or has a signature the backend may be unable to lower."""
    wd = rep.wd
    rng = random.Random(lib.seed() + 13)
    by_sig = {}
    for c in cases:
        by_sig.setdefault(tuple(sorted(b for b, v in c["sat"].items() if v)), []).append(c)
    sigs = sorted(by_sig)
    rng.shuffle(sigs)
    n = 0
    open(os.path.join(wd, "custom_cus.mjs"), "w").write("export default { 'Cus.custom': { func: () => 'x', funcName: 'Cus.custom', parameters: [] } };\n")
    for variant in list(SPECIAL_M1) + ["type_custom_func"]:
        prog = (lambda cfg, erased=False, after=False, _v=variant: program_m1(_v, cfg, erased=erased, after=after)) if variant in SPECIAL_M1 else program_t
        erased = gen_all(wd, "erased", prog(None, erased=True))
        plain = gen_all(wd, "plain", prog(None))
        if variant == "type_custom_func" and any(plain[b]["rc"] != 0 for b in lib.BACKENDS):
            raise lib.ToolError("no-trace leg: the type_custom_func program is refused by %s (the leg would compare nothing): %s" % (
                [b for b in lib.BACKENDS if plain[b]["rc"] != 0], [plain[b]["stderr"][-200:] for b in lib.BACKENDS if plain[b]["rc"] != 0]))
        forms = [{"txt": "*", "sat": {b: True for b in lib.BACKENDS}}] + \
                [{"txt": ftext(c["form"]), "sat": c["sat"]} for c in (rng.choice(by_sig[sg]) for sg in sigs[:(2 if tier == "quick" else 10)])]
        orders = [False, True] if (variant not in SPECIAL_M1 or SPECIAL_M1[variant].lstrip().startswith("#[diplomat::attr(auto")) else [False]
        for f, after in [(f, o) for f in forms for o in orders]:
            got = gen_all(wd, "dis", prog(f["txt"], after=after))
            n += 1
            for b in lib.BACKENDS:
                exp = erased[b] if f["sat"][b] else plain[b]
                exp_tree = exp["tree"]
                if b == "demo_gen" and exp_tree is not None:
                    jsexp = (erased[b] if f["sat"]["js"] else plain[b])["tree"] or {}
                    exp_tree = {k: v for k, v in exp_tree.items() if not k.startswith("js/")}
                    exp_tree.update({k: v for k, v in jsexp.items() if k.startswith("js/")})
                    if (erased[b] if f["sat"]["js"] else plain[b])["rc"] != 0:
                        continue       # the embedded js run fails on the undisabled signature: nothing to compare with
                if exp["rc"] != 0 and not f["sat"][b]:
                    # the backend cannot lower the method and the attribute does not disable it there: it fails with and without
                    if got[b]["rc"] == 0:
                        rep.violation({"leg": "no-trace", "variant": variant, "backend": b, "what": "undisabled unsupported method accepted"}, {"formula": f["txt"]})
                    continue
                if got[b]["rc"] != exp["rc"] or got[b]["tree"] != exp_tree:
                    diff = [k for k in set(got[b]["tree"] or {}) | set(exp_tree or {}) if (got[b]["tree"] or {}).get(k) != (exp_tree or {}).get(k)]
                    rep.violation({"leg": "no-trace", "variant": variant, "backend": b, "holds": f["sat"][b], "after_auto_marker": after,
                                   "what": "a disabled method leaves a trace" if f["sat"][b] else "output differs from the attribute-free program"},
                                  {"formula": f["txt"], "differing_files": sorted(diff)[:10], "stderr": got[b]["stderr"],
                                   "program": prog(f["txt"], after=after)})
            rep.nontriv("no-trace:%s:%s" % (variant, f["txt"]))
    rep.evaluations += n * len(lib.BACKENDS)
    rep.traces += n
    rep.extra["no_trace_runs"] = n


def accessor_rename_leg(rep, tier, cases):
    """A conditional rename on a method that is also a NAMED getter / setter (`getter = "level"`): the rename reaches the accessor's name
    exactly in the backends where its condition holds -- among those that show it at all when it is unconditional."""
    wd = rep.wd
    rng = random.Random(lib.seed() + 29)
    def prog(cfg):
        r = ("        #[diplomat::attr(%s, rename = \"shiny_{0}\")]\n" % cfg) if cfg else ""
        return ("#[diplomat::bridge]\nmod ffi {\n" + TDECL["opaque"] + "    impl Tee {\n        #[diplomat::attr(auto, getter = \"level\")]\n" + r +
                "        pub fn get_level(&self) -> u8 { 1 }\n        #[diplomat::attr(auto, setter = \"level\")]\n" + r +
                "        pub fn set_level(&mut self, v: u8) {}\n        pub fn m_two(&self) -> u8 { 2 }\n    }\n}\n")
    shows = lambda o: o["rc"] == 0 and any(b"shiny" in v.lower() for v in (o["tree"] or {}).values())
    always = gen_all(wd, "acc_all", prog("*"))
    never = gen_all(wd, "acc_none", prog(None))
    # (demo_gen's tree mixes its own files with the js/ files written by a nested run of the js backend under js's name: left out)
    renders = [b for b in lib.BACKENDS if b != "demo_gen" and shows(always[b]) and not shows(never[b])]
    for b in ("dart", "js"):
        # `*` holds everywhere: the backends that name properties after the accessor must show the rename
        if b not in renders:
            rep.violation({"leg": "accessor-rename", "backend": b, "holds": True, "what": "conditional rename of a named accessor not applied where it holds"},
                          {"formula": "*", "program": prog("*"), "stderr": always[b]["stderr"]})
    by_sig = {}
    for c in cases:
        by_sig.setdefault(tuple(sorted(b for b, v in c["sat"].items() if v)), []).append(c)
    sigs = sorted(by_sig)
    rng.shuffle(sigs)
    n = 0
    for sg in sigs[: (4 if tier == "quick" else 20)]:
        c = rng.choice(by_sig[sg])
        got = gen_all(wd, "acc_cond", prog(ftext(c["form"])))
        n += 1
        for b in renders:
            if got[b]["rc"] != 0:
                continue
            if shows(got[b]) != bool(c["sat"][b]):
                rep.violation({"leg": "accessor-rename", "backend": b, "holds": c["sat"][b],
                               "what": "conditional rename of a named accessor not applied where it holds" if c["sat"][b] else "conditional rename applied where it does not hold"},
                              {"formula": ftext(c["form"]), "program": prog(ftext(c["form"]))})
        rep.nontriv("accessor-rename:" + ftext(c["form"]))
    rep.evaluations += n * len(renders)
    rep.extra["accessor_rename_runs"] = n


def trait_rename_leg(rep, tier, cases):
    """Pure C shows no renames (its names are the ABI names): a rename that reaches a TRAIT -- written on the trait, or inherited from
    the bridge module -- leaves the C output byte-identical to the attribute-free program, whatever its condition."""
    wd = rep.wd
    rng = random.Random(lib.seed() + 31)
    def prog(cfg, place):
        a = ("#[diplomat::attr(%s, rename = \"%s\")]\n" % (cfg, "My{0}" if place == "module" else "Observer")) if cfg else ""
        return ("#[diplomat::bridge]\n" + (a if place == "module" else "") + "mod ffi {\n" + ("    " + a if place == "trait" else "") +
                "    pub trait Listener {\n        fn notify(&self, x: u8) -> u8;\n    }\n" + TDECL["opaque"] +
                "    impl Tee {\n        pub fn run(&self, l: impl Listener) -> u8 { l.notify(1) }\n    }\n}\n")
    def c_tree(src, tag):
        p_ = os.path.join(wd, tag + ".rs")
        open(p_, "w").write(src)
        o = os.path.join(wd, "out_%s_c" % tag)
        r = lib.run_tool("c", p_, o)
        return r["rc"], (observe.read_tree(o) if r["rc"] == 0 else None), r["stderr"][-400:]
    base = c_tree(prog(None, "trait"), "trn_base")
    if base[0] != 0:
        raise lib.ToolError("trait-rename leg: the C backend refuses the base program: " + base[2])
    forms = ["*", "c", "not(kotlin)"] + [ftext(c["form"]) for c in rng.sample(cases, 2 if tier == "quick" else 12)]
    n = 0
    for f in forms:
        for place in ("trait", "module"):
            got = c_tree(prog(f, place), "trn_cond")
            n += 1
            if got[0] != 0 or got[1] != base[1]:
                diff = sorted(k for k in set(got[1] or {}) | set(base[1]) if (got[1] or {}).get(k) != base[1].get(k))
                rep.violation({"leg": "trait-rename", "backend": "c", "place": place, "what": "a rename reaching a trait changes the pure C output"},
                              {"formula": f, "differing_files": diff[:8], "stderr": got[2], "program": prog(f, place)})
            rep.nontriv("trait-rename:%s:%s" % (place, f))
    rep.evaluations += n
    rep.extra["trait_rename_runs"] = n


def allsyms(tkind):
    return {"Tee_m_one", "Tee_m_two", "Tee_m_three", "Uuu_u_one", "Uuu_destroy"} | ({"Tee_destroy"} if tkind == "opaque" else set())


ALLSYMS = allsyms("opaque")


# symbols that must disappear from a backend's references when the disable applies (spec: DisabledTypes/Methods)
def gone(place, tkind):
    return {"module": allsyms(tkind), "type": allsyms(tkind) - {"Uuu_u_one", "Uuu_destroy"},
            "impl": {"Tee_m_one", "Tee_m_two"}, "method": {"Tee_m_one"}}[place]
RENDERS_RENAME = ["cpp", "js", "dart", "nanobind"]


def gen_all(wd, tag, src):
    p = os.path.join(wd, tag + ".rs")
    open(p, "w").write(src)
    outs = {}
    for b in lib.BACKENDS:
        o = os.path.join(wd, "out_%s_%s" % (tag, b))
        r = lib.run_tool(b, p, o)
        outs[b] = {"rc": r["rc"], "panicked": r["panicked"], "tree": observe.read_tree(o) if r["rc"] == 0 else None,
                   "dir": o, "stderr": r["stderr"][-500:]}
    return outs


def truth_table(rep, tier, gen):
    cfgs = ["attrs_quick.cfg"] if tier == "quick" else ["attrs_quick.cfg", "attrs_thorough.cfg"]
    cases = []
    for c in cfgs:
        r = lib.tlc("attrs", "MC_Attrs", c, workers=8, library=gen, coverage=False)
        lib.tlc_expect_ok(r, "Attrs " + c)
        rep.add_tlc("Attrs/" + c, r)
        cases += r.printed["CASE"]
    rs = lib.tlc("attrs", "MC_Attrs", "attrs_sim.cfg", workers=1, library=gen, coverage=False,
                 simulate=1500 if tier == "quick" else 30000, depth=12)
    lib.tlc_expect_ok(rs, "Attrs simulation")
    rep.add_tlc("Attrs/simulate", rs)
    cases += rs.printed.get("CASE", [])
    rn = lib.tlc("attrs", "MC_Attrs", "attrs_neg.cfg", workers=4, library=gen, coverage=False)
    lib.tlc_expect_violation(rn, "Attrs: any() looking at its first operand only", "AnyIsComplete")
    rep.extra["negative_models_refuted"] = 1
    # dedupe by text
    seen = {}
    for c in cases:
        seen.setdefault(ftext(c["form"]), c)
    cases = list(seen.values())
    if max(depth(c["form"]) for c in cases) < 3:
        raise lib.ToolError("no formula of depth 3 was generated")
    inp = os.path.join(rep.wd, "formulas.ndjson")
    out = os.path.join(rep.wd, "formulas.out.ndjson")
    lib.write_ndjson(inp, [{"id": i, "cfg": ftext(c["form"])} for i, c in enumerate(cases)])
    lib.dv(["c13-eval", os.path.join(lib.WORK, "profiles", "profiles.json"), inp, out])
    res = lib.read_ndjson(out)
    for c, r in zip(cases, res):
        txt = ftext(c["form"])
        if r["parse"] != "ok":
            rep.violation({"leg": "truth", "what": "formula does not parse", "depth": depth(c["form"])}, {"formula": txt, "observed": r})
            continue
        for b, want in c["sat"].items():
            if r["sat"].get(b) != want:
                rep.violation({"leg": "truth", "backend": b, "root": c["form"]["k"], "expected": want},
                              {"formula": txt, "expected": c["sat"], "observed": r["sat"]})
        if len(set(c["sat"].values())) > 1:
            rep.nontriv(txt)
    rep.evaluations += len(cases) * len(lib.BACKENDS)
    rep.traces += len(cases)
    rep.sample({"formula": ftext(cases[len(cases) // 2]["form"]), "sat": cases[len(cases) // 2]["sat"]})
    return cases


def placement(rep, tier, cases):
    wd = rep.wd
    rng = random.Random(lib.seed())
    # formulas that split the backends in different ways
    by_sig = {}
    for c in cases:
        sig = tuple(sorted(b for b, v in c["sat"].items() if v))
        by_sig.setdefault(sig, []).append(c)
    sigs = sorted(by_sig)
    rng.shuffle(sigs)
    per_place = 3 if tier == "quick" else 16
    nruns = 0
    for kind, place, tkind in [(k, p, t) for k in ("disable", "rename") for p in ("module", "type", "impl", "method") for t in TKINDS]:
        if True:
            ALLSYMS = allsyms(tkind)
            none = gen_all(wd, "none", program(kind, place, None, tkind))
            star = gen_all(wd, "star", program(kind, place, "*", tkind))
            for b in lib.BACKENDS:
                if none[b]["rc"] != 0 or star[b]["rc"] != 0:
                    rep.violation({"leg": "placement", "what": "tool failed on reference program", "backend": b, "kind": kind, "place": place},
                                  {"none": none[b]["stderr"], "star": star[b]["stderr"]})
            # absolute effect of the unconditional attribute (spec: DisabledTypes/DisabledMethods, RenamedTypes/Methods)
            for b in lib.BACKENDS:
                if none[b]["rc"] != 0 or star[b]["rc"] != 0:
                    continue
                refs_none = observe.symbol_refs(b, none[b]["dir"])
                refs_star = observe.symbol_refs(b, star[b]["dir"])
                if refs_none != ALLSYMS:
                    rep.violation({"leg": "placement", "what": "attribute-free program does not reference all symbols", "backend": b},
                                  {"refs": sorted(refs_none)})
                if kind == "disable":
                    want = ALLSYMS - gone(place, tkind)
                    if refs_star != want:
                        rep.violation({"leg": "placement", "what": "disabled items still referenced / enabled ones missing",
                                       "backend": b, "place": place},
                                      {"expected": sorted(want), "observed": sorted(refs_star)})
                    if place in ("module", "type") and any(os.path.basename(f).split(".")[0] == "Tee" for f in star[b]["tree"]):
                        rep.violation({"leg": "placement", "what": "file of a disabled type present", "backend": b, "place": place},
                                      {"files": sorted(star[b]["tree"])})
                else:
                    if refs_star != ALLSYMS:
                        rep.violation({"leg": "placement", "what": "rename changed the referenced symbols", "backend": b, "place": place},
                                      {"observed": sorted(refs_star)})
                    if b in RENDERS_RENAME:
                        new = {"module": "RenTee", "type": "RenTee", "impl": "ren", "method": "ren"}[place]
                        blob = b"".join(star[b]["tree"].values())
                        if star[b]["tree"] == none[b]["tree"] or new.encode() not in blob:
                            rep.violation({"leg": "placement", "what": "rename not rendered", "backend": b, "place": place}, {})
                        if place == "module" and b"renm" in blob.lower():
                            rep.violation({"leg": "placement", "what": "module rename reached a method", "backend": b, "type_kind": tkind}, {})
                        # a rename of the module or of the type is about the TYPE's name: its methods keep theirs
                        if place in ("module", "type"):
                            lost = [m for m in ("m_one", "m_two", "m_three")
                                    if m.encode() not in blob and (m[0] + m[1:].title().replace("_", "")).encode() not in blob
                                    and ("m" + m[2:].capitalize()).encode() not in blob]
                            if lost:
                                rep.violation({"leg": "placement", "what": "type/module rename changed method names", "backend": b,
                                               "place": place, "type_kind": tkind}, {"methods_no_longer_rendered": lost})
            # the backend's own name as the condition, under its canonical and its legacy spelling ("cpp2": a trailing 2 is stripped
            # by the tool): the condition holds, so the output is the unconditional-attribute output
            if tkind == "opaque":
                for b in ("cpp", "js", "dart"):
                    src_p = os.path.join(wd, "own_name.rs")
                    open(src_p, "w").write(program(kind, place, b, tkind))
                    for nm in (b, b + "2"):
                        o2 = os.path.join(wd, "out_own_%s" % nm)
                        r2 = lib.run_tool(nm, src_p, o2)
                        t2 = observe.read_tree(o2) if r2["rc"] == 0 else None
                        nruns += 1
                        if r2["rc"] != star[b]["rc"] or t2 != star[b]["tree"]:
                            diff = [f for f in set(t2 or {}) | set(star[b]["tree"] or {}) if (t2 or {}).get(f) != (star[b]["tree"] or {}).get(f)]
                            rep.violation({"leg": "placement", "kind": kind, "place": place, "backend": nm, "holds": True,
                                           "what": "the backend's own name as condition does not apply the attribute"},
                                          {"formula": b, "differing_files": sorted(diff)[:10], "stderr": r2["stderr"][-400:]})
            # conditional attribute: each backend equals star-output iff Sat(F, b)
            for sig in sigs[:(per_place if tkind == "opaque" else 1)]:
                c = rng.choice(by_sig[sig])
                txt = ftext(c["form"])
                got = gen_all(wd, "cond", program(kind, place, txt, tkind))
                nruns += 1
                for b in lib.BACKENDS:
                    exp = star[b] if c["sat"][b] else none[b]
                    exp_tree = exp["tree"]
                    if b == "demo_gen" and exp_tree is not None:
                        # demo_gen bundles the JS bindings by running the *js* backend into js/: that subtree
                        # follows the truth value of the formula for js, the rest follows demo_gen
                        jsexp = (star[b] if c["sat"]["js"] else none[b])["tree"] or {}
                        exp_tree = {f: v for f, v in exp_tree.items() if not f.startswith("js/")}
                        exp_tree.update({f: v for f, v in jsexp.items() if f.startswith("js/")})
                    if got[b]["rc"] != exp["rc"] or got[b]["tree"] != exp_tree:
                        diff = [f for f in set(got[b]["tree"] or {}) | set(exp_tree or {})
                                if (got[b]["tree"] or {}).get(f) != (exp_tree or {}).get(f)]
                        rep.violation({"leg": "placement", "kind": kind, "place": place, "backend": b, "holds": c["sat"][b]},
                                      {"formula": txt, "differing_files": sorted(diff)[:10], "stderr": got[b]["stderr"],
                                       "program": program(kind, place, txt, tkind)})
                # the tool still answers to the legacy backend names ("cpp2", "js2", ...: a trailing 2 is stripped): under such a name
                # the same conditions hold, so the output is that of the canonical name, byte for byte
                if tkind == "opaque":
                    for b in ("cpp", "js", "dart"):
                        src_p = os.path.join(wd, "cond.rs")
                        o2 = os.path.join(wd, "out_cond_%s2" % b)
                        r2 = lib.run_tool(b + "2", src_p, o2)
                        t2 = observe.read_tree(o2) if r2["rc"] == 0 else None
                        if r2["rc"] != got[b]["rc"] or t2 != got[b]["tree"]:
                            diff = [f for f in set(t2 or {}) | set(got[b]["tree"] or {}) if (t2 or {}).get(f) != (got[b]["tree"] or {}).get(f)]
                            rep.violation({"leg": "placement", "kind": kind, "place": place, "backend": b + "2", "holds": c["sat"][b],
                                           "what": "output under the legacy backend name differs from the canonical one"},
                                          {"formula": txt, "differing_files": sorted(diff)[:10], "stderr": r2["stderr"][-400:]})
                rep.nontriv("%s@%s:%s" % (kind, place, txt))
    rep.evaluations += nruns * len(lib.BACKENDS)
    rep.traces += nruns
    rep.sample({"placement_program": program("disable", "impl", "any(js, supports = callbacks)")})


def exports(rep):
    """the Rust library still exports every function, whatever is disabled"""
    src = program("disable", "module", "*").replace("mod ffi", "pub mod ffi")
    b = lib.build_bridge("c13_exports", src)
    if not b["ok"]:
        rep.violation({"leg": "exports", "what": "bridge with disable attribute does not build"}, {"stderr": b["stderr"][-2000:]})
        return
    syms = lib.nm_defined(b["staticlib"])
    missing = ALLSYMS - syms
    if missing:
        rep.violation({"leg": "exports", "what": "disabled function not exported"}, {"missing": sorted(missing)})
    rep.extra["exports_checked"] = sorted(ALLSYMS)


def run(rep, tier):
    rep.rule = ("formulas = all built in <=3 construction steps over 8 names + * + 6 supports atoms (quick), <=5 steps over a "
                "5-atom alphabet (thorough), plus -simulate samples up to 9 steps (depth>=3); truth value per backend compared with "
                "the real parser + satisfies_cfg on probed profiles; non-trivial = formula true for some backends and false for others; "
                "placement = disable/rename on module/type/impl/method under sampled formulas, every backend's output tree must be "
                "byte-identical to the unconditional-attribute output iff the formula holds, else to the attribute-free output")
    rep.assumptions += ["profiles and backend name sets are probed from the tool binary of the current tree",
                        "kotlin requires lib_name/domain config, nanobind lib_name: always supplied"]
    gen = profiles.write_profile_module()
    # the constants fed to the spec are probed through `#[diplomat::attr(not(...), disable)]`; ground them independently:
    # names against the documented table, features against observed acceptance of shapes needing them
    pr = profiles.profiles()
    for b, p in pr.items():
        if sorted([p["name"]] + p["other"]) != sorted(profiles.DOC_NAMES[b]):
            rep.violation({"leg": "names", "backend": b}, {"documented": profiles.DOC_NAMES[b], "answers_to": [p["name"]] + p["other"]})
    beh = profiles.behavioural()
    for b, feats in beh.items():
        claimed = sorted(f for f in pr[b]["supports"] if f in profiles.BEHAVIOUR)
        if claimed != feats:
            rep.violation({"leg": "supports", "backend": b}, {"supports_query_says": claimed, "behaviour_says": feats})
    rep.extra["behavioural_features"] = beh
    # ... and every feature flag against its second reading (attribute-path check on the struct fields)
    app = profiles.attr_path_probe()
    for b, a in app.items():
        for f in profiles.FEATURES:
            if f in a["undecided"]:
                continue
            if (f in pr[b]["supports"]) != (f in a["supports"]):
                rep.violation({"leg": "supports", "backend": b, "feature": f},
                              {"supports_query_says": f in pr[b]["supports"], "attribute_path_says": f in a["supports"]})
    rep.extra["attr_path_undecided"] = {b: a["undecided"] for b, a in app.items() if a["undecided"]}
    cases = truth_table(rep, tier, gen)
    placement(rep, tier, cases)
    no_trace(rep, tier, cases)
    accessor_rename_leg(rep, tier, cases)
    trait_rename_leg(rep, tier, cases)
    exports(rep)
    rep.exhaustive = False
