"""Rendering of spec-level type shapes into Rust bridge source (the only place bridge text is produced)."""

PRELUDE = """    #[diplomat::opaque]
    pub struct Opq(u8);
    pub struct Strct {
        #[diplomat::rust_link(foo::Strct::a, StructField)]
        pub a: u8,
    }
    pub struct Zst {}
    #[diplomat::out]
    pub struct OutS {
        /// the macro has to take field-level diplomat attributes off every kind of struct before rustc sees them
        #[diplomat::rust_link(foo::OutS::a, StructField)]
        #[diplomat::demo(input(label = "A"))]
        pub a: u8,
    }
    pub enum En {
        #[diplomat::rust_link(foo::En::A, EnumVariant)]
        A,
        B,
    }
    pub trait Tr { fn cb(&self, x: u8) -> u8; }
    pub trait Tr2 { fn first(&self, x: u32); fn bytes(&self, s: &[u8]) -> u8; fn both(&self, s: Strct, e: En) -> En; fn last(&self); }
"""


def ty(t, lt="'a"):
    """lt = None renders anonymous lifetimes (callback parameter types)."""
    k = t["k"]
    r = ("&%s " % lt) if lt else "&"
    a = ("<%s>" % lt) if lt else ""
    m = {
        "prim": "u8", "enum": "En", "struct": "Strct", "zst": "Zst", "outstruct": "OutS", "opaque": "Opq",
        "unit": "()", "write": "DiplomatWrite", "ordering": "core::cmp::Ordering",
        "str_std": r + "str", "str_dipl": "DiplomatStrSlice" + a, "str_own": "Box<str>", "str_static": "&'static str",
        "slice_std": r + "[u8]", "slice_dipl": ("DiplomatSlice<%s, u8>" % lt) if lt else "DiplomatSlice<u8>",
        "slice_mut": r + "mut [u8]", "slice_own": "Box<[u8]>", "slice_static": "&'static [u8]",
        "strs": "&[DiplomatStrSlice]", "cb": "impl Fn(u8) -> u8", "cb_ref": "impl Fn(&Opq)", "trait": "impl Tr",
    }
    if k in m:
        return m[k]
    if k == "ref":
        return r + ty(t["t"], lt)
    if k == "mutref":
        return r + "mut " + ty(t["t"], lt)
    if k == "box":
        return "Box<%s>" % ty(t["t"], lt)
    if k == "opt":
        return ("Option<%s>" if t["s"] == "std" else "DiplomatOption<%s>") % ty(t["t"], lt)
    if k == "res":
        return "Result<%s, %s>" % (ty(t["ok"], lt), ty(t["err"], lt))
    raise ValueError(k)


def gate_item(n, pos, t):
    """Returns (rust items text, error context of the case)."""
    T = ty(t)
    if pos == "param":
        return ("    #[diplomat::opaque]\n    pub struct H%d(u8);\n    impl H%d {\n        pub fn m<'a>(&'a self, x: %s, z: u8) {}\n    }\n"
                % (n, n, T), "H%d::m" % n)
    if pos == "lastparam":
        return ("    #[diplomat::opaque]\n    pub struct H%d(u8);\n    impl H%d {\n        pub fn m<'a>(&'a self, z: u8, x: %s) {}\n    }\n"
                % (n, n, T), "H%d::m" % n)
    if pos == "ret":
        return ("    #[diplomat::opaque]\n    pub struct H%d(u8);\n    impl H%d {\n        pub fn m<'a>(&'a self) -> %s { todo!() }\n    }\n"
                % (n, n, T), "H%d::m" % n)
    if pos == "ret_elided":
        return ("    #[diplomat::opaque]\n    pub struct H%d(u8);\n    impl H%d {\n        pub fn m(&self) -> %s { todo!() }\n    }\n"
                % (n, n, ty(t, None)), "H%d::m" % n)
    if pos == "ret_w":
        return ("    #[diplomat::opaque]\n    pub struct H%d(u8);\n    impl H%d {\n        pub fn m<'a>(&'a self, w: &mut DiplomatWrite) -> %s { todo!() }\n    }\n"
                % (n, n, T), "H%d::m" % n)
    if pos == "ret_w_elided":
        return ("    #[diplomat::opaque]\n    pub struct H%d(u8);\n    impl H%d {\n        pub fn m(&self, w: &mut DiplomatWrite) -> %s { todo!() }\n    }\n"
                % (n, n, ty(t, None)), "H%d::m" % n)
    if pos in ("field", "outfield"):
        lt = "<'a>" if "'a" in T else ""
        out = "    #[diplomat::out]\n" if pos == "outfield" else ""
        return ("%s    pub struct S%d%s {\n        pub f: %s,\n        pub g: u8,\n    }\n" % (out, n, lt, T), "S%d" % n)
    if pos == "cbparam":
        return ("    #[diplomat::opaque]\n    pub struct H%d(u8);\n    impl H%d {\n        pub fn m(&self, f: impl Fn(%s)) {}\n    }\n"
                % (n, n, ty(t, None)), "H%d::m" % n)
    if pos == "cbret":
        return ("    #[diplomat::opaque]\n    pub struct H%d(u8);\n    impl H%d {\n        pub fn m(&self, f: impl Fn() -> %s) {}\n    }\n"
                % (n, n, ty(t, None)), "H%d::m" % n)
    if pos == "self":
        k = t["k"]
        if k in ("ref", "mutref") and t["t"]["k"] == "opaque":
            s = "&self" if k == "ref" else "&mut self"
            return ("    #[diplomat::opaque]\n    pub struct H%d(u8);\n    impl H%d {\n        pub fn m(%s) {}\n    }\n" % (n, n, s), "H%d::m" % n)
        if k == "opaque":
            return ("    #[diplomat::opaque]\n    pub struct H%d(u8);\n    impl H%d {\n        pub fn m(self) {}\n    }\n" % (n, n), "H%d::m" % n)
        if k == "struct":
            return ("    pub struct H%d { pub a: u8 }\n    impl H%d {\n        pub fn m(self) {}\n    }\n" % (n, n), "H%d::m" % n)
        if k in ("ref", "mutref") and t["t"]["k"] == "struct":
            return ("    pub struct H%d { pub a: u8 }\n    impl H%d {\n        pub fn m(%s) {}\n    }\n" % (n, n, "&self" if k == "ref" else "&mut self"), "H%d::m" % n)
        if k in ("ref", "mutref") and t["t"]["k"] == "enum":
            return ("    pub enum H%d { A, B }\n    impl H%d {\n        pub fn m(%s) {}\n    }\n" % (n, n, "&self" if k == "ref" else "&mut self"), "H%d::m" % n)
        if k == "outstruct":
            return ("    #[diplomat::out]\n    pub struct H%d { pub a: u8 }\n    impl H%d {\n        pub fn m(self) {}\n    }\n" % (n, n), "H%d::m" % n)
        if k == "enum":
            return ("    pub enum H%d { A, B }\n    impl H%d {\n        pub fn m(self) {}\n    }\n" % (n, n), "H%d::m" % n)
    raise ValueError("cannot render %s %s" % (pos, t))


def bridge(items):
    return "#[diplomat::bridge]\nmod ffi {\n    use diplomat_runtime::{DiplomatOption, DiplomatSlice, DiplomatStrSlice, DiplomatWrite};\n" + PRELUDE + "\n".join(items) + "}\n"
