"""C16 — slice/string views round-trip; exported UTF-8 check is exact (spec/slices)."""
import json, os, subprocess
import lib


def run(rep, tier):
    wd = rep.wd
    rep.rule = ("UTF-8: every byte string of length <=3 and every 4-byte string with lead F0..F7 plus seeded near-valid "
                "mutations, spec verdict = TLC-checked automaton table executed as data; views: every TLC-enumerated "
                "make/export/null/read/write/import/drop behaviour x 13 element types (12 primitives + a 16-byte, 8-aligned view placed off its size); non-trivial = distinct behaviours "
                "containing a NULL view or a zero-length value, plus exhaustively-checked valid UTF-8 strings")
    rep.assumptions += ["Unicode Table 3-7 is the definition of valid UTF-8", "x86-64 host",
                        "debug assertions and UB checks enabled in the harness build (unsafe-precondition aborts are observed)"]
    # --- model: automaton == Table 3-7, partition of bytes, emits TABLE
    r = lib.tlc("slices", "Utf8", "utf8_quick.cfg" if tier == "quick" else "utf8.cfg", workers=8)
    lib.tlc_expect_ok(r, "Utf8 equivalence")
    rep.add_tlc("Utf8", r)
    table = r.printed["TABLE"][0]
    rn = lib.tlc("slices", "Utf8", "utf8_neg.cfg", workers=4, coverage=False)
    lib.tlc_expect_violation(rn, "Utf8 lax automaton", "EquivalentLax")
    tpath = os.path.join(wd, "utf8_table.json")
    json.dump(table, open(tpath, "w"))
    out = os.path.join(wd, "utf8_mismatch.ndjson")
    p = lib.dv(["c16-utf8", tpath, tier, str(lib.seed()), out], check=False)
    if p.returncode != 0:
        rep.violation({"leg": "utf8", "what": "harness process died"}, {"rc": p.returncode, "stderr": p.stderr[-2000:]})
    else:
        st = json.loads(p.stdout.strip().splitlines()[-1])
        rep.evaluations += st["evaluations"]
        rep.extra["utf8"] = st
        for m in lib.read_ndjson(out):
            rep.violation({"leg": "utf8", "spec": m["spec"], "impl": m["impl"]}, m)
        rep.sample({"utf8_case": {"bytes": [0xED, 0xA0, 0x80], "spec": False}})
        nontriv_utf8 = st["valid_exhaustive"]
    # --- views
    r = lib.tlc("slices", "MC_SliceView", "views.cfg" if tier == "quick" else "views_thorough.cfg", workers=8)
    lib.tlc_expect_ok(r, "SliceView")
    rep.add_tlc("SliceView", r)
    rn = lib.tlc("slices", "MC_SliceView", "views_neg.cfg", workers=4, coverage=False)
    lib.tlc_expect_violation(rn, "SliceView without NULL normalisation", "RoundTrip")
    rep.extra["negative_models_refuted"] = 2
    behs = r.printed.get("BEH", [])
    ops = set(e["op"] for b in behs for e in b)
    need = {"RustMake", "ForeignNull", "ForeignMake", "ForeignAlloc", "ForeignFree", "Export", "Import", "ReadView", "WriteView", "DropOwned", "EndBorrow"}
    if not need <= ops:
        raise lib.ToolError("SliceView behaviours never exercise %s" % (need - ops))
    inp = os.path.join(wd, "views.ndjson")
    outv = os.path.join(wd, "views_mismatch.ndjson")
    lib.write_ndjson(inp, behs)
    p = lib.dv(["c16-views", inp, outv], check=False)
    if p.returncode != 0:
        # an abort (unsafe precondition violated, double free, ...) is an observation, not a tool error
        rep.violation({"leg": "views", "what": "process aborted"},
                      {"rc": p.returncode, "stderr": p.stderr[-3000:], "note": "re-run: dv c16-views %s %s" % (inp, outv)})
    else:
        st = json.loads(p.stdout.strip().splitlines()[-1])
        rep.evaluations += st["replayed"]
        rep.traces += st["replayed"]
        for m in lib.read_ndjson(outv):
            rep.violation({"leg": "views", "op": m.get("op"), "what": m["what"], "elem": m.get("elem")}, m)
    for b in behs:
        if any(e["op"] in ("ForeignNull", "ForeignMake") or (e["op"] in ("RustMake", "ForeignAlloc") and (e["n"] == 0 or "sub" in e)) for e in b):
            rep.nontriv(b)
    rep.sample({"view_behaviour": behs[len(behs) // 2]})
    rep.extra["utf8_valid_strings_checked"] = rep.extra.get("utf8", {}).get("valid_exhaustive", 0)
    rep.exhaustive = True
