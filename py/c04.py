"""C04 — borrow edges keep alive everything a returned value may borrow from (spec/life)."""
import json, os, random, re
import lib, profiles, observe

PRELUDE = """    #[diplomat::opaque]
    pub struct Opq(u8);
    #[diplomat::opaque]
    pub struct OpLt<'p>(&'p u8);
    pub struct St1<'p> { pub f: &'p Opq }
    pub struct St2<'p, 'q> { pub f: &'p Opq, pub g: &'q Opq }
    pub struct St2b<'p, 'q: 'p> { pub f: &'p Opq, pub g: &'q Opq }
    pub struct St2w<'p, 'q> where 'q: 'p { pub f: &'p Opq, pub g: &'q Opq }
    pub struct Nst2<'p, 'q> { pub a: St1<'p>, pub b: St2<'q, 'q> }
    pub struct StV<'p, 'q> { pub f: &'p OpLt<'q>, pub s: DiplomatSlice<'q, u8> }
    pub struct StVo<'p, 'q> { pub f: Option<&'p OpLt<'q>>, pub s: DiplomatSlice<'q, u8> }
    #[diplomat::attr(auto, error)]
    pub struct Er1<'p> { pub f: &'p Opq }
    #[diplomat::attr(not(supports = option), disable)]
    pub struct StO<'p, 'q> { pub f: &'p Opq, pub s: DiplomatSlice<'p, u8>, pub o: DiplomatOption<DiplomatStrSlice<'q>>, pub w: DiplomatOption<DiplomatSlice<'p, u16>>, pub n: DiplomatOption<u8> }
"""
ALLFEATURES = {"name": "verif", "other": [], "supports": profiles.FEATURES}


def lt(l):
    return "'static" if l == "static" else ("'_" if l == "anon" else "'" + l)


def amp(l):
    return "&" if l == "anon" else "&%s " % lt(l)


def pty(p):
    k, s = p["kind"], p["slots"]
    return {"opq": lambda: amp(s[0]) + "Opq", "optopq": lambda: "Option<%sOpq>" % amp(s[0]),
            "slice": lambda: amp(s[0]) + "[u8]", "opqlt": lambda: "%sOpLt<%s>" % (amp(s[0]), lt(s[1])),
            "st1": lambda: "St1<%s>" % lt(s[0]), "st2": lambda: "St2<%s, %s>" % (lt(s[0]), lt(s[1])),
            "st2b": lambda: "St2b<%s, %s>" % (lt(s[0]), lt(s[1])),
            "st2w": lambda: "St2w<%s, %s>" % (lt(s[0]), lt(s[1])),
            "nst2": lambda: "Nst2<%s, %s>" % (lt(s[0]), lt(s[1])),
            "stv": lambda: "StV<%s, %s>" % (lt(s[0]), lt(s[1])),
            "stvo": lambda: "StVo<%s, %s>" % (lt(s[0]), lt(s[1])),
            "pself": lambda: amp(s[0]) + "Self"}[k]()


def rty(r):
    k, s = r["kind"], r["slots"]
    return {"ropq": lambda: amp(s[0]) + "Opq", "roptopq": lambda: "Option<%sOpq>" % amp(s[0]),
            "rslice": lambda: amp(s[0]) + "str", "rbox": lambda: "Box<OpLt<%s>>" % lt(s[0]),
            "rst1": lambda: "St1<%s>" % lt(s[0]), "rst2": lambda: "St2<%s, %s>" % (lt(s[0]), lt(s[1])),
            "ropqlt": lambda: "%sOpLt<%s>" % (amp(s[0]), lt(s[1])),
            "ropqlt_e": lambda: "&OpLt<%s>" % lt(s[0]), "roptlt_e": lambda: "Option<&OpLt<%s>>" % lt(s[0]),
            "rokerr_e": lambda: "Result<&Opq, Er1<%s>>" % lt(s[0]),
            "rost1_e": lambda: "Result<Option<St1>, ()>", "reost1_e": lambda: "Result<(), Option<St1>>",
            "rerr1": lambda: "Result<(), Er1<%s>>" % lt(s[0]), "rwerr1": lambda: "Result<(), Er1<%s>>" % lt(s[0]),
            "rokerr": lambda: "Result<%sOpq, Er1<%s>>" % (amp(s[0]), lt(s[1]))}[k]()


def generics(L, decl):
    parts = []
    for l in L:
        bs = sorted(b for a, b in decl if a == l)
        parts.append("'%s%s" % (l, (": " + " + ".join("'" + b for b in bs)) if bs else ""))
    return "<%s>" % ", ".join(parts) if parts else ""


def generics_where(L, decl):
    """the same bounds written in a `where` clause: (generic list, where clause)"""
    ws = []
    for l in L:
        bs = sorted(b for a, b in decl if a == l)
        if bs:
            ws.append("'%s: %s" % (l, " + ".join("'" + b for b in bs)))
    return ("<%s>" % ", ".join("'" + l for l in L) if L else ""), ((" where " + ", ".join(ws)) if ws else "")


def render(n, sig, L):
    decl = [tuple(x) for x in sig["decl"]]
    # where the declared bounds are WRITTEN does not matter: inline on the generic list (even n) or in a where clause (odd n) -- for
    # methods of the borrowing Self type that is a where clause on a method without a generic list of its own
    inline = (n % 2 == 0)
    ps = ", ".join(["%s: %s" % ("xy"[i], pty(p)) for i, p in enumerate(sig["params"])] +
                   (["w: &mut DiplomatWrite"] if sig["ret"]["kind"] == "rwerr1" else []))
    sk = sig["self"]["kind"]
    if sk == "sf2b":
        sl = sig["self"]["slots"][0]
        g, w = (generics(L, decl), "") if inline else generics_where(L, decl)
        return ("    #[diplomat::opaque]\n    pub struct H%d<'p, 'q: 'p>(&'p u8, &'q u8);\n    impl%s H%d<'a, 'b> {\n"
                "        pub fn m(%sself, %s) -> %s%s { todo!() }\n    }\n" % (n, g, n, amp(sl), ps, rty(sig["ret"]), w))
    selfs = "" if sk == "none" else amp(sig["self"]["slots"][0]) + "self, "
    g, w = (generics(L, decl), "") if inline else generics_where(L, decl)
    return ("    #[diplomat::opaque]\n    pub struct H%d(u8);\n    impl H%d {\n        pub fn m%s(%s%s) -> %s%s { todo!() }\n    }\n"
            % (n, n, g, selfs, ps, rty(sig["ret"]), w))


def render_ctor(n, sig, L):
    """The same signature as a Python CONSTRUCTOR of a borrowing opaque: fn m(n0: u8, x, y) -> Box<Self<'s>>.  nanobind ties the
    borrowed arguments to the new object (nurse 1 = self) and numbers the arguments after it from 2."""
    decl = [tuple(x) for x in sig["decl"]]
    ps = ", ".join(["n0: u8"] + ["%s: %s" % ("xy"[i], pty(p)) for i, p in enumerate(sig["params"])])
    s = lt(sig["ret"]["slots"][0])
    return ("    #[diplomat::opaque]\n    pub struct H%d<'p>(&'p u8);\n    impl%s H%d<%s> {\n"
            "        #[diplomat::attr(nanobind, constructor)]\n        pub fn m(%s) -> Box<H%d<%s>> { todo!() }\n    }\n"
            % (n, generics(L, decl), n, s, ps, n, s))


def module(items):
    return "#[diplomat::bridge]\nmod ffi {\n    use diplomat_runtime::{DiplomatOption, DiplomatSlice, DiplomatStrSlice, DiplomatWrite};\n" + PRELUDE + "\n".join(items) + "}\n"


def run_edges(wd, batches, tag):
    inp = os.path.join(wd, "edges_%s.ndjson" % tag)
    out = os.path.join(wd, "edges_%s.out.ndjson" % tag)
    lib.write_ndjson(inp, [{"id": i, "src": module([it for _, it in b]), "profile": ALLFEATURES} for i, b in enumerate(batches)])
    lib.dv(["c04-edges", inp, out])
    return lib.read_ndjson(out)


def norm(es):
    return sorted(tuple(e) for e in es)


def expected_edges(c):
    return {r: norm([[e["param"], e["kind"], e["def"]] for e in es]) for r, es in c["edges"].items()}


def evaluate(rep, cases, L, wd):
    """Replay all cases. accepted ones in batches (iterating to isolate), rejected ones in isolation-sized batches."""
    items = [(n, render(n, c["sig"], L)) for n, c in enumerate(cases)]
    acc = [x for x in items if cases[x[0]]["accepted"]]
    rej = [x for x in items if not cases[x[0]]["accepted"]]
    B = 120
    batches = [acc[i:i + B] for i in range(0, len(acc), B)]
    res = run_edges(wd, batches, "acc")
    suspects = []
    for b, r in zip(batches, res):
        if not r["ok"]:
            suspects += b          # something in the batch was rejected or panicked: isolate
            continue
        for n, it in b:
            got = r["methods"].get("H%d" % n)
            if got is None or "panic" in got:
                suspects.append((n, it))
                continue
            if {k: norm(v) for k, v in got.items()} != expected_edges(cases[n]):
                suspects.append((n, it))
    # isolation of every suspect before anything is reported
    iso = run_edges(wd, [[s] for s in suspects], "iso")
    for (n, it), r in zip(suspects, iso):
        c = cases[n]
        key = {"self": c["sig"]["self"]["kind"], "params": [p["kind"] for p in c["sig"]["params"]], "ret": c["sig"]["ret"]["kind"]}
        if r["panic"] or not r["ok"]:
            rep.violation(dict(key, what="accepted signature rejected or lowering panicked"),
                          {"sig": c["sig"], "rust": it, "errors": r["errors"], "panic": r["panic"]})
            continue
        got = r["methods"].get("H%d" % n)
        if "panic" in got:
            rep.violation(dict(key, what="borrow analysis panicked"), {"sig": c["sig"], "rust": it, "panic": got["panic"]})
        elif {k: norm(v) for k, v in got.items()} != expected_edges(c):
            exp = expected_edges(c)
            missing = {k: [e for e in v if e not in norm(got.get(k, []))] for k, v in exp.items()}
            missing = {k: v for k, v in missing.items() if v}
            rep.violation(dict(key, what="edges differ", missing_edge=bool(missing)),
                          {"sig": c["sig"], "rust": it, "expected": exp, "observed": got, "missing": missing})
    # rejected-by-spec signatures must fail lowering with the method as context
    rb = [[x] for x in rej]
    rr = run_edges(wd, rb, "rej") if rb else []
    for (n, it), r in zip(rej, rr):
        c = cases[n]
        key = {"self": c["sig"]["self"]["kind"], "params": [p["kind"] for p in c["sig"]["params"]], "ret": c["sig"]["ret"]["kind"]}
        if r["ok"]:
            rep.violation(dict(key, what=("return type with an elided lifetime accepted" if c["sig"]["ret"]["kind"].endswith("_e")
                                          else "signature with an unstated implied bound accepted"), missing=c["missing"]),
                          {"sig": c["sig"], "rust": it, "edges_reported": r["methods"].get("H%d" % n)})
        elif not r["panic"] and not any(ctx == "H%d::m" % n for ctx, _ in r["errors"]):
            rep.violation(dict(key, what="error context"), {"sig": c["sig"], "errors": r["errors"]})
    return len(items)


def backend_emission(rep, cases, L, wd, k):
    """The GC'd backends attach at least MustKeep to the returned object: parse the edge arrays /
    keep_alive policies in generated js/dart/kotlin/nanobind code (union over output lifetimes)."""
    rng = random.Random(lib.seed())
    def usable(c):
        s = c["sig"]
        slots = [x for p in s["params"] for x in p["slots"]] + list(s["ret"]["slots"]) + list(s["self"]["slots"])
        return c["accepted"] and any(c["edges"].values()) and "static" not in slots
    pool = [c for c in cases if usable(c)]
    rng.shuffle(pool)
    pick = pool[:k]
    # constructors: static methods returning a boxed borrowing opaque, re-rendered as constructors of that opaque
    ctors = [c for c in pool if c["sig"]["self"]["kind"] == "none" and c["sig"]["ret"]["kind"] == "rbox"
             and c["sig"]["ret"]["slots"][0] in L][:max(6, k // 6)]
    nplain = len(pick)
    pick = pick + ctors
    items = [render(n, c["sig"], L) if n < nplain else render_ctor(n, c["sig"], L) for n, c in enumerate(pick)]
    rep.extra["emission_constructors"] = len(ctors)
    src = os.path.join(wd, "emit.rs")
    open(src, "w").write(module(items))
    nchecked = 0
    for b in ("js", "dart", "kotlin", "nanobind"):
        out = os.path.join(wd, "emit_" + b)
        r = lib.run_tool(b, src, out)
        if r["rc"] != 0:
            rep.violation({"leg": "emission", "backend": b, "what": "backend failed on accepted signatures"},
                          {"stderr": r["stderr"][-1500:], "source": src})
            continue
        for n, c in enumerate(pick):
            if b in ("kotlin", "nanobind") and c["sig"]["ret"]["kind"] == "rslice":
                continue    # a returned &str is copied into a host string there: nothing is borrowed
            want = set()
            for es in expected_edges(c).values():
                want |= set(e[0] for e in es)
            got = emitted_params(b, out, "H%d" % n, c["sig"], ctor=(n >= nplain))
            if got is None:
                rep.extra.setdefault("emission_unparsed", 0)
                rep.extra["emission_unparsed"] += 1
                continue
            nchecked += 1
            if b == "js":
                # a struct argument is told, per lifetime of its DEFINITION, into which edge arrays the buffers of its slice fields go
                # (`{pAppendArray: [aEdges], qAppendArray: [aEdges]}`): every output lifetime the definition lifetime flows into
                need = {}
                for r_, es in expected_edges(c).items():
                    for e in es:
                        if e[1] == "struct":
                            need.setdefault((e[0], e[2]), set()).add(r_)
                if need:
                    t_ = open(os.path.join(out, "H%d.mjs" % n)).read()
                    for (pn, d), rs in sorted(need.items()):
                        mm = re.search(r'_fromSuppliedValue\(diplomatRuntime\.internalConstructor, %s\)\._intoFFI\(functionCleanupArena, \{([^}]*)\}' % pn, t_)
                        arrays = dict(re.findall(r'(\w)AppendArray: \[([^\]]*)\]', mm.group(1))) if mm else {}
                        have = set(re.findall(r'(\w+)Edges', arrays.get(d, "")))
                        if not rs <= have:
                            rep.violation({"leg": "emission", "backend": "js", "what": "append array of a struct argument misses an edge array",
                                           "param_kind": [p_["kind"] for p_ in c["sig"]["params"]], "ret": c["sig"]["ret"]["kind"]},
                                          {"sig": c["sig"], "rust": items[n], "parameter": pn, "definition_lifetime": d,
                                           "expected_edge_arrays": sorted(rs), "emitted": arrays})
            if b == "kotlin" and c["sig"]["ret"]["kind"] in ("rst1", "rst2"):
                # the returned struct's constructor takes one edge list per lifetime of its DEFINITION, in that order: the i-th list
                # is the one of the lifetime written in the i-th slot of the return type
                kt_ = [os.path.join(r_, f_) for r_, _, fs_ in os.walk(out) for f_ in fs_ if f_ == "H%d.kt" % n]
                mm = re.search(r'val returnStruct = \w+\(returnVal((?:, \w+)*)\)', open(kt_[0]).read()) if kt_ else None
                if mm:
                    passed = [x.strip() for x in mm.group(1).split(",") if x.strip()]
                    slots_ = [x for x in c["sig"]["ret"]["slots"]]
                    want_order = [x + "Edges" for x in slots_ if x not in ("static",)]
                    if "static" not in slots_ and passed != want_order:
                        rep.violation({"leg": "emission", "backend": "kotlin", "what": "edge lists passed to the returned struct in another order than its definition's lifetimes",
                                       "ret": c["sig"]["ret"]["kind"]},
                                      {"sig": c["sig"], "rust": items[n], "expected_arguments": want_order, "emitted": passed})
            miss = want - got
            if miss:
                rep.violation({"leg": "emission", "backend": b, "what": "edge not attached", "ret": c["sig"]["ret"]["kind"],
                               "param_kind": [p["kind"] for p in c["sig"]["params"]], "missing_self": "self" in miss},
                              {"sig": c["sig"], "rust": items[n], "expected_params": sorted(want), "emitted": sorted(got)})
    return nchecked


STRUCT_OF_KIND = {"st1": "St1", "st2": "St2", "st2b": "St2b", "st2w": "St2w", "nst2": "Nst2", "stv": "StV", "stvo": "StVo", "sto": "StO"}


def struct_buffers(rep, wd, buffers):
    """BuffersFor of Lifetimes.tla: the native copy of a slice/string field (optional or not) whose type mentions definition lifetime l
    must be made in an arena chosen through l's append array -- never unconditionally in the call's temporary arena.  Dart
    (`_toFfi`) and JS with the spec ABI (`_writeToArrayBuffer`; the legacy path puts slices into no arena at all, see ./extra jscall)."""
    src = os.path.join(wd, "buffers.rs")
    use = "".join("        pub fn u_%s<'a, 'b: 'a>(x: %s) {}\n" % (k, "%s<%s>" % (n, "'a" if k == "st1" else "'a, 'b")) for k, n in STRUCT_OF_KIND.items())
    open(src, "w").write(module(["    #[diplomat::opaque]\n    pub struct User(u8);\n    impl User {\n%s    }\n" % use]))
    n = 0
    for b, cfg in (("dart", None), ("js", ["js.abi=spec"])):
        out = os.path.join(wd, "buffers_" + b)
        r = lib.run_tool(b, src, out, config=cfg)
        if r["rc"] != 0:
            rep.violation({"leg": "buffers", "backend": b, "what": "backend failed on the prelude structs"}, {"stderr": r["stderr"][-1200:]})
            continue
        for k, name in STRUCT_OF_KIND.items():
            t = open(os.path.join(out, name + (".mjs" if b == "js" else ".g.dart"))).read()
            for l in ("p", "q"):
                for f in buffers[k][l]:
                    if b == "dart":
                        m = re.search(r'\n    struct\.%s = ([^\n]*)' % f, t)
                        ok = bool(m) and ("%sAppendArray" % l) in m.group(1) and "AllocIn(" in m.group(1)
                    else:
                        body = re.search(r'\n    _writeToArrayBuffer\((.*?)\n    \}\n', t, re.S)
                        line = next((x for x in (body.group(1).split("\n") if body else []) if ("this.#%s" % f) in x), "")
                        m = re.search(r'.+', line)
                        ok = ("appendArrayMap['%sAppendArray']" % l) in line and ".alloc(" in line
                    n += 1
                    if not ok:
                        rep.violation({"leg": "buffers", "backend": b, "struct": name, "field": f, "lifetime": l,
                                       "what": "the native copy of a borrowed buffer field is not tied to its lifetime's arena"},
                                      {"statement": (m.group(0)[:400] if m else None)})
    return n


def struct_getters(rep, wd, getters, nested=None):
    """JS and Dart turn a struct into a host object with one `_fieldsForLifetime<X>` getter per definition lifetime; the getter
    must list every field whose type mentions that lifetime (FieldsFor in Lifetimes.tla).  Checked on the prelude structs."""
    src = os.path.join(wd, "getters.rs")
    use = "".join("        pub fn u_%s<'a, 'b: 'a>(x: %s) {}\n" % (k, "%s<%s>" % (n, "'a" if k == "st1" else "'a, 'b")) for k, n in STRUCT_OF_KIND.items())
    open(src, "w").write(module(["    #[diplomat::opaque]\n    pub struct User(u8);\n    impl User {\n%s    }\n" % use]))
    n = 0
    for b in ("js", "dart"):
        out = os.path.join(wd, "getters_" + b)
        r = lib.run_tool(b, src, out)
        if r["rc"] != 0:
            rep.violation({"leg": "getters", "backend": b, "what": "backend failed on the prelude structs"}, {"stderr": r["stderr"][-1200:]})
            continue
        for k, name in STRUCT_OF_KIND.items():
            path = os.path.join(out, name + (".mjs" if b == "js" else ".g.dart"))
            t = open(path).read()
            for l in ("p", "q"):
                want = set(getters[k][l])
                if b == "js":
                    m = re.search(r'get _fieldsForLifetime%s\(\)\s*\{\s*return \[(.*?)\];' % l.upper(), t, re.S)
                else:
                    m = re.search(r'get _fieldsForLifetime%s => \[(.*?)\];' % l.upper(), t, re.S)
                if not m:
                    if want:
                        rep.violation({"leg": "getters", "backend": b, "struct": name, "lifetime": l, "what": "no getter for a lifetime that fields mention"},
                                      {"expected_fields": sorted(want), "file": path})
                    continue
                got = set(re.findall(r'(?:this\.#?|\.\.\.(?:this\.#?)?|^|[\s,\[])([a-z]\w*)(?:\._fieldsForLifetime\w+)?(?=[,\]\s]|$)', m.group(1)))
                got = {x for x in got if x in {f for ll in getters[k].values() for f in ll} or x in want}
                n += 1
                if not want <= got:
                    rep.violation({"leg": "getters", "backend": b, "struct": name, "lifetime": l, "what": "field missing from the lifetime's keep-alive list"},
                                  {"expected_fields": sorted(want), "listed": sorted(got), "getter": m.group(0)[:300]})
                # a field that is itself a borrowing struct contributes what IT keeps alive for the linked definition lifetimes
                for fd in (nested or {}).get(k, {}).get(l, []):
                    f_, d_ = fd[0], fd[1]
                    if not re.search(r'\b%s\._fieldsForLifetime%s\b' % (f_, d_.upper()), m.group(1)):
                        rep.violation({"leg": "getters", "backend": b, "struct": name, "lifetime": l, "what": "nested struct's keep-alive list not forwarded"},
                                      {"nested_field": f_, "nested_lifetime": d_, "getter": m.group(0)[:300]})
    return n


def dart_slice_views(rep, wd):
    """A borrowed primitive slice comes back to Dart as a typed-list VIEW into Rust memory: the helper that builds the view has to
    attach the lifetime edges it was given to it, for every element type (a copy -- bool, usize, isize, strings -- needs nothing)."""
    elems = ["u8", "i8", "u16", "i16", "u32", "i32", "u64", "i64", "f32", "f64", "usize", "isize", "bool", "DiplomatChar"]
    src = os.path.join(wd, "sliceviews.rs")
    ms = "".join("        pub fn s%d<'a>(&'a self) -> &'a [%s] { todo!() }\n" % (i, e) for i, e in enumerate(elems))
    open(src, "w").write("#[diplomat::bridge]\nmod ffi {\n    use diplomat_runtime::DiplomatChar;\n    #[diplomat::opaque]\n    pub struct Buf(u8);\n    impl Buf {\n%s    }\n}\n" % ms)
    out = os.path.join(wd, "sliceviews_dart")
    r = lib.run_tool("dart", src, out)
    if r["rc"] != 0:
        rep.violation({"leg": "slice-views", "backend": "dart", "what": "backend failed on slice returns"}, {"stderr": r["stderr"][-800:]})
        return 0
    text = open(os.path.join(out, "lib.g.dart")).read()
    n = 0
    for m in re.finditer(r'final class (_Slice\w+) extends ffi\.Struct \{(.*?)\n\}\n', text, re.S):
        name, body = m.group(1), m.group(2)
        td = re.search(r' _toDart\(core\.List<Object> lifetimeEdges[^)]*\) \{(.*?)\n  \}', body, re.S)
        if not td:
            continue
        n += 1
        view = "asTypedList(" in td.group(1)
        if view and "_nopFree.attach(r, lifetimeEdges)" not in td.group(1):
            rep.violation({"leg": "slice-views", "backend": "dart", "what": "a view into Rust memory is returned without its lifetime edges", "helper": name},
                          {"body": td.group(1).strip()[:600]})
        rep.nontriv("dart slice view " + name)
    if n < 8:
        raise lib.ToolError("slice-views leg: only %d Dart slice helpers with a _toDart found" % n)
    rep.extra["dart_slice_helpers_checked"] = n
    return n


def _names(tokens, sig):
    """map identifiers found in an edge array back to parameter names"""
    got = set()
    for p in ["x", "y"][:len(sig["params"])]:
        if any(t == p or t in (p + "Slice", p + "Arena", p + "Mem") for t in tokens):
            got.add(p)
    if "this" in tokens or "self" in tokens:
        got.add("self")
    return got


def emitted_params(b, out, tname, sig, ctor=False):
    try:
        if b == "js":
            t = open(os.path.join(out, tname + ".mjs")).read()
            body = re.search(r'\n    (?:static )?m\((.*?)\n    \}\n', t, re.S).group(0)
            toks = set()
            for arr in re.findall(r'let \w+Edges = \[(.*?)\];', body):
                toks |= set(re.findall(r'[A-Za-z_]\w*', arr))
            return _names(toks, sig)
        if b == "dart":
            t = open(os.path.join(out, tname + ".g.dart")).read()
            body = re.search(r'\n  \S[^\n]* m\((.*?)\n  \}\n', t, re.S).group(0)
            toks = set()
            for arr in re.findall(r'core\.List<Object> \w+Edges = \[(.*?)\];', body):
                toks |= set(re.findall(r'[A-Za-z_]\w*', arr))
            return _names(toks, sig)
        if b == "kotlin":
            kt = [os.path.join(r, f) for r, _, fs in os.walk(out) for f in fs if f == tname + ".kt"][0]
            t = open(kt).read()
            body = re.search(r'fun m\((.*?)\n    \}\n', t, re.S).group(0)
            toks = set()
            for arr in re.findall(r'val \w+Edges: List<Any\??> = ([^\n]*)', body):
                toks |= set(re.findall(r'[A-Za-z_]\w*', arr))
            return _names(toks, sig)
        if b == "nanobind":
            t = open(os.path.join(out, "somelib_ext.cpp")).read()
            if ctor:
                # .def(nb::new_(&H::m), "n0"_a, "x"_a, ..., nb::keep_alive<1, N>()): nurse 1 is the new object, argument i is N = i + 2
                mm = re.search(r'\.def\(nb::new_\(&%s::m\)([^\n]*)' % tname, t)
                idx = [int(x) for x in re.findall(r'nb::keep_alive<1, (\d+)>', mm.group(1))]
                order = ["n0", "x", "y"][:1 + len(sig["params"])]
                return set(order[i - 2] for i in idx if 2 <= i <= len(order) + 1)
            mm = re.search(r'\.def(?:_static)?\("m", &%s::m([^\n]*)' % tname, t)
            idx = [int(x) for x in re.findall(r'nb::keep_alive<0, (\d+)>', mm.group(1))]
            order = (["self"] if sig["self"]["kind"] != "none" else []) + ["x", "y"][:len(sig["params"])]
            return set(order[i - 1] for i in idx if 1 <= i <= len(order))
    except Exception:
        return None
    return None


def fix(cases):
    for c in cases:
        if isinstance(c["edges"], list):      # ToJson prints the empty function as []
            c["edges"] = {}
    return cases


def run(rep, tier):
    wd = rep.wd
    L = ["a", "b"]
    rep.rule = ("signatures = every method over L={a,b} with any declared-bound graph, self in {none,&self,&self of Sf<'a,'b: 'a>}, "
                "1 parameter of 8 kinds (incl. a struct nesting borrowing structs) with slots over L+{'static,'_}, 7 return kinds (quick: full "
                "enumeration by TLC, seeded subset replayed, plus every 3-lifetime bound graph over &self + 1..2 &Opaque parameters; thorough: all "
                "replayed + 2-parameter, 3-lifetime and 4-lifetime samples); expected edge list per output "
                "lifetime from MustKeep; non-trivial = distinct signatures with a non-empty expected edge set or expected rejection")
    rep.assumptions += ["a parameter whose only qualifying lifetime is 'static is never required (nor forbidden) as an edge",
                        "Rust's outlives rules as transcribed: declared bounds, &'x T<'y> => 'y: 'x, definition-site bounds of used types incl. Self"]
    # model: GC safety of Edges = MustKeep, minimality via negative model
    g = lib.tlc("life", "MC_Lifetimes", "gc_small.cfg" if tier == "quick" else "gc_quick.cfg", workers=12, heap="14g")
    lib.tlc_expect_ok(g, "GcSafety")
    rep.add_tlc("Lifetimes/gc", g)
    gn = lib.tlc("life", "MC_Lifetimes", "gc_neg.cfg", workers=8, coverage=False)
    lib.tlc_expect_violation(gn, "GcSafety minus one edge", "NoUseAfterFree")
    rep.extra["negative_models_refuted"] = 1
    rep.extra["tlaps"] = {"module": "spec/life/LifetimesProof.tla",
                          "theorem": "Spec => []NoUseAfterFree for any lifetime set, signature and schedule of host drops and collections",
                          "obligations_proved": lib.tlaps("life", "LifetimesProof")}
    e = lib.tlc("life", "MC_Lifetimes", "emit_quick.cfg", workers=2, coverage=False, heap="8g")
    lib.tlc_expect_ok(e, "signature emission")
    rep.add_tlc("Lifetimes/emit", e)
    cases = fix(e.printed["CASE"])
    rng = random.Random(lib.seed())
    if tier == "quick":
        interesting = [c for c in cases if (not c["accepted"]) or any(c["edges"].values())]
        rest = [c for c in cases if c["accepted"] and not any(c["edges"].values())]
        rng.shuffle(interesting)
        rng.shuffle(rest)
        cases_r = interesting[:9000] + rest[:1500]
    else:
        cases_r = cases
    n = evaluate(rep, cases_r, L, wd)
    rep.evaluations += n
    rep.traces += n
    for c in cases_r:
        if (not c["accepted"]) or any(c["edges"].values()):
            rep.nontriv(c["sig"])
    rep.sample({"sig": cases_r[0]["sig"], "rust": render(0, cases_r[0]["sig"], L), "expected_edges": cases_r[0]["edges"],
                "accepted": cases_r[0]["accepted"]})
    # three lifetimes: outlives graphs with cycles, redundant bounds and diamonds (the worklist of
    # all_longer_lifetimes meets a lifetime twice only from three lifetimes on)
    for cfg, LL in ((("emit_3l_quick.cfg", ["a", "b", "c"]),) if tier == "quick" else
                    (("emit_3l_quick.cfg", ["a", "b", "c"]), ("emit_2p.cfg", ["a", "b"]), ("emit_3l.cfg", ["a", "b", "c"]),
                     ("emit_4l.cfg", ["a", "b", "c", "d"]))):
        if True:
            e2 = lib.tlc("life", "MC_Lifetimes", cfg, workers=2, coverage=False, heap="8g")
            lib.tlc_expect_ok(e2, cfg)
            rep.add_tlc("Lifetimes/" + cfg, e2)
            c2 = fix(e2.printed["CASE"])
            rng.shuffle(c2)
            c2 = c2[:40000]
            n2 = evaluate(rep, c2, LL, wd)
            rep.evaluations += n2
            rep.traces += n2
            for c in c2:
                if (not c["accepted"]) or any(c["edges"].values()):
                    rep.nontriv(c["sig"])
    k = backend_emission(rep, cases, L, wd, 60 if tier == "quick" else 400)
    k += dart_slice_views(rep, wd)
    rep.extra["backend_emission_checked"] = k
    gt = lib.tlc("life", "MC_Lifetimes", "getters.cfg", workers=1, coverage=False)
    lib.tlc_expect_ok(gt, "struct field/lifetime table")
    rep.extra["struct_getters_checked"] = struct_getters(rep, wd, gt.printed["GETTERS"][0], gt.printed["NESTED"][0])
    rep.extra["struct_buffer_fields_checked"] = struct_buffers(rep, wd, gt.printed["BUFFERS"][0])
    rep.exhaustive = (tier == "thorough")
