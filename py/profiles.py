"""Backend feature profiles, probed black-box through the real diplomat-tool binary.

For every feature F a probe type is declared that is *disabled unless the backend supports F* and that
contains a method the lowering gate rejects (an opaque passed by value).  The tool's stderr then contains
`Lowering error in Probe_F::bad` iff the backend claims `supports = F`.  Nothing is copied from the
backends' attr_support() functions.
"""
import json, os, re
import lib

FEATURES = ["namespacing", "memory_sharing", "non_exhaustive_structs", "method_overloading", "utf8_strings",
            "utf16_strings", "static_slices", "constructors", "named_constructors", "fallible_constructors",
            "accessors", "static_accessors", "stringifiers", "comparators", "iterators", "iterables", "indexing",
            "arithmetic", "option", "callbacks", "traits", "custom_errors", "traits_are_send", "traits_are_sync"]
NAMES = {b: ([b] if b != "demo_gen" else ["demo_gen", "js"]) for b in lib.BACKENDS}
# the name set is probed as well (a probe type disabled unless the backend answers to the name)
ALLNAMES = ["c", "cpp", "js", "dart", "kotlin", "nanobind", "demo_gen", "tests"]

_cache = None


def probe_source():
    items = ["    #[diplomat::opaque]\n    pub struct Victim(u8);\n"]
    for f in FEATURES:
        items.append("    #[diplomat::attr(not(supports = %s), disable)]\n    #[diplomat::opaque]\n    pub struct ProbeF_%s(u8);\n"
                     "    impl ProbeF_%s {\n        pub fn bad(v: Victim) {}\n    }\n" % (f, f, f))
    for n in ALLNAMES:
        ident = n.replace("-", "_")
        items.append("    #[diplomat::attr(not(%s), disable)]\n    #[diplomat::opaque]\n    pub struct ProbeN_%s(u8);\n"
                     "    impl ProbeN_%s {\n        pub fn bad(v: Victim) {}\n    }\n" % (n if "-" not in n else '"%s"' % n, ident, ident))
    return "#[diplomat::bridge]\nmod ffi {\n" + "\n".join(items) + "}\n"


def profiles():
    """{backend: {"name":..., "other":[...], "supports":[...]}} measured on the current tree."""
    global _cache
    if _cache is not None:
        return _cache
    wd = lib.ensure(os.path.join(lib.WORK, "profiles"))
    src = os.path.join(wd, "lib.rs")
    text = probe_source()
    # py-nanobind is not an identifier; if the attribute parser cannot take it quoted, drop that probe
    open(src, "w").write(text)
    res = {}
    for b in lib.BACKENDS:
        r = lib.run_tool(b, src, os.path.join(wd, "out_" + b))
        if r["panicked"] or r["rc"] == 0:
            raise lib.ToolError("profile probe behaved unexpectedly for %s: rc=%s\n%s" % (b, r["rc"], r["stderr"][-1500:]))
        ctxs = set(c for c, _ in r["lowering_errors"])
        sup = [f for f in FEATURES if "ProbeF_%s::bad" % f in ctxs]
        names = [n for n in ALLNAMES if "ProbeN_%s::bad" % n.replace("-", "_") in ctxs]
        if b not in names:
            raise lib.ToolError("backend %s does not answer to its own name: %s" % (b, names))
        res[b] = {"name": b, "other": [n for n in names if n != b], "supports": sup}
    _cache = res
    json.dump(res, open(os.path.join(wd, "profiles.json"), "w"), indent=1)
    return res
