"""C++ driver generation for C02: the same catalogue and value vectors as C01, driven through the generated C++ class API."""
import json
from callgen import W, CTY, ENUM_VALS
from abisig import fname

CPP_SUPPORT = r'''
#include <cstdio>
#include <cstdlib>
#include <cstring>
#include <cstdarg>
#include <cstdint>
#include <string>
#include <string_view>
#include <optional>
#include <memory>
#include <variant>
#include <vector>
#include <functional>
extern "C" uint8_t* diplomat_alloc(size_t size, size_t align);
static char lb_[1 << 16];
static size_t ln_;
static unsigned long seq_;
static void LB() { static bool init_ = (setvbuf(stdout, nullptr, _IOLBF, 0), true); (void)init_; ln_ = 0; lb_[0] = 0; }
static void L(const char* fmt, ...) { va_list ap; va_start(ap, fmt); ln_ += (size_t)vsnprintf(lb_ + ln_, sizeof lb_ - ln_, fmt, ap); va_end(ap); }
extern "C" void dv_log(const char* kind, const char* f, const char* v) { printf("{\"seq\":%lu,\"ev\":\"%s\",\"f\":\"%s\",\"v\":\"%s\"}\n", ++seq_, kind, f, v); }
static void LE(const char* kind, const char* f) { dv_log(kind, f, lb_); }
static void LEC(const char* f, const char* cbs, bool mr) { printf("{\"seq\":%lu,\"ev\":\"CCall\",\"f\":\"%s\",\"v\":\"%s\",\"cbs\":%s%s}\n", ++seq_, f, lb_, cbs, mr ? ",\"mr\":true" : ""); }
// lives inside the callable handed to the binding: logs when the last copy of the callable is destroyed
struct DropLog { const char* f; ~DropLog() { LB(); LE("CbDrop", f); } };
static void LEM(const char* f) { printf("{\"seq\":%lu,\"ev\":\"CCall\",\"f\":\"%s\",\"v\":\"%s\",\"mr\":true}\n", ++seq_, f, lb_); }
static float f32b(uint32_t b) { float f; memcpy(&f, &b, 4); return f; }
static double f64b(uint64_t b) { double f; memcpy(&f, &b, 8); return f; }
static uint32_t bf32(float f) { uint32_t b; memcpy(&b, &f, 4); return b; }
static uint64_t bf64(double f) { uint64_t b; memcpy(&b, &f, 8); return b; }
static unsigned bbool(bool v) { uint8_t b; memcpy(&b, &v, 1); return b; }
'''


class CppGen:
    def __init__(self, defs):
        self.defs = defs["structs"]
        self.tmp = 0

    def cty(self, t):
        k = t["k"]
        if k == "prim":
            return CTY[t["p"]]
        if k == "enum":
            return "En"
        if k == "struct":
            return t["n"]
        if k == "unit":
            return "void"
        if k == "str":
            return "std::string_view" if t["enc"] in ("utf8", "u8") else "std::u16string_view"
        if k == "slice":
            return "diplomat::span<%s%s>" % ("const " if t["m"] == "imm" else "", CTY[t["e"]])
        raise ValueError(k)

    def prim_lit(self, p, bits):
        if p == "f32":
            return "f32b(0x%xu)" % bits
        if p == "f64":
            return "f64b(0x%xull)" % bits
        if p == "bool":
            return "true" if bits else "false"
        return "static_cast<%s>(0x%xull)" % (CTY[p], bits)

    def make(self, t, v, pre):
        """C++ expression for abstract value v; statements needed beforehand are appended to pre"""
        k = t["k"]
        if k == "prim":
            return self.prim_lit(t["p"], v)
        if k == "enum":
            return "En(En::%s)" % v
        if k == "struct":
            return "%s{%s}" % (t["n"], ", ".join(self.make(f, x, pre) for f, x in zip(self.defs[t["n"]], v)))
        if k in ("opq", "opqmut"):
            return "*obj"
        if k == "optopq":
            return "static_cast<const Opq*>(nullptr)" if v is None else "static_cast<const Opq*>(obj.get())"
        if k == "opt":
            inner_ty = "std::monostate" if t["t"]["k"] == "unit" else self.cty(t["t"])
            if "none" in v:
                return "std::optional<%s>(std::nullopt)" % inner_ty
            return "std::optional<%s>(%s)" % (inner_ty, "std::monostate()" if t["t"]["k"] == "unit" else self.make(t["t"], v["some"], pre))
        if k in ("slice", "str"):
            if k == "slice":
                el, cty = t["e"], CTY[t["e"]]
                const = "const " if t["m"] == "imm" else ""
                own = t["m"] == "own"
                span = "diplomat::span<%s%s>" % (const, cty)
            else:
                el = {"utf8": "u8", "u8": "u8", "u16": "u16"}[t["enc"]]
                cty = "char" if el == "u8" else "char16_t"
                own = t["own"]
                span = "std::string_view" if el == "u8" else "std::u16string_view"
            items = v["items"]
            self.tmp += 1
            nm = "t%d_" % self.tmp
            if not items:
                if v["null"] or own:
                    return "%s(static_cast<%s*>(nullptr), 0)" % (span, ("const " + cty) if k == "str" else (("const " if k == "slice" and t["m"] == "imm" else "") + cty))
                pre.append("static %s %s[1];" % (cty, nm))
                return "%s(%s, 0)" % (span, nm)
            if own:
                pre.append("%s* %s = reinterpret_cast<%s*>(diplomat_alloc(sizeof(%s) * %d, alignof(%s)));" % (cty, nm, cty, cty, len(items), cty))
            else:
                pre.append("%s %s[%d];" % (cty, nm, len(items)))
            for j, x in enumerate(items):
                if el in ("f32", "f64", "bool"):
                    pre.append("%s[%d] = %s;" % (nm, j, self.prim_lit(el, x)))
                else:
                    pre.append("%s[%d] = static_cast<%s>(0x%xull);" % (nm, j, cty, x))
            return "%s(%s, %d)" % (span, nm, len(items))
        if k == "cb":
            return self.make_cb(t, v)
        raise ValueError("make " + k)

    def make_cb(self, t, v):
        """std::function that logs what it receives (CbEnter), answers from the script (CbReturn); a DropLog captured by
        value reports the destruction of the callable the binding moved to the heap"""
        f = v["f"]
        ps = ", ".join("%s c%d" % (self.cty(a), j) for j, a in enumerate(t["ps"]))
        rt = self.cty(t["r"])
        body = ["(void)dl_; LB();"]
        for j, a in enumerate(t["ps"]):
            if j:
                body.append('L(";");')
            self.fmt(a, "c%d" % j, body)
        body.append('LE("CbEnter", "%s");' % f)
        if t["r"]["k"] != "unit":
            pre = []
            body.append("%s r_{}; switch (k_++) {" % rt)
            for c, call in enumerate(v["calls"]):
                body.append("case %d: r_ = %s; break;" % (c, self.make(t["r"], call["ret"], pre)))
            body.append("default: break; }")
            body.append("LB();")
            self.fmt(t["r"], "r_", body)
            body.append('LE("CbReturn", "%s"); return r_;' % f)
        else:
            body.append('(void)k_; LB(); L("()"); LE("CbReturn", "%s");' % f)
        return ('std::function<%s(%s)>([k_ = 0, dl_ = std::shared_ptr<DropLog>(new DropLog{"%s"})](%s) mutable -> %s { %s })'
                % (rt, ", ".join(self.cty(a) for a in t["ps"]), f, ps, rt, " ".join(body)))

    def fmt(self, t, e, out):
        k = t["k"]
        if k == "prim":
            p = t["p"]
            if p == "f32":
                out.append('L("f32:%%x", bf32(%s));' % e)
            elif p == "f64":
                out.append('L("f64:%%llx", (unsigned long long)bf64(%s));' % e)
            elif p == "bool":
                out.append('L("bool:%%x", bbool(%s));' % e)
            elif p == "char":
                out.append('L("char:%%x", (unsigned)(%s));' % e)
            else:
                out.append('L("%s:%%llx", (unsigned long long)(uint%d_t)(%s));' % (p, W[p], e))
        elif k == "enum":
            out.append('L("e:%%x", (unsigned)(uint32_t)(int32_t)((%s).AsFFI()));' % e)
        elif k == "struct":
            out.append('L("{");')
            for i, f in enumerate(self.defs[t["n"]]):
                if i:
                    out.append('L(",");')
                self.fmt(f, "(%s).%s" % (e, fname(i)), out)
            out.append('L("}");')
        elif k in ("opq", "opqmut"):
            out.append('L("p:%%llx", (unsigned long long)(uintptr_t)(&(%s)));' % e)
        elif k == "optopq":
            out.append('L("p:%%llx", (unsigned long long)(uintptr_t)(%s));' % e)
        elif k in ("box", "optbox"):
            out.append('L("p:%%llx", (unsigned long long)(uintptr_t)((%s).get()));' % e)
        elif k == "opt":
            out.append("if ((%s).has_value()) { L(\"some(\");" % e)
            if t["t"]["k"] != "unit":
                self.fmt(t["t"], "(*(%s))" % e, out)
            out.append('L(")"); } else { L("none"); }')
        elif k in ("slice", "str"):
            el = t["e"] if k == "slice" else {"utf8": "u8", "u8": "u8", "u16": "u16"}[t["enc"]]
            out.append('L("[%%llu|", (unsigned long long)(%s).size());' % e)
            out.append("for (size_t i_ = 0; i_ < (%s).size(); i_++) { if (i_) L(\",\");" % e)
            cast = {"u8": "(uint8_t)", "u16": "(uint16_t)"}.get(el, "") if k == "str" else ""
            self.fmt({"k": "prim", "p": el}, "%s(%s).data()[i_]" % (cast, e), out)
            out.append("}")
            out.append('L("]");')
        elif k == "unit":
            out.append('L("()");')
        elif k == "cb":
            out.append('L("cb");')
        else:
            raise ValueError("fmt " + k)

    def fmt_ret(self, t, e, out, write):
        """token of a returned C++ value (diplomat::result / std::string handling)"""
        k = t["k"]
        if k == "res":
            out.append("if ((%s).is_ok()) { auto ok_ = std::move(%s).ok(); (void)ok_; L(\"ok(\");" % (e, e))
            if t["ok"]["k"] != "unit":
                self.fmt_ret(t["ok"], "(ok_->get())" if t["ok"]["k"] == "opq" else "(*ok_)", out, False)
            out.append('L(")"); } else { auto er_ = std::move(%s).err(); (void)er_; L("err(");' % e)
            if t["err"]["k"] != "unit":
                self.fmt(t["err"], "(er_->get())" if t["err"]["k"] == "opq" else "(*er_)", out)
            out.append('L(")"); }')
        elif k == "opt" and t["t"]["k"] == "unit":
            out.append('if ((%s).has_value()) { L("some()"); } else { L("none"); }' % e)
        else:
            self.fmt(t, e, out)

    def call(self, n, sig, args, write, invalid_utf8=False):
        out, pre = ["{"], []
        names = []
        sk = sig["self"]["k"]
        slots = []
        if sk in ("struct", "enum"):
            out_self = self.make(sig["self"], args["self"], pre)
        cbs = []
        for i, p in enumerate(sig["params"]):
            if p["k"] == "cb":
                # the callable is handed over by value (moved): the binding owns the only copy
                cf = "f%d.cb%d" % (n, i)
                cbs.append(cf)
                pre.append("auto a%d = %s;" % (i, self.make(p, dict(args["params"][i], f=cf), pre)))
                names.append("std::move(a%d)" % i)
                slots.append((p, "a%d" % i))
                continue
            ex = self.make(p, args["params"][i], pre)
            if p["k"] in ("opq",):
                names.append("static_cast<const Opq&>(*obj)")
                slots.append((p, "(*obj)"))
                continue
            if p["k"] == "opqmut":
                names.append("*obj")
                slots.append((p, "(*obj)"))
                continue
            pre.append("auto a%d = %s;" % (i, ex))
            names.append("a%d" % i)
            slots.append((p, "a%d" % i))
        out += pre
        if sk in ("struct", "enum"):
            # a by-value receiver is called through a CONST object: methods of structs and enums consume a copy and are const in C++
            out.append("const auto s_ = %s;" % out_self)
        out.append("LB();")
        first = True
        if sk in ("opq", "opqmut"):
            out.append('L("p:%llx", (unsigned long long)(uintptr_t)host.get());')
            first = False
        elif sk in ("struct", "enum"):
            self.fmt(sig["self"], "s_", out)
            first = False
        for (t, e) in slots:
            if not first:
                out.append('L(";");')
            first = False
            self.fmt(t, e, out)
        if cbs:
            out.append('LEC("f%d", "%s", %s);' % (n, json.dumps(cbs).replace('"', '\\"'), "true" if invalid_utf8 else "false"))
        else:
            out.append(('LEM("f%d");' if invalid_utf8 else 'LE("CCall", "f%d");') % n)
        recv = {"none": "Host::", "opq": "host->", "opqmut": "host->", "struct": "s_.", "enum": "s_."}[sk]
        call = "%sf%d(%s)" % (recv, n, ", ".join(names))
        has_utf8 = any(p["k"] == "str" and p["enc"] == "utf8" for p in sig["params"])
        ret = sig["ret"]
        plain_void = ret["k"] == "unit" and not sig["write"] and not has_utf8
        if plain_void:
            out.append(call + ";")
            out.append('LB(); L("()"); LE("CReturn", "f%d");' % n)
        else:
            out.append("auto&& r0_ = %s;" % call)
            if has_utf8:
                out.append('if (!r0_.is_ok()) { LB(); L("err(utf8)"); LE("CReturn", "f%d"); } else {' % n)
                if ret["k"] == "unit" and not sig["write"]:
                    out.append('LB(); L("()"); LE("CReturn", "f%d"); }' % n)
                    out.append("}")
                    return "\n    ".join(out)
                out.append("auto r_ = *std::move(r0_).ok();")
            else:
                out.append("auto&& r_ = r0_;")
            out.append("LB();")
            if sig["write"]:
                # the written string takes the place of the unit success value
                if ret["k"] == "unit":
                    out.append('L("()"); LE("CReturn", "f%d"); LB(); wtok(r_); LE("CWrite", "f%d");' % (n, n))
                elif ret["k"] == "res":
                    out.append('if (r_.is_ok()) { L("ok()"); LE("CReturn", "f%d"); LB(); wtok(*std::move(r_).ok()); LE("CWrite", "f%d"); } else { auto er_ = std::move(r_).err(); (void)er_; L("err(");' % (n, n))
                    if ret["err"]["k"] != "unit":
                        self.fmt(ret["err"], "(*er_)", out)
                    out.append('L(")"); LE("CReturn", "f%d"); }' % n)
                else:
                    out.append('if (r_.has_value()) { L("some()"); LE("CReturn", "f%d"); LB(); wtok(*r_); LE("CWrite", "f%d"); } else { L("none"); LE("CReturn", "f%d"); }' % (n, n, n))
            else:
                self.fmt_ret(ret, "r_", out, False)
                out.append('LE("CReturn", "f%d");' % n)
            if has_utf8:
                out.append("}")
        out.append("}")
        return "\n    ".join(out)


WTOK = r'''
static void wtok(const std::string& s) { L("w[%llu|", (unsigned long long)s.size()); for (size_t i = 0; i < s.size(); i++) { if (i) L(","); L("u8:%x", (unsigned)(uint8_t)s[i]); } L("]"); }
'''
