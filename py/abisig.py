"""Rendering of Abi.tla signatures (spec/abi/MC_Abi.tla) into Rust bridge source, shared by C01/C02/C07/C10.

A catalogue is a list of cases {sig, shape}; each becomes one method `f<n>` on a host type chosen by the self kind:
  none/opq/opqmut -> opaque `Host`, struct self -> that struct, enum self -> `En`.
The exported symbol is `<HostType>_f<n>`.
"""
import json

PRIM_RUST = {"u8": "u8", "i8": "i8", "u16": "u16", "i16": "i16", "u32": "u32", "i32": "i32", "u64": "u64", "i64": "i64",
             "usize": "usize", "isize": "isize", "f32": "f32", "f64": "f64", "bool": "bool", "char": "DiplomatChar"}
STR_BORROWED = {"utf8": "str", "u8": "DiplomatStr", "u16": "DiplomatStr16"}
STR_DIPL = {"utf8": "DiplomatUtf8StrSlice", "u8": "DiplomatStrSlice", "u16": "DiplomatStr16Slice"}

USES = ("    use diplomat_runtime::{DiplomatChar, DiplomatOption, DiplomatSlice, DiplomatStr, DiplomatStr16, DiplomatStr16Slice, "
        "DiplomatStrSlice, DiplomatUtf8StrSlice, DiplomatWrite};\n")


# struct field names, by position: deliberately NOT in alphabetical order (a backend that sorts names -- a BTreeSet, a
# HashMap made deterministic -- must not get away with it) and with one that sorts differently as camelCase
FIELD_NAMES = ["w", "c", "z_k", "a", "m", "b", "q", "d"]


def fname(i):
    return FIELD_NAMES[i]


def rust_ty(t, lt, in_struct=False):
    """lt: lifetime text like "'a" or None for anonymous"""
    k = t["k"]
    amp = ("&%s " % lt) if lt else "&"
    if k == "prim":
        return PRIM_RUST[t["p"]]
    if k == "enum":
        return "En"
    if k == "struct":
        return t["n"] + ("<%s>" % (lt or "'_") if t["n"] == "Brw" else "")
    if k == "opq":
        return amp + "Opq"
    if k == "opqmut":
        return amp + "mut Opq"
    if k == "optopq":
        return "Option<%sOpq>" % amp
    if k == "box":
        return "Box<Opq>"
    if k == "optbox":
        return "Option<Box<Opq>>"
    if k == "opt":
        inner = "()" if t["t"]["k"] == "unit" else rust_ty(t["t"], lt, in_struct)
        return ("Option<%s>" if t["s"] == "std" else "DiplomatOption<%s>") % inner
    if k == "slice":
        e = PRIM_RUST[t["e"]]
        if in_struct:
            return "DiplomatSlice<%s, %s>" % (lt, e)
        return {"imm": amp + "[%s]" % e, "mut": amp + "mut [%s]" % e, "own": "Box<[%s]>" % e}[t["m"]]
    if k == "str":
        if in_struct:
            return "%s<%s>" % (STR_DIPL[t["enc"]], lt)
        return ("Box<%s>" % STR_BORROWED[t["enc"]]) if t["own"] else amp + STR_BORROWED[t["enc"]]
    if k == "res":
        return "Result<%s, %s>" % (rust_ty(t["ok"], lt), rust_ty(t["err"], lt))
    if k == "unit":
        return "()"
    if k == "cb":
        ret = "" if t["r"]["k"] == "unit" else " -> " + rust_ty(t["r"], lt)
        return "impl Fn(%s)%s" % (", ".join(rust_ty(a, lt) for a in t["ps"]), ret)
    if k == "trait":
        return "impl " + t["n"]
    if k == "strs":
        return "&[%s]" % STR_DIPL[t["enc"]]
    raise ValueError(k)


def trait_decls(cases):
    """`pub trait` items for every trait used by a parameter of the catalogue (declared once per name, inside the bridge module)"""
    seen, out = set(), []
    for _, sig in cases:
        for p in sig["params"]:
            if p["k"] == "trait" and p["n"] not in seen:
                seen.add(p["n"])
                ms = []
                for q, m in enumerate(p["ms"]):
                    ret = "" if m["r"]["k"] == "unit" else " -> " + rust_ty(m["r"], None)
                    # one method in the MIDDLE of a trait is disabled for the C backend: the macro compiles a vtable slot for every method
                    # whatever the backend attributes say, so the slot has to stay in the header (later slots must not shift)
                    dis = "        #[diplomat::attr(c, disable)]\n" if (q == 1 and len(p["ms"]) >= 3) else ""
                    ms.append(dis + "        fn t%d(&self%s)%s;\n" % (q, "".join(", a%d: %s" % (j, rust_ty(a, None)) for j, a in enumerate(m["ps"])), ret))
                out.append("    pub trait %s {\n%s    }\n" % (p["n"], "".join(ms)))
    return "".join(out)


def mentions_borrow(t):
    k = t["k"]
    if k in ("opq", "optopq", "opqmut"):
        return True
    if k in ("slice", "str"):
        return t.get("m") != "own" and not t.get("own", False)
    if k == "struct":
        return t["n"] == "Brw"
    if k == "res":
        return mentions_borrow(t["ok"]) or mentions_borrow(t["err"])
    if k == "opt":
        return mentions_borrow(t["t"])
    return False


def prelude(defs, kotlin_errors=True, type_attr=None):
    """type definitions of the catalogue; defs = the DEFS record emitted by TLC.
    type_attr: optional function type name -> attribute lines placed before the definition (namespaces, renames)"""
    err = "    #[diplomat::attr(kotlin, error)]\n" if kotlin_errors else ""
    ta = (lambda n: type_attr(n)) if type_attr else (lambda n: "")
    out = [ta("Opq") + "    #[diplomat::opaque]\n    pub struct Opq(pub u64);\n",
           ta("Host") + "    #[diplomat::opaque]\n    pub struct Host {\n        pub id: u64,\n        pub inner: Opq,\n        pub text: String,\n"
           "        pub bytes: Vec<u8>,\n        pub floats: Vec<f64>,\n        pub words: Vec<u32>,\n        pub wide: Vec<u16>,\n    }\n",
           ta("En") + err + "    pub enum En {\n        A,\n        B = 5,\n        C = -3,\n        D,\n        E = 4,\n    }\n"]
    for name, fields in defs["structs"].items():
        lt = "<'a>" if (name == "Brw" or any(mentions_borrow(f) for f in fields)) else ""
        attr = "    #[diplomat::out]\n" if name == "Os" else (err if name in ("Inner", "Wide") else "")
        fs = "".join("        pub %s: %s,\n" % (fname(i), rust_ty(f, "'a", in_struct=True)) for i, f in enumerate(fields))
        out.append(ta(name) + attr + "    pub struct %s%s {\n%s    }\n" % (name, lt, fs))
    return USES + "".join(out)


def host_of(sig):
    k = sig["self"]["k"]
    if k == "struct":
        return sig["self"]["n"]
    if k == "enum":
        return "En"
    return "Host"


def method(n, sig, body="todo!()"):
    """Rust text of method f<n> (to be placed in `impl <host>`), and its ABI symbol"""
    sk = sig["self"]["k"]
    need_lt = mentions_borrow(sig["ret"]) or any(p["k"] == "struct" and p["n"] == "Brw" for p in sig["params"])
    lt = "'a" if need_lt else None
    params = []
    if sk == "opq":
        params.append("&'a self" if need_lt else "&self")
    elif sk == "opqmut":
        params.append("&'a mut self" if need_lt else "&mut self")
    elif sk in ("struct", "enum"):
        params.append("self")
    for i, p in enumerate(sig["params"]):
        # parameters borrow with anonymous lifetimes (nothing they lend is returned in this catalogue)
        params.append("p%d: %s" % (i, rust_ty(p, "'a" if (p["k"] == "struct" and p["n"] == "Brw") else None)))
    if sig["write"]:
        params.append("w: &mut DiplomatWrite")
    ret = "" if sig["ret"]["k"] == "unit" else " -> " + rust_ty(sig["ret"], lt)
    gen = "<'a>" if need_lt else ""
    return "        pub fn f%d%s(%s)%s { %s }\n" % (n, gen, ", ".join(params), ret, body), "%s_f%d" % (host_of(sig), n)


CTORS = """    impl Opq {
        pub fn mk(v: u64) -> Box<Opq> { Box::new(Opq(v)) }
    }
    impl Host {
        #[diplomat::demo(default_constructor)]
        pub fn mk(v: u64) -> Box<Host> {
            Box::new(Host { id: v, inner: Opq(v), text: %s.into(), bytes: vec!%s, floats: vec![1.5, -0.0], words: vec!%s, wide: vec!%s })
        }
    }
"""


def module(defs, cases, bodies=None, kotlin_errors=True, name="ffi", host_data=None, type_attr=None):
    """cases: list of (n, sig). Returns (rust source, {n: symbol})"""
    by_host = {}
    syms = {}
    for n, sig in cases:
        text, sym = method(n, sig, (bodies or {}).get(n, "todo!()"))
        by_host.setdefault(host_of(sig), []).append(text)
        syms[n] = sym
    impls = ""
    for h, ms in by_host.items():
        hl = "<'b>" if h == "Brw" else ""
        impls += "    impl%s %s%s {\n%s    }\n" % (hl, h, hl, "".join(ms))
    import json as _j
    hd = host_data or ("x", [0], [0], [0])
    ctors = CTORS % (_j.dumps(hd[0], ensure_ascii=False), _j.dumps(hd[1]), _j.dumps(hd[2]), _j.dumps(hd[3]))
    return "#[diplomat::bridge]\npub mod %s {\n%s%s%s%s}\n" % (name, prelude(defs, kotlin_errors, type_attr), trait_decls(cases), ctors, impls), syms


def uses_nonptr_option(sig):
    def has(t):
        k = t["k"]
        if k == "opt":
            return t["t"]["k"] != "unit"      # Option<()> needs no option support: it is the nullable form of a unit / write-out method
        if k == "res":
            return has(t["ok"]) or has(t["err"])
        if k == "struct":
            return t["n"] == "WOpt"
        return False
    return has(sig["ret"]) or any(has(p) for p in sig["params"]) or has(sig["self"])
