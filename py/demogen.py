"""./extra demogen — extension spec spec/demogen/DemoGen.tla: which methods become render termini of the demo_gen backend and
which inputs each terminus asks for.  TLC enumerates methods (receiver x <=2 parameters of 13 types x write/generate/disable x
explicit_generation) with the expected list of questions; the methods are rendered into bridges, run through the real demo_gen
backend and the RenderInfo of the generated index.mjs is compared with the expectation."""
import json, os, random, re
import lib

PRELUDE = """    pub enum En { A, B }
    pub struct St { pub a: u8, pub e: En }
    pub struct Sn {
        pub s: St,
        #[diplomat::demo(input(label = "Flag B"))]
        pub b: bool,
    }
    #[diplomat::opaque]
    pub struct OpC(u8);
    #[diplomat::opaque]
    pub struct OpR(u8);
    #[diplomat::opaque]
    pub struct OpN(u8);
    #[diplomat::demo(external)]
    #[diplomat::opaque]
    pub struct OpX(u8);
    impl OpR {
        #[diplomat::attr(auto, constructor)]
        pub fn new(c: &OpC, k: u16) -> Box<OpR> { todo!() }
    }
"""
CTOR = "        #[diplomat::demo(default_constructor)]\n        pub fn make(val_x: u8, e: En) -> Box<OpC> { todo!() }\n"


def rust_ty(t):
    k = t["k"]
    return {"prim": lambda: t["p"], "enum": lambda: "En", "str": lambda: "&str", "slice": lambda: "&[u8]", "opt": lambda: "Option<u8>",
            "opq": lambda: "&" + t["n"], "st": lambda: t["n"]}[k]()


def method_src(n, m):
    ps = []
    if m["self"] in ("OpC", "OpN"):
        ps.append("&self")
    elif m["self"] == "St":
        ps.append("self")
    for i, p in enumerate(m["params"]):
        lab = '#[diplomat::demo(input(label = "My Label", default_value = 7))] ' if p["labelled"] else ""
        ps.append("%s%s: %s" % (lab, ["a", "val_x"][i], rust_ty(p["ty"])))
    if m["write"]:
        ps.append("w: &mut DiplomatWrite")
    attrs = ("        #[diplomat::demo(generate)]\n" if m["gen"] else "") + ("        #[diplomat::attr(demo_gen, disable)]\n" if m["dis"] else "")
    return "%s        pub fn m%d(%s)%s { todo!() }\n" % (attrs, n, ", ".join(ps), "" if m["write"] else " -> u8")


def module_src(cases):
    by = {"OpC": [], "OpN": [], "St": []}
    for n, c in cases:
        by[c["owner"]].append(method_src(n, c["m"]))
    return ("#[diplomat::bridge]\nmod ffi {\n    use diplomat_runtime::DiplomatWrite;\n" + PRELUDE +
            "    impl OpC {\n" + CTOR + "".join(by["OpC"]) + "    }\n    impl OpN {\n" + "".join(by["OpN"]) + "    }\n    impl St {\n" + "".join(by["St"]) + "    }\n}\n")


def camel(tok):
    return "".join(w[:1].upper() + w[1:] for w in tok.split("_"))


def want_params(c):
    out = []
    for q in c["questions"]:
        d = {"name": q["label"] or ":".join(camel(t) for t in q["path"]), "type": q["type"], "typeUse": q["use"]}
        if q["dflt"]:
            d["defaultValue"] = q["dflt"]
        out.append(d)
    return out


def parse_index(text):
    """{ "Type.fn": [ {name, type, typeUse, defaultValue?} ] } from the generated index.mjs"""
    res = {}
    for key, body in re.findall(r'"([\w.]+)": \{\s*func: [^\n]*\n[^\n]*\n\s*funcName: "[^"]*",\s*parameters: \[(.*?)\n        \]', text, re.S):
        ps = []
        for obj in re.findall(r'\{(.*?)\}', body, re.S):
            d = dict(re.findall(r'(\w+): "([^"]*)"', obj))
            ps.append(d)
        res[key] = ps
    return res


def shape(c):
    m = c["m"]
    def t(p):
        ty = p["ty"]
        return (ty.get("p") or ty.get("n") or ty["k"]) + ("[labelled]" if p["labelled"] else "")
    return "%s(%s)%s%s%s%s" % ({"none": "static ", "OpC": "&OpC.", "OpN": "&OpN.", "St": "St."}[m["self"]], ", ".join(t(p) for p in m["params"]),
                               " -> write" if m["write"] else " -> u8", " generate" if m["gen"] else "", " disabled" if m["dis"] else "",
                               " | explicit_generation" if c["explicit"] else "")


def run(out):
    wd = lib.ensure(os.path.join(lib.WORK, "extra_demogen"))
    thorough = os.environ.get("VERIF_EXTRA_TIER") == "thorough"
    r0 = lib.tlc("demogen", "MC_DemoGen", "props.cfg", workers=8, coverage=False, timeout=900)
    lib.tlc_expect_ok(r0, "DemoGen rule properties")
    rn = lib.tlc("demogen", "MC_DemoGen", "neg.cfg", workers=2, coverage=False, timeout=600)
    lib.tlc_expect_violation(rn, "asking the user for an opaque that cannot be built", "OnlyAskableBad")
    e = lib.tlc("demogen", "MC_DemoGen", "emit.cfg", workers=2, coverage=False, timeout=900)
    lib.tlc_expect_ok(e, "DemoGen case emission")
    allc = e.printed["CASE"]
    for c in allc:
        if isinstance(c["m"]["params"], dict):
            c["m"]["params"] = [c["m"]["params"][k] for k in sorted(c["m"]["params"], key=int)]
    rng = random.Random(lib.seed())
    small = [c for c in allc if len(c["m"]["params"]) <= 1]
    big = [c for c in allc if len(c["m"]["params"]) == 2]
    rng.shuffle(big)
    picked = small + (big if thorough else big[:1500])
    diffs, nrun, nterm = [], 0, 0
    for explicit in (False, True):
        cs = [(n, c) for n, c in enumerate(picked) if c["explicit"] == explicit]
        ok_cases = [(n, c) for n, c in cs if not c["error"]]
        err_cases = [(n, c) for n, c in cs if c["error"]]
        cfg = ["demo_gen.explicit_generation=true"] if explicit else []
        B = 400
        for i in range(0, len(ok_cases), B):
            chunk = ok_cases[i:i + B]
            src = os.path.join(wd, "ok_%s_%d.rs" % (explicit, i))
            open(src, "w").write(module_src(chunk))
            od = os.path.join(wd, "out_ok")
            t = lib.run_tool("demo_gen", src, od, config=cfg, timeout=600)
            if t["rc"] != 0:
                raise lib.ToolError("demo_gen failed on methods the spec accepts (%s):\n%s" % (src, t["stderr"][-2500:]))
            got = parse_index(open(os.path.join(od, "index.mjs")).read())
            want_keys = set()
            for n, c in chunk:
                nrun += 1
                key = "%s.m%d" % (c["owner"], n)
                if c["terminus"]:
                    nterm += 1
                    want_keys.add(key)
                    if key not in got:
                        diffs.append({"what": "a method that should be a render terminus is missing from RenderInfo", "shape": shape(c), "case": c})
                    elif got[key] != want_params(c):
                        w, g = want_params(c), got[key]
                        kind = "number of questions differs" if len(w) != len(g) else \
                            "field `%s` of a question differs" % next(k for a, b in zip(w, g) for k in ("name", "type", "typeUse", "defaultValue") if a.get(k) != b.get(k))
                        diffs.append({"what": "questions of a terminus differ: " + kind, "shape": shape(c), "case": c, "spec": w, "impl": g})
                elif key in got:
                    diffs.append({"what": "a method that is no terminus appears in RenderInfo", "shape": shape(c), "case": c})
            extra = set(got) - want_keys
            if extra:
                diffs.append({"what": "RenderInfo lists termini nobody asked for", "shape": sorted(extra)[0], "case": {"m": {}, "explicit": explicit}, "impl": sorted(extra)[:5]})
        rng.shuffle(err_cases)
        for n, c in err_cases[:(12 if not thorough else 80)]:
            nrun += 1
            src = os.path.join(wd, "err.rs")
            open(src, "w").write(module_src([(n, c)]))
            t = lib.run_tool("demo_gen", src, os.path.join(wd, "out_err"), config=cfg, timeout=120)
            if t["rc"] == 0 or "You must set a default constructor for the opaque type OpN" not in t["stderr"] + t["stdout"]:
                diffs.append({"what": "an opaque without a default constructor is not reported", "shape": shape(c), "case": c,
                              "impl": {"rc": t["rc"], "stderr": t["stderr"][-300:]}})
    json.dump(diffs, open(os.path.join(wd, "diffs.json"), "w"), indent=1)
    out.update({"cases": nrun, "termini_expected": nterm, "methods_in_scope": len(allc),
                "tlc": {"states": r0.generated, "props": "OnlyAskable, ExplicitShrinks, ReceiverFirst, DistinctPaths", "negative_models_refuted": 1},
                "differences_by_kind": {}, "samples": diffs[:12]})
    for d in diffs:
        out["differences_by_kind"][d["what"]] = out["differences_by_kind"].get(d["what"], 0) + 1
    return diffs
