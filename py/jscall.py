"""./extra jscall — extension spec spec/jscall/JsCall.tla: wasm-heap and call discipline of generated JS methods.

TLC enumerates method shapes (ABI x self x <=2 parameters of 9 kinds x borrow sets x 8 return kinds) with the plan of buffers each
must make; the shapes are rendered as one bridge, run through the real js backend under both ABIs, the generated methods are
executed in node against a logging stub wasm module (stub FinalizationRegistry, real collector probed with --expose-gc) and the
recorded runs are validated by Trace_JsCall.tla, which refuses a run at the first event no action of the spec allows."""
import json, os, random, re
import lib

RUST_P = {"slice8": ("&%s[u8]", True), "slice64": ("&%s[f64]", True), "str8": ("&%sDiplomatStr", True), "str16": ("&%sDiplomatStr16", True),
          "strs": ("&[DiplomatStrSlice]", False), "st": ("Sl%s", True), "opt": ("Option<u32>", False), "pl": ("Pl", False), "prim": ("u32", False)}
JS_ARG = {"slice8": "[1, 2, 3]", "slice64": "[1.5, 2.5]", "str8": '"h\\u00e9llo"', "str16": '"h\\u00e9"', "strs": '["ab", "c"]',
          "st": "new Sl({s: [1, 2], n: 3})", "opt": "7", "pl": "new Pl({a: 1, b: 2})", "prim": "5"}
RUST_R = {"unit": "", "prim": " -> u32", "hold": " -> Box<Hold<'a>>", "out": " -> Pl", "result": " -> Result<u32, Er>", "opt": " -> Option<u16>",
          "write": "", "reshold": " -> Result<Box<Hold<'a>>, Er>", "box": " -> Box<Opq>", "optbox": " -> Option<Box<Opq>>", "ref": " -> &'a Opq"}
PRELUDE = """    #[diplomat::opaque]
    pub struct Opq(u8);
    #[diplomat::opaque]
    pub struct Hold<'a>(&'a [u8]);
    pub enum Er { A, B }
    pub struct Sl<'a> { pub s: DiplomatSlice<'a, u8>, pub n: u8 }
    pub struct Pl { pub a: u8, pub b: u32 }
"""

STUB = r'''
const memory = new WebAssembly.Memory({ initial: 64 });
let bump = 0x4000;
export const log = [];
export const ctl = { ok: true, last: null };
const base = {
  memory,
  diplomat_alloc(size, align) { bump = (bump + align - 1) & ~(align - 1); const p = bump; bump += Math.max(size, 1) + 16; log.push({ev: "Alloc", ptr: p, size, align}); ctl.last = [p, size]; return p; },
  diplomat_free(p, size, align) { log.push({ev: "Free", ptr: p, size, align}); },
  diplomat_buffer_write_create(cap) { bump += 32; log.push({ev: "WriteCreate"}); return bump; },
  diplomat_buffer_write_destroy(h) { log.push({ev: "WriteDestroy"}); },
  diplomat_buffer_write_get_bytes(h) { return 0x100; },
  diplomat_buffer_write_len(h) { return 0; },
};
export default new Proxy(base, { get(t, prop) { if (prop in t) return t[prop]; return (...args) => {
  const nums = args.map(a => typeof a === "number" ? Math.trunc(a) : (typeof a === "bigint" ? Number(a) : -1));
  log.push({ev: "Wasm", fn: String(prop), args: nums, nonnum: args.filter(a => typeof a !== "number" && typeof a !== "bigint").length});
  // the receive buffer (when the shape has one) is the first argument: zero it and set the is_ok flag in its last byte
  if (String(prop).endsWith("_destroy")) { log.pop(); log.push({ev: "Destroy", ptr: nums[0]}); return undefined; }
  if (ctl.recvSize && typeof args[0] === "number") { const m = new Uint8Array(memory.buffer); m.fill(0, args[0], args[0] + ctl.recvSize); if (ctl.ok) { m[args[0] + ctl.recvSize - 1] = 1; if (ctl.recvSize >= 5) new DataView(memory.buffer).setUint32(args[0], 0x7000, true); } }
  log.push({ev: "WasmRet"});
  return ctl.ok ? 0x7000 : 0; }; } });
'''

DRIVER_HEAD = r'''
const regs = [];
let log;
class StubFR { constructor(cb) { this.cb = cb; } register(target, held) { const buf = typeof held === "function"; regs.push({reg: this, held, ref: new WeakRef(target), buf}); if (buf) log.push({ev: "Register"}); else log.push({ev: "RegisterOpaque", ptr: held}); } unregister() {} }
globalThis.FinalizationRegistry = StubFR;
const stub = await import("./diplomat-wasm.mjs");
log = stub.log; const ctl = stub.ctl;
const rt = await import("./diplomat-runtime.mjs");
const { Opq } = await import("./Opq.mjs");
const { Sl } = await import("./Sl.mjs");
const { Pl } = await import("./Pl.mjs");
import { writeFileSync, appendFileSync } from "node:fs";
const tick = () => new Promise(r => setTimeout(r, 0));
const o = new Opq(rt.internalConstructor, 0x3000, []);
const outPath = process.argv[2];
writeFileSync(outPath, "");
async function run(id, ok, recvSize, f) {
  log.length = 0; regs.length = 0; ctl.ok = ok; ctl.recvSize = recvSize;
  // the result is parked in a global so that it is reachable by more than a dead local while the collector is probed
  let threw = false;
  globalThis.__held = [];
  try { globalThis.__held.push(f()); } catch (e) { threw = true; log.push({ev: "Note", err: String(e).slice(0, 160)}); }
  log.push({ev: "MethodEnd", threw});
  const nbuf = regs.filter(r => r.buf).length;
  if (!threw) {
    if (nbuf > 0) { await tick(); globalThis.gc(); await tick(); globalThis.gc(); }
    log.push({ev: "GcProbe", alive: regs.filter(r => r.buf && r.ref.deref() !== undefined).length});
  }
  globalThis.__held = null;
  log.push({ev: "DropResult"});
  for (const r of regs) if (!r.buf) r.reg.cb(r.held);
  for (const r of regs) if (r.buf) { log.push({ev: "Finalize"}); try { r.reg.cb(r.held); } catch (e) { log.push({ev: "Note", err: "finalizer: " + String(e).slice(0, 140)}); log.push({ev: "FinalizerThrew"}); } }
  log.push({ev: "Quiesce"});
  appendFileSync(outPath, log.map(e => JSON.stringify(Object.assign({run: id}, e))).join("\n") + "\n");
}
'''


def method_src(n, c):
    lt = "'a " if (c["borrow"] or c["ret"] == "ref") else ""
    ps = []
    if c["self"] == "ref":
        ps.append("&'a self" if c["ret"] == "ref" else "&self")
    for i, k in enumerate(c["params"]):
        t, can = RUST_P[k]
        b = (i + 1) in c["borrow"]
        if "%s" in t:
            t = t % (("<'a>" if b else "") if k == "st" else ("'a " if b else ""))
        ps.append("p%d: %s" % (i, t))
    if c["ret"] == "write":
        ps.append("w: &mut DiplomatWrite")
    gen = "<'a>" if (c["borrow"] or c["ret"] == "ref") else ""
    return "        pub fn m%d%s(%s)%s { unimplemented!() }\n" % (n, gen, ", ".join(ps), RUST_R[c["ret"]])


def module_src(cases):
    return ("#[diplomat::bridge]\nmod ffi {\n    use diplomat_runtime::{DiplomatSlice, DiplomatStr, DiplomatStr16, DiplomatStrSlice, DiplomatWrite};\n" + PRELUDE +
            "    impl Opq {\n" + "".join(method_src(n, c) for n, c in cases) + "    }\n}\n")


def shape(c):
    return "%s %s(%s)%s -> %s%s" % (c["abi"], "self." if c["self"] == "ref" else "", ", ".join(
        k + ("*" if (i + 1) in c["borrow"] else "") for i, k in enumerate(c["params"])), "", c["ret"], "" if c["ok"] else " [err]")


def run(out):
    wd = lib.ensure(os.path.join(lib.WORK, "extra_jscall"))
    thorough = os.environ.get("VERIF_EXTRA_TIER") == "thorough"
    r0 = lib.tlc("jscall", "MC_JsCall", "inv.cfg", workers=8, deadlock=True, timeout=900)
    lib.tlc_expect_ok(r0, "JsCall invariants and deadlock freedom")
    vac = [a for a in lib.vacuous_actions(r0) if a not in ("Stay",)]
    if vac:
        raise lib.ToolError("vacuous JsCall actions: %s" % vac)
    rn = lib.tlc("jscall", "MC_JsCall", "neg.cfg", workers=2, coverage=False, deadlock=True, timeout=600)
    if "Deadlock reached" not in rn.out:
        raise lib.ToolError("negative model (buffers never freed) was not refuted:\n" + rn.out[-1500:])
    e = lib.tlc("jscall", "MC_JsCall", "emit.cfg", workers=2, coverage=False, timeout=900)
    lib.tlc_expect_ok(e, "JsCall case emission")
    allc = e.printed["CASE"]
    rng = random.Random(lib.seed())
    small = [x for x in allc if len(x["c"]["params"]) <= 1]
    big = [x for x in allc if len(x["c"]["params"]) == 2]
    rng.shuffle(big)
    picked = small + (big if thorough else big[:700])
    events, nrun, shapes = [], 0, {}
    for abi in ("legacy", "spec"):
        cs = [(n, x["c"]) for n, x in enumerate(picked) if x["c"]["abi"] == abi]
        src = os.path.join(wd, "calls_%s.rs" % abi)
        open(src, "w").write(module_src(cs))
        od = os.path.join(wd, "js_" + abi)
        t = lib.run_tool("js", src, od, config=["js.abi=" + abi], timeout=900)
        if t["rc"] != 0:
            raise lib.ToolError("js backend failed on the call catalogue (%s):\n%s" % (abi, t["stderr"][-2500:]))
        open(os.path.join(od, "diplomat-wasm.mjs"), "w").write(STUB)
        lines = [DRIVER_HEAD]
        for n, c in cs:
            args = ", ".join(JS_ARG[k] for k in c["params"])
            recv = {"out": 8, "result": 5, "reshold": 5, "opt": 3}.get(c["ret"], 0)
            call = ("o.m%d(%s)" if c["self"] == "ref" else "Opq.m%d(%s)") % (n, args)
            lines.append("await run(%d, %s, %d, () => %s);" % (n, "true" if c["ok"] else "false", recv, call))
        drv = os.path.join(od, "driver.mjs")
        open(drv, "w").write("\n".join(lines) + "\n")
        tr = os.path.join(wd, "raw_%s.ndjson" % abi)
        p = lib.sh(["node", "--expose-gc", drv, tr], cwd=od, timeout=1800)
        if p.returncode != 0:
            raise lib.ToolError("node driver failed (%s):\n%s" % (abi, (p.stderr or p.stdout)[-2500:]))
        by = {}
        for ev in lib.read_ndjson(tr):
            by.setdefault(ev["run"], []).append(ev)
        for n, c in cs:
            shapes[n] = c
            events.append({"ev": "Begin", "run": n, "abi": c["abi"], "self": c["self"], "params": c["params"], "borrow": c["borrow"],
                           "ret": c["ret"], "ok": c["ok"]})
            events += [x for x in by.get(n, []) if x["ev"] != "Note"]
            nrun += 1
        out.setdefault("notes", {})[abi] = sorted(set(x["err"] for v in by.values() for x in v if x["ev"] == "Note"))[:12]
    # validation in chunks of whole runs
    bad, chunk, nchunks = [], [], 0
    def flush():
        nonlocal chunk, nchunks
        if not chunk:
            return
        pth = os.path.join(wd, "trace_%d.ndjson" % nchunks)
        lib.write_ndjson(pth, chunk)
        r = lib.tlc("jscall", "Trace_JsCall", "trace.cfg", workers=1, coverage=False, timeout=900, env={"TRACE": pth}, dfs=True, heap="3g",
                    tag="trace_jscall_%d" % nchunks)
        if r.rc != 0 or "BAD" not in r.printed:
            raise lib.ToolError("trace validation did not complete:\n" + r.out[-2500:])
        bad.extend(r.printed["BAD"][-1])
        nchunks += 1
        chunk = []
    for ev in events:
        if ev["ev"] == "Begin" and len(chunk) > 2500:
            flush()
        chunk.append(ev)
    flush()
    # binding self-test and vacuity guard on the ACCEPTED runs
    refused = set(b["run"] for b in bad)
    by_run = {}
    for ev in events:
        by_run.setdefault(ev["run"], []).append(ev)
    acc = [n for n in by_run if n not in refused]
    kinds = set(ev["ev"] for n in acc for ev in by_run[n])
    need = {"Alloc", "Free", "WriteCreate", "WriteDestroy", "Register", "Wasm", "WasmRet", "MethodEnd", "GcProbe", "DropResult", "Finalize", "Quiesce",
            "RegisterOpaque", "Destroy"}
    if not need <= kinds:
        raise lib.ToolError("accepted runs never exercise %s" % sorted(need - kinds))
    if not any(ev["ev"] == "GcProbe" and ev["alive"] > 0 for n in acc for ev in by_run[n]) or not any(ev["ev"] == "MethodEnd" and ev["threw"] for n in acc for ev in by_run[n]):
        raise lib.ToolError("accepted runs never hold a borrowed buffer alive / never take the throwing path")
    victim = next(n for n in acc if sum(1 for ev in by_run[n] if ev["ev"] == "Free") >= 2 and any(ev["ev"] == "Register" for ev in by_run[n]))
    muts = {}
    evs = by_run[victim]
    i = max(j for j, ev in enumerate(evs) if ev["ev"] == "Free")
    muts["double free"] = evs[:i + 1] + [evs[i]] + evs[i + 1:]
    muts["free with another size"] = [dict(ev, size=ev["size"] + 1) if j == i else ev for j, ev in enumerate(evs)]
    muts["free of a borrowed buffer before the result is dropped"] = [ev for j, ev in enumerate(evs) if j != i][:next(j for j, ev in enumerate(evs) if ev["ev"] == "MethodEnd")] + [evs[i]] + \
        [ev for j, ev in enumerate(evs) if j != i][next(j for j, ev in enumerate(evs) if ev["ev"] == "MethodEnd"):]
    muts["registration dropped"] = [ev for ev in evs if ev["ev"] != "Register"]
    muts["destroy registration dropped"] = [ev for ev in evs if ev["ev"] != "RegisterOpaque"]
    muts["destroyed twice"] = evs[:-1] + [ev for ev in evs if ev["ev"] == "Destroy"] + evs[-1:]
    muts["address not passed"] = [dict(ev, args=[0 for _ in ev["args"]]) if ev["ev"] == "Wasm" else ev for ev in evs]
    caught = []
    for name, m in muts.items():
        pth = os.path.join(wd, "trace_mut.ndjson")
        lib.write_ndjson(pth, m)
        r = lib.tlc("jscall", "Trace_JsCall", "trace.cfg", workers=1, coverage=False, timeout=600, env={"TRACE": pth}, dfs=True, heap="2g", tag="trace_jscall_mut")
        if r.rc != 0 or "BAD" not in r.printed:
            raise lib.ToolError("trace validation of a mutated run did not complete:\n" + r.out[-1500:])
        if not r.printed["BAD"][-1]:
            raise lib.ToolError("binding self-test: a run mutated by '%s' was accepted" % name)
        caught.append(name)
    out["binding_selftest"] = {"run": shape(shapes[victim]), "mutations_refused": caught}
    out["accepted_runs"] = len(acc)
    diffs = []
    for b in bad:
        c = shapes[b["run"]]
        ev = b["ev"]
        why = classify(b)
        diffs.append({"what": why, "shape": shape(c), "case": c, "refused_event": {k: v for k, v in ev.items() if k != "run"},
                      "state": {k: b[k] for k in ("phase", "nheap", "nplan", "regs", "want_regs", "oreg", "want_oreg", "next", "live")}})
    out.update({"cases": nrun, "shapes_in_scope": len(allc), "runs_refused": len(bad), "events": len(events),
                "tlc": {"states": r0.distinct, "props": "NoEarlyFree, BorrowedOutlivesResult, CallScopedGoneAtReturn, NoLeak, GcHasOwner, deadlock freedom",
                        "negative_models_refuted": 1},
                "differences_by_kind": {}, "samples": diffs[:15]})
    json.dump(diffs, open(os.path.join(wd, "diffs.json"), "w"), indent=1)
    for d in diffs:
        k = d["what"] + " | " + d["case"]["abi"]
        out["differences_by_kind"][k] = out["differences_by_kind"].get(k, 0) + 1
    return diffs


def classify(b):
    ev, ph = b["ev"], b["phase"]
    if ev["ev"] == "Alloc":
        if b["nheap"] >= b["nplan"]:
            return "a buffer is allocated that the plan does not have"
        return "allocation differs from the plan (size/alignment/order): planned %s,%s" % (b["next"]["size"], b["next"]["align"])
    if ev["ev"] == "Wasm":
        if ev.get("nonnum"):
            return "the wasm export is called with a non-numeric argument (undefined/null)"
        if b["nheap"] < b["nplan"]:
            return "the wasm export is called before every planned buffer was made"
        return "the wasm export is not given the address of a buffer made for it"
    if ev["ev"] == "RegisterOpaque":
        return "an opaque that is not handed out as owned is registered for destruction (or registered twice / with another address)"
    if ev["ev"] == "Destroy":
        return "the destroy finalizer runs for an address that was not registered, or twice"
    if ev["ev"] == "MethodEnd":
        if ph != "marshal" and b["oreg"] != b["want_oreg"]:
            return "an owned opaque handed back to JS is not registered with its destroy finalizer (never destroyed)"
        if ph == "marshal":
            return "the method throws while marshalling its arguments (buffers made so far are never released)"
        if b["regs"] != b["want_regs"]:
            return "a borrowed parameter's buffers are not registered with a finalizer"
        if any(x[2] == "call" for x in b["live"]):
            return "a call-scoped buffer is still allocated when the method returns (leak)"
        return "method outcome (threw) differs"
    if ev["ev"] == "Free":
        return "free refused in phase %s (double free, wrong size/alignment, or a borrowed buffer freed early)" % ph
    if ev["ev"] == "Quiesce":
        return "buffers are still allocated after the result was dropped and every finalizer ran (leak)"
    if ev["ev"] == "FinalizerThrew":
        return "the finalizer registered for a borrowed parameter throws instead of freeing"
    if ev["ev"] == "GcProbe":
        return "a registered buffer is unreachable while the result is still held"
    return "event %s refused in phase %s" % (ev["ev"], ph)
