"""C05 — the lowering gate accepts exactly the documented shapes (spec/gate)."""
import json, os, random
import lib, profiles, render


STRAY = []      # contexts seen in a batch that belong to no case of it (filled by lower_batch, judged after isolation)


def lower_batch(cases, prof, urefs, wd, tag):
    """cases: list of (id, items_text, ctx). Runs the real lowering in-process on one module containing all
    of them and iterates (dropping rejected cases) so that validation-phase errors are seen as well.
    Returns {id: {"ok":bool, "errors":[...], "panic":str|None}}."""
    res = {}
    live = list(cases)
    rounds = 0
    while live and rounds < 6:
        rounds += 1
        src = render.bridge([c[1] for c in live])
        inp = os.path.join(wd, "lower_%s.ndjson" % tag)
        out = os.path.join(wd, "lower_%s.out.ndjson" % tag)
        lib.write_ndjson(inp, [{"id": tag, "src": src, "profile": prof, "urefs": urefs}])
        lib.dv(["lower", inp, out])
        r = lib.read_ndjson(out)[0]
        if r["panic"]:
            return None      # caller falls back to isolation
        if r["ok"]:
            for c in live:
                res[c[0]] = {"ok": True, "errors": [], "panic": None}
            return res
        by_ctx = {}
        for ctx, msg in r["errors"]:
            by_ctx.setdefault(ctx, []).append(msg)
        known = set(c[2] for c in live)
        stray = [k for k in by_ctx if k not in known]
        if stray:
            STRAY.append([(k, by_ctx[k]) for k in stray])
            return None      # an error outside every case's context: attribute by isolation
        nxt = []
        for c in live:
            if c[2] in by_ctx:
                res[c[0]] = {"ok": False, "errors": by_ctx[c[2]], "panic": None}
            else:
                nxt.append(c)
        if len(nxt) == len(live):
            return None
        live = nxt
    return res if not live else None


def lower_isolated(cases, prof, urefs, wd, tag):
    inp = os.path.join(wd, "iso_%s.ndjson" % tag)
    out = os.path.join(wd, "iso_%s.out.ndjson" % tag)
    lib.write_ndjson(inp, [{"id": c[0], "src": render.bridge([c[1]]), "profile": prof, "urefs": urefs} for c in cases])
    lib.dv(["lower", inp, out])
    res = {}
    for c, r in zip(cases, lib.read_ndjson(out)):
        res[c[0]] = {"ok": r["ok"], "errors": [m for _, m in r["errors"]], "ctxs": [x for x, _ in r["errors"]], "panic": r["panic"]}
    return res


def run(rep, tier):
    wd = rep.wd
    rep.rule = ("cases = every (position, type tree) of the Gate grammar (22 leaf kinds, ref/mutref/box/option(std|dipl)/result, "
                "8 positions) with verdict, demanded features and violated rule names computed by TLC; each is lowered by the "
                "real diplomat_core for all 7 probed backend profiles; non-trivial = distinct (position,type) whose verdict is "
                "reject, or accept with a demanded feature")
    rep.assumptions += ["programs rustc itself rejects syntactically (impl Trait in fields, nested callbacks) are outside the grammar",
                        "feature profiles are probed from the diplomat-tool binary built from the current tree"]
    # depth 2 in both tiers (19 s): depth 1 has no Option<&T> / Option<Box<T>> / DiplomatOption<&T> at all, and the coverage
    # measurement showed their error branches in lowering.rs unreached by the quick tier
    # thorough: depth 3 (one more wrapper around every depth-2 non-Result type: 40k cases)
    cfg = "gate2_emit.cfg" if tier == "quick" else "gate3_emit.cfg"
    r = lib.tlc("gate", "MC_Gate", cfg, workers=8, coverage=False)
    lib.tlc_expect_ok(r, "Gate: operational == declarative")
    rep.add_tlc("Gate", r)
    for neg in ("gate_neg1.cfg", "gate_neg2.cfg"):
        rn = lib.tlc("gate", "MC_Gate", neg, workers=4, coverage=False)
        lib.tlc_expect_violation(rn, "Gate " + neg, "Agree")
    rep.extra["negative_models_refuted"] = 2
    cases = r.printed["CASE"]
    rules_seen = set(x for c in cases for x in c["rules"])
    allrules = {"opaque", "box", "ref", "outstruct", "result", "option", "write", "unit", "zst", "ordering",
                "input_only_slices", "callback", "ffi_safe", "cb_refs", "self", "cb_lifetimes", "elision"}
    if rules_seen != allrules:
        raise lib.ToolError("rules never violated by any case (vacuous): %s" % (allrules - rules_seen))
    profs = profiles.profiles()
    rep.extra["profiles"] = {b: p["supports"] for b, p in profs.items()}
    # distinct feature projections: backends with the same gate-relevant features share lowering runs
    GATE_FEATURES = ["option", "callbacks", "traits", "static_slices"]
    groups = {}
    for b, p in profs.items():
        key = tuple(f in p["supports"] for f in GATE_FEATURES)
        groups.setdefault(key, []).append(b)
    rendered = []
    for n, c in enumerate(cases):
        items, ctx = render.gate_item(n, c["pos"], c["ty"])
        rendered.append((n, items, ctx))
    B = 150
    ncheck = 0
    for key, backs in groups.items():
        b0 = backs[0]
        prof = profs[b0]
        sup = set(prof["supports"])
        for urefs in (False, True):
            sel = [x for x in rendered if cases[x[0]]["urefs"] == urefs]
            # expected-accept and expected-reject cases are batched separately so that an accepted
            # batch is one lowering call; any surprise is re-run in isolation before it is reported
            exp = {x[0]: (cases[x[0]]["accept"] and set(cases[x[0]]["need"]) <= sup) for x in sel}
            for want in (True, False):
                grp = [x for x in sel if exp[x[0]] == want]
                for i in range(0, len(grp), B):
                    chunk = grp[i:i + B]
                    del STRAY[:]
                    got = lower_batch(chunk, prof, urefs, wd, "b")
                    if got is None:
                        got = lower_isolated(chunk, prof, urefs, wd, "b")
                        # context clause across items: the context of an error is a function of the offending item alone --
                        # a context that exists only when OTHER items are lowered before it names the wrong type or method
                        alone = set(cx for x in chunk for cx in got[x[0]].get("ctxs", []))
                        for grp_ in STRAY:
                            for cx, msgs in grp_:
                                if cx not in alone:
                                    owner = [x for x in chunk if x[2].split("::")[0] == cx.split("::")[0]]
                                    rep.violation({"what": "error context depends on the items lowered before", "ctx": cx,
                                                   "profile": sorted(set(GATE_FEATURES) & sup), "urefs": urefs},
                                                  {"context_in_batch": cx, "messages": msgs[:3], "contexts_in_isolation": sorted(alone)[:40],
                                                   "offending_item": owner[0][1] if owner else None,
                                                   "expected_ctx": owner[0][2] if owner else None})
                    sus = [x for x in chunk if got[x[0]]["ok"] != want]
                    ncheck += len(chunk)
                    if not sus:
                        # context clause: every reported error names the offending item
                        continue
                    iso = lower_isolated(sus, prof, urefs, wd, "s")
                    for x in sus:
                        g = iso[x[0]]
                        c = cases[x[0]]
                        if g["ok"] != want:
                            rep.violation({"pos": c["pos"], "ty": render.ty(c["ty"]), "expected_accept": want,
                                           "profile": sorted(set(GATE_FEATURES) & sup), "urefs": urefs},
                                          {"case": c, "backends": backs, "source": render.bridge([x[1]]), "observed": g})
            # error-context clause on the rejected cases of this group: in isolation the context is Type or Type::method
            rej = [x for x in sel if not exp[x[0]]]
            random.Random(lib.seed()).shuffle(rej)
            sample = rej[: (300 if tier == "quick" else 3000)]
            iso = lower_isolated(sample, prof, urefs, wd, "c")
            for x in sample:
                g = iso[x[0]]
                if g["panic"] or g["ok"]:
                    continue
                bad = [cx for cx in g["ctxs"] if cx != x[2] and cx != x[2].split("::")[0]]
                if bad:
                    c = cases[x[0]]
                    rep.violation({"pos": c["pos"], "ty": render.ty(c["ty"]), "what": "error context", "ctx": bad[0]},
                                  {"case": c, "expected_ctx": x[2], "observed": g, "source": render.bridge([x[1]])})
    # last clause of the statement (every bound implied by a used type is spelled out on the method): the bound half of
    # spec/life/Lifetimes.tla on signatures that use one bounded struct TWICE (a validation that looks at a type only once per
    # method, or only at its first use, shows here); the single-use signatures are C04's
    import c04
    eb = lib.tlc("life", "MC_Lifetimes", "bounds_2p.cfg", workers=2, coverage=False, heap="6g")
    lib.tlc_expect_ok(eb, "implied-bound emission")
    rep.add_tlc("Lifetimes/bounds_2p", eb)
    cb = c04.fix(eb.printed["CASE"])
    if tier == "quick":
        random.Random(lib.seed()).shuffle(cb)
        cb = [c for c in cb if not c["accepted"]][:1200] + [c for c in cb if c["accepted"]][:600]
    nb = c04.evaluate(rep, cb, ["a", "b"], wd)
    rep.extra["implied_bound_signatures"] = nb
    ncheck += nb
    # "no elided lifetimes in return types": also when only ONE lifetime of the type is elided and it is not the first (a named
    # lifetime argument in front of an elided borrow, an elided borrow in the Ok arm next to a named error type)
    ee = lib.tlc("life", "MC_Lifetimes", "elide.cfg", workers=2, coverage=False, heap="4g")
    lib.tlc_expect_ok(ee, "partly elided returns")
    rep.add_tlc("Lifetimes/elide", ee)
    ce = c04.fix(ee.printed["CASE"])
    if tier == "quick" and len(ce) > 6000:      # (the whole set is small: both tiers replay all of it)
        random.Random(lib.seed()).shuffle(ce)
        ce = ce[:6000]
    ne = c04.evaluate(rep, ce, ["a", "b"], wd)
    rep.extra["partly_elided_return_signatures"] = ne
    ncheck += ne
    for c in ce:
        if not c["accepted"]:
            rep.nontriv(c["sig"])
    for c in cb:
        if not c["accepted"]:
            rep.nontriv(c["sig"])
    rep.evaluations += ncheck
    rep.traces += ncheck
    for c in cases:
        if (not c["accept"]) or c["need"]:
            rep.nontriv({"pos": c["pos"], "ty": c["ty"], "u": c["urefs"]})
    rep.sample({"case": cases[len(cases) // 3], "rust": render.gate_item(0, cases[len(cases) // 3]["pos"], cases[len(cases) // 3]["ty"])[0]})
    rep.exhaustive = True
