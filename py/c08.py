"""C08 — JS bindings read and write structs with the wasm32 repr(C) layout (spec/abi/WasmAbi.tla)."""
import json, os, random, re, struct

# field names by position: not alphabetical (see abisig.FIELD_NAMES), no underscores (JS camel-cases field names)
FN = ["w", "c", "z", "a", "m", "b", "q", "d"]
import lib, abisig, callgen

STUB = r'''
const memory = new WebAssembly.Memory({ initial: 8 });
let bump = 0x4000;
export const calls = [];
const base = {
  memory,
  // (nothing allocated by one case is used by a later one: the bump pointer wraps long before the 512 KiB memory ends)
  diplomat_alloc(size, align) { calls.push(["diplomat_alloc", [size, align]]); if (bump > 0x60000) bump = 0x4000; bump = (bump + align - 1) & ~(align - 1); const p = bump; bump += Math.max(size, 1); return p; },
  diplomat_free(p, size, align) { calls.push(["diplomat_free", [p, size, align]]); },
};
export default new Proxy(base, { get(t, prop) { if (prop in t) return t[prop]; return (...args) => { calls.push([prop, args]);
  // a Result-returning export: the callee writes is_ok right after the payload (offset = size of the larger arm)
  if (/_res(ok|err)\d+$/.test(String(prop)) && typeof args[0] === "number") { const m = new Uint8Array(memory.buffer); m.fill(0, args[0], args[0] + globalThis.__flagOff + 1); m[args[0] + globalThis.__flagOff] = 1; }
  return 0; }; } });
'''

# one value per primitive: negative for the signed ones, top bit set for the unsigned ones (a wrong-signedness accessor shows)
PRIM_VALUE = {"u8": 0x92, "i8": -3, "u16": 0xBEEF, "i16": -2, "u32": 0x89ABCDEF, "i32": -5, "u64": 0xFEDCBA9876543210, "i64": -3,
              "usize": 0x89ABCDEF, "isize": -7, "f32": 1.5, "f64": -2.25, "bool": 1, "char": 0x1F600}
PRIM_FMT = {"u8": "<B", "i8": "<b", "u16": "<H", "i16": "<h", "u32": "<I", "i32": "<i", "u64": "<Q", "i64": "<q", "usize": "<I", "isize": "<i",
            "f32": "<f", "f64": "<d", "bool": "<B", "char": "<I"}
STRUCTS = {"S2": [{"k": "prim", "p": "u8"}, {"k": "prim", "p": "u16"}], "S3": [{"k": "prim", "p": "u32"}, {"k": "prim", "p": "u8"}, {"k": "prim", "p": "u16"}],
           "SW": [{"k": "prim", "p": "u8"}, {"k": "prim", "p": "i64"}], "N1": [{"k": "prim", "p": "u32"}]}
OUT_SUFFIX = [""]          # "o" while the out-struct twins of the cases are rendered (nested structs are out-structs there, too)
OPQ_PTR = 0x2000
# two enums take turns (by case number): En has gaps (JS keeps its singletons in an object keyed by discriminant), En2 has explicit
# gap-free discriminants that do not start at 0 (the contiguous fast path may only be taken for 0..n-1)
ENUMS = {"En": ("B", 5), "En2": ("Q", 2), "En-": ("C", -3), "En2+": ("R", 3)}
CUR_ENUM = ["En"]


def use_enum_of(n):
    """the enum and the variant used by case n: gapped 5, gap-free 2, NEGATIVE -3 (read back signed), gap-free last 3"""
    CUR_ENUM[0] = ["En", "En2", "En-", "En2+"][n % 4]


def rust_field(t):
    k = t["k"]
    if k == "prim":
        return abisig.PRIM_RUST[t["p"]]
    if k == "enum":
        return CUR_ENUM[0].rstrip("-+")
    if k == "opq":
        return "&'a Opq"
    if k == "slice":
        return "DiplomatSlice<'a, u8>"
    if k == "struct":
        return t["n"] + OUT_SUFFIX[0]
    if k == "opt":
        return "DiplomatOption<%s>" % rust_field(t["t"])
    raise ValueError(k)


def needs_lt(fields):
    return any(f["k"] in ("opq", "slice") or (f["k"] == "opt" and needs_lt([f["t"]])) for f in fields)


class Val:
    """walks a field type producing the JS literal, the leaf values (in Flat order) and comparable read-back values"""
    def __init__(self, rng):
        self.rng = rng

    def gen(self, t, zero=False):
        """returns (js literal, [leaf bytes or None]) ; leaf = (bytes|None).  zero: use 0 / false / 0n (a present-but-falsy value)"""
        k = t["k"]
        if k == "prim":
            p = t["p"]
            v = PRIM_VALUE[p]
            if zero:
                v = 0.0 if p in ("f32", "f64") else 0
                js = "0n" if p in ("i64", "u64") else ("false" if p == "bool" else "0")
                return js, [struct.pack(PRIM_FMT[p], v)]
            if p in ("i64", "u64"):
                js = "%dn" % v
            elif p == "bool":
                js = "true"
            else:
                js = repr(v)
            return js, [struct.pack(PRIM_FMT[p], v)]
        if k == "enum":
            return "%s.%s" % (CUR_ENUM[0].rstrip("-+"), ENUMS[CUR_ENUM[0]][0]), [struct.pack("<i", ENUMS[CUR_ENUM[0]][1])]
        if k == "opq":
            return "opq", [struct.pack("<I", OPQ_PTR)]
        if k == "slice":
            return "[1, 2, 3]", [PTRLEAF, struct.pack("<I", 3)]
        if k == "struct":
            parts, leaves = [], []
            for i, f in enumerate(STRUCTS[t["n"]]):
                js, lv = self.gen(f)
                parts.append("%s: %s" % (FN[i], js))
                leaves += lv
            return "{%s}" % ", ".join(parts), leaves
        if k == "opt":
            # Some(0) / Some(false) are present values: a binding that tests the payload for truthiness loses them
            js, lv = self.gen(t["t"], zero=(t["t"]["k"] == "prim" and self.rng.random() < 0.45))
            if self.rng.random() < 0.25:
                return "null", [None] * len(lv) + [b"\x00"]
            return js, lv + [b"\x01"]
        raise ValueError(k)


PTRLEAF = "allocator-chosen pointer"     # a leaf whose value is unspecified but must stay a readable address in a read-back image
PTR_OFFS = set()


def image(case, leaves):
    """expected byte image (list of int or None) of the struct"""
    size = case["layout"]["size"]
    img = [None] * size
    assert len(leaves) == len(case["flat"]), (len(leaves), len(case["flat"]))
    PTR_OFFS.clear()
    for lf, b in zip(case["flat"], leaves):
        if b is PTRLEAF:
            PTR_OFFS.update(range(lf["off"], lf["off"] + lf["bytes"]))
            continue
        if b is None:
            continue
        assert len(b) == lf["bytes"], (lf, b)
        for i, x in enumerate(b):
            img[lf["off"] + i] = x
    return img


def slot_expect(slots, img):
    """expected argument list: ('v', masked int, mask) | ('pad',) | ('any',)"""
    out = []
    for s in slots:
        if s["k"] == "pad":
            out.append(["pad"])
        elif s["k"] == "ptr":
            out.append(["ptr"])
        else:
            bs = img[s["off"]: s["off"] + s["bytes"]]
            val = sum((b or 0) << (8 * i) for i, b in enumerate(bs))
            mask = sum((0xFF if b is not None else 0) << (8 * i) for i, b in enumerate(bs))
            out.append(["v", val, mask, s["bytes"]])
    return out


def run(rep, tier):
    wd = rep.wd
    rep.rule = ("structs = every field sequence of length <=3 over 17 field types (8 primitives, enum, opaque pointer, slice, three nested "
                "structs, three DiplomatOption payloads) enumerated by TLC (quick: seeded subset; thorough: all + simulated length 4-5), x "
                "{struct, out-struct} x {legacy, spec}; the generated JS is executed in node against a stub wasm module: bytes written, "
                "values read back, receive-buffer size/alignment and the flattened argument list are compared with WasmAbi.tla; "
                "non-trivial = distinct structs containing padding or an option")
    rep.assumptions += ["no wasm32 target in this sandbox: the argument-flattening oracle is docs/wasm_abi_quirks.md as transcribed in WasmAbi.tla",
                        "layout oracle is Abi.Layout at 32-bit pointers (LayoutSane), cross-checked against host rustc with u32 substitutes",
                        "bytes of padding and of absent option payloads are unspecified"]
    cfg = "wasm3.cfg"
    r = lib.tlc("abi", "MC_WasmAbi", cfg, workers=8, coverage=False, timeout=600)
    lib.tlc_expect_ok(r, "WasmAbi")
    rep.add_tlc("WasmAbi", r)
    cases = r.printed["CASE"]
    rng = random.Random(lib.seed())
    rng.shuffle(cases)
    if tier == "quick":
        one = [c for c in cases if len(c["fields"]) == 1]         # every field type on its own: always
        small = [c for c in cases if len(c["fields"]) == 2]
        big = [c for c in cases if len(c["fields"]) == 3]
        cases = one + small[:220] + big[:250]
    else:
        rs = lib.tlc("abi", "MC_WasmAbi", "wasm_sim.cfg", workers=1, coverage=False, simulate=300, depth=8, timeout=600)
        more = [c for c in rs.printed.get("CASE", []) if len(c["fields"]) >= 4]
        rng.shuffle(more)
        # 23 field types: all 552 structs of <= 2 fields, a 5000-struct sample of the 12 167 with 3 fields, simulated longer ones
        short = [c for c in cases if len(c["fields"]) <= 2]
        three = [c for c in cases if len(c["fields"]) == 3]
        cases = short + three[:5000] + more[:1500]
    total = 0
    for abi in ("legacy", "spec"):
        total += run_abi(rep, tier, cases, abi, wd, rng)
    host_rustc_leg(rep, cases[:200], wd)
    rep.evaluations += total
    rep.traces += total
    rep.sample({"fields": cases[0]["fields"], "layout": cases[0]["layout"], "legacy_args": cases[0]["legacy"]})
    rep.exhaustive = False


def run_abi(rep, tier, cases, abi, wd, rng):
    vg = Val(random.Random(lib.seed()))
    items = ["    #[diplomat::opaque]\n    pub struct Opq(pub u8);\n    #[diplomat::opaque]\n    pub struct Host(pub u8);\n"
             "    pub enum En { A, B = 5, C = -3 }\n    pub enum En2 { P = 1, Q = 2, R = 3 }\n"]
    use_enum_of(0)
    for n, fs in STRUCTS.items():
        items.append("    pub struct %s {\n%s    }\n" % (n, "".join("        pub %s: %s,\n" % (FN[i], rust_field(f)) for i, f in enumerate(fs))))
    # out-struct twins of the nested structs (an out-struct may only contain out-structs that are out-structs themselves to
    # exercise the out-struct resolution paths)
    OUT_SUFFIX[0] = "o"
    for n, fs in STRUCTS.items():
        items.append("    #[diplomat::out]\n    pub struct %so {\n%s    }\n" % (n, "".join("        pub %s: %s,\n" % (FN[i], rust_field(f)) for i, f in enumerate(fs))))
    OUT_SUFFIX[0] = ""
    methods = []
    for n, c in enumerate(cases):
        use_enum_of(n)
        lt = "<'a>" if needs_lt(c["fields"]) else ""
        if not lt and not any(f["k"] == "opq" for f in c["fields"]):
            # the same fields as an OUT-struct, returned by giveo<n>
            OUT_SUFFIX[0] = "o"
            items.append("    #[diplomat::out]\n    pub struct O%d {\n%s    }\n" % (n, "".join("        pub %s: %s,\n" % (FN[i], rust_field(f)) for i, f in enumerate(c["fields"]))))
            OUT_SUFFIX[0] = ""
            methods.append("        pub fn giveo%d(&self) -> O%d { todo!() }\n" % (n, n))
            if n % 3 == 0:
                # an out-struct with a constructor of its own: values of it still have to be readable from memory (the generated class
                # routes its public constructor and the internal one through the same entry)
                items.append("    impl O%d {\n        #[diplomat::attr(auto, constructor)]\n        pub fn make() -> O%d { todo!() }\n    }\n" % (n, n))
        items.append("    pub struct W%d%s {\n%s    }\n" % (n, lt, "".join("        pub %s: %s,\n" % (FN[i], rust_field(f)) for i, f in enumerate(c["fields"]))))
        methods.append("        pub fn take%d%s(&self, s: W%d%s) {}\n" % (n, lt, n, lt))
        if not lt:
            methods.append("        pub fn give%d(&self) -> W%d { todo!() }\n" % (n, n))
            if not any(f["k"] == "opq" for f in c["fields"]):
                # the struct as the error (unit success) and as the success (unit error) of a Result: the receive buffer is the
                # larger arm plus the flag byte, whichever arm is the unit one
                methods.append("        pub fn reserr%d(&self) -> Result<(), W%d> { todo!() }\n        pub fn resok%d(&self) -> Result<W%d, ()> { todo!() }\n" % (n, n, n, n))
    src = ("#[diplomat::bridge]\nmod ffi {\n    use diplomat_runtime::{DiplomatOption, DiplomatSlice, DiplomatChar};\n" + "".join(items) +
           "    impl Host {\n" + "".join(methods) + "    }\n}\n")
    p = os.path.join(wd, "structs_%s.rs" % abi)
    open(p, "w").write(src)
    out = os.path.join(wd, "js_" + abi)
    t = lib.run_tool("js", p, out, config=["js.abi=" + abi], timeout=1800)
    if t["rc"] != 0:
        rep.violation({"abi": abi, "what": "js backend failed on the struct catalogue", "panic": (re.findall(r"panicked at [^\n]*\n([^\n]*)", t["stderr"]) or ["?"])[0][:120]},
                      {"stderr": t["stderr"][-2000:]})
        return 0
    open(os.path.join(out, "diplomat-wasm.mjs"), "w").write(STUB)
    lines = ['import wasm, { calls } from "./diplomat-wasm.mjs";', 'import * as rt from "./diplomat-runtime.mjs";',
             'import { Host } from "./Host.mjs";', 'import { Opq } from "./Opq.mjs";', 'import { En } from "./En.mjs";', 'import { En2 } from "./En2.mjs";']
    for n in range(len(cases)):
        lines.append('import { W%d } from "./W%d.mjs";' % (n, n))
    lines.append("const host = new Host(rt.internalConstructor, 0x100, []);\nconst opq = new Opq(rt.internalConstructor, %d, []);" % OPQ_PTR)
    lines.append("const J = (x) => JSON.stringify(x, (k, v) => typeof v === 'bigint' ? 'big:' + v.toString() : (v && v.ffiValue !== undefined ? 'ffi:' + v.ffiValue : v));")
    lines.append("function bytes(off, n) { return Array.from(new Uint8Array(wasm.memory.buffer, off, n)); }")
    lines.append("function fill(off, n, b) { new Uint8Array(wasm.memory.buffer, off, n).fill(b); }")
    lines.append("const anyMap = new Proxy({}, { get: () => [] });")
    expect = []
    for n, c in enumerate(cases):
        use_enum_of(n)
        parts, leaves = [], []
        for i, f in enumerate(c["fields"]):
            js, lv = vg.gen(f)
            parts.append("%s: %s" % (FN[i], js))
            leaves += lv
        img = image(c, leaves)
        expect.append({"img": img, "args": slot_expect(c["legacy"] if abi == "legacy" else c["spec"], img)})
        size = c["layout"]["size"]
        lit = "{%s}" % ", ".join(parts)
        # bytes the spec leaves unspecified (padding, the payload of an absent option) are GARBAGE in the image that is read back:
        # a binding that looks at them (a flag read inside the payload, a value read from padding) shows
        imghex = ",".join(str(b if b is not None else (0 if j in PTR_OFFS else 0xA5)) for j, b in enumerate(img))
        lines.append("try {")
        lines.append("  const v = %s; const out = {n: %d};" % (lit, n))
        lines.append("  { fill(0x1000, %d, 0xCD); const arena = new rt.CleanupArena(); W%d._fromSuppliedValue(rt.internalConstructor, v)._writeToArrayBuffer(wasm.memory.buffer, 0x1000, arena, anyMap); out.bytes = bytes(0x1000, %d); }" % (size + 16, n, size + 16))
        single = len(c["flat"]) == 1
        if not single:
            lines.append("  { new Uint8Array(wasm.memory.buffer, 0x1800, %d).set([%s]); const r = W%d._fromFFI(rt.internalConstructor, 0x1800, [], [], []); out.readback = J(r); out.fields = J(Object.fromEntries(%s.map(k => [k, r[k]]))); }" % (
            size, imghex, n, json.dumps([FN[i] for i in range(len(c["fields"]))])))
        lines.append("  try { calls.length = 0; host.take%d(new W%d(v)); const cl = calls.find(x => x[0] === 'Host_take%d'); out.take = J(cl ? cl[1] : null); out.take_mem = cl && cl[1].length == 2 && typeof cl[1][1] === 'number' ? (() => { try { return bytes(cl[1][1], %d); } catch (e) { return null; } })() : null; } catch (e) { out.take_error = String(e).slice(0, 200); }" % (n, n, n, size))
        if not needs_lt(c["fields"]):
            # returning the struct: receive buffer of the struct's size and alignment -- or, for a single scalar (incl. newtype
            # chains), no buffer at all and only the receiver as argument
            for fn in ["give"] + (["giveo"] if not any(f["k"] == "opq" for f in c["fields"]) else []):
                lines.append("  { calls.length = 0; try { host.%s%d(); } catch (e) { out.%s_threw = String(e).slice(0, 160); } const al = calls.find(x => x[0] === 'diplomat_alloc'); out.%s = al ? al[1] : null; "
                             "const cl = calls.find(x => x[0] === 'Host_%s%d'); out.%s_nargs = cl ? cl[1].length : -1; }" % (fn, n, fn, fn, fn, n, fn))
        if not needs_lt(c["fields"]) and not any(f["k"] == "opq" for f in c["fields"]):
            for fn in ("reserr", "resok"):
                lines.append("  { calls.length = 0; globalThis.__flagOff = %d; let threw = null; try { host.%s%d(); } catch (e) { threw = String(e).slice(0, 120); } "
                             "const al = calls.find(x => x[0] === 'diplomat_alloc'); out.%s = al ? al[1] : null; out.%s_threw = threw; }" % (size, fn, n, fn, fn))
        lines.append("  console.log(JSON.stringify(out));")
        lines.append("} catch (e) { console.log(JSON.stringify({n: %d, error: String(e && e.stack || e).slice(0, 400)})); }" % n)
    sp = os.path.join(out, "driver.mjs")
    open(sp, "w").write("\n".join(lines) + "\n")
    pr = lib.sh(["node", sp], timeout=600)
    res = {}
    for l in pr.stdout.splitlines():
        if l.startswith("{"):
            d = json.loads(l)
            res[d["n"]] = d
    if pr.returncode != 0 and not res:
        rep.violation({"abi": abi, "what": "generated JS fails to load in node"}, {"stderr": pr.stderr[-2500:]})
        return 0
    ncmp = 0
    for n, c in enumerate(cases):
        use_enum_of(n)
        d = res.get(n)
        ly = c["layout"]
        kinds = [f["k"] + ":" + str(f.get("p") or f.get("n") or (f.get("t") or {}).get("p") or (f.get("t") or {}).get("n") or "") for f in c["fields"]]
        key = {"abi": abi, "fields": " ".join(kinds)}
        if d is None or "error" in d:
            rep.violation(dict(key, what="generated JS throws"), {"error": d and d["error"]})
            continue
        img = expect[n]["img"]
        ncmp += 1
        if d.get("take_error"):
            rep.violation(dict(key, what="passing the struct to a method throws", error=d["take_error"].split("(")[0].strip()), {"error": d["take_error"]})
        # 1. bytes written == repr(C) image; nothing written past the struct
        got = d["bytes"]
        bad = [i for i, b in enumerate(img) if b is not None and got[i] != b]
        over = [i for i in range(ly["size"], ly["size"] + 16) if got[i] != 0xCD]
        if bad or over:
            rep.violation(dict(key, what="bytes written differ from the repr(C) layout"),
                          {"layout": ly, "expected": img, "written": got[:ly["size"]], "first_bad_offset": (bad or over)[0], "beyond_struct": over})
        # 2. read back
        fields = json.loads(d["fields"]) if "fields" in d else {}
        for i, f in enumerate(c["fields"]):
            if "fields" not in d:
                break
            exp = readback_expect(f, vg, img, c, i)
            if exp is not None and not same_value(fields.get(FN[i]), exp):
                rep.violation(dict(key, what="value read back from memory differs", field=i), {"layout": ly, "expected": exp, "read": fields.get(FN[i])})
        # 3. receive buffer
        single = len(c["flat"]) == 1
        for fn in ("give", "giveo"):
            if d.get(fn + "_threw"):
                rep.violation(dict(key, what="reading the returned struct back from memory throws", flavour="out-struct" if fn == "giveo" else "struct",
                                   error=d[fn + "_threw"].split(":")[0]), {"error": d[fn + "_threw"]})
            if fn not in d:
                continue
            want = None if single else [ly["size"], ly["align"]]
            if d[fn] != want or d.get(fn + "_nargs") != (1 if single else 2):
                rep.violation(dict(key, what="receive buffer size/alignment differ" if not single else "a single-scalar struct is returned through a receive buffer",
                                   flavour="out-struct" if fn == "giveo" else "struct"),
                              {"expected": want, "observed": d[fn], "arguments_passed": d.get(fn + "_nargs"), "expected_arguments": 1 if single else 2})
        # 3b. the struct as an arm of a Result: buffer = payload + flag byte, aligned like the payload; the flag (written by the stub
        # right after the payload) must be found, i.e. the Ok arm is taken and nothing throws
        for fn in ("reserr", "resok"):
            if fn in d and (d[fn] != [ly["size"] + 1, ly["align"]] or d.get(fn + "_threw")):
                rep.violation(dict(key, what="receive buffer of a Result with this struct as %s arm differs" % ("error" if fn == "reserr" else "success")),
                              {"expected": [ly["size"] + 1, ly["align"]], "observed": d[fn], "threw": d.get(fn + "_threw")})
        # 4. flattened arguments
        take = json.loads(d["take"]) if d.get("take") else None
        if take is None:
            if not d.get("take_error"):      # (a throwing call is reported above, once)
                rep.violation(dict(key, what="struct parameter: export not called"), {})
            continue
        args = take[1:]
        exp = expect[n]["args"]
        ok = len(args) == len(exp)
        why = "argument count %d, expected %d" % (len(args), len(exp))
        if ok:
            for a, e in zip(args, exp):
                num = None
                if isinstance(a, str) and a.startswith("big:"):
                    num = int(a[4:])
                elif isinstance(a, bool):
                    num = int(a)
                elif isinstance(a, str) and a.startswith("ffi:"):
                    num = int(a[4:])
                elif isinstance(a, (int, float)):
                    num = a
                if e[0] == "pad":
                    if num != 0:
                        ok, why = False, "padding slot carries %r" % (a,)
                elif e[0] == "ptr":
                    mem = d.get("take_mem")
                    if mem is None or any(b is not None and mem[i] != b for i, b in enumerate(img)):
                        ok, why = False, "memory behind the pointer argument differs from the struct image"
                else:
                    _, val, mask, nb = e
                    if mask == 0:
                        continue
                    if isinstance(num, float) and not float(num).is_integer():
                        bits = struct.unpack("<I", struct.pack("<f", num))[0] if nb == 4 else struct.unpack("<Q", struct.pack("<d", num))[0]
                    elif num is None:
                        ok, why = False, "unrecognised argument %r" % (a,)
                        break
                    else:
                        bits = int(num) & ((1 << (8 * nb)) - 1)
                        # floats that happen to be integral
                        if (val & mask) != (bits & mask):
                            fb = struct.unpack("<I", struct.pack("<f", float(num)))[0] if nb == 4 else struct.unpack("<Q", struct.pack("<d", float(num)))[0]
                            if (fb & mask) == (val & mask):
                                bits = fb
                    if (bits & mask) != (val & mask):
                        ok, why = False, "slot value %r, expected 0x%x (mask 0x%x)" % (a, val, mask)
                if not ok:
                    break
        if not ok:
            rep.violation(dict(key, what="flattened argument list differs from the documented wasm ABI"),
                          {"why": why, "layout": ly, "expected_slots": c["legacy"] if abi == "legacy" else c["spec"], "observed_args": args})
        if any(b is None for b in img):
            rep.nontriv("%s|%s" % (abi, json.dumps(c["fields"], sort_keys=True)))
    return ncmp


def readback_expect(f, vg, img, c, i):
    k = f["k"]
    if k == "prim":
        v = PRIM_VALUE[f["p"]]
        if f["p"] in ("i64", "u64"):
            return "big:%d" % v
        if f["p"] == "bool":
            return True
        return v
    if k == "enum":
        return "ffi:%d" % ENUMS[CUR_ENUM[0]][1]
    if k == "opt":
        # which arm was written: the flag is the last leaf of this field
        fo = c["layout"]["offsets"][i]
        nxt = c["layout"]["offsets"][i + 1] if i + 1 < len(c["fields"]) else c["layout"]["size"]
        flag = max(lf["off"] for lf in c["flat"] if fo <= lf["off"] < nxt)
        if img[flag] != 1:
            return ("opt", False, None)
        inner = f["t"]
        if inner["k"] == "prim":
            p = inner["p"]
            raw = bytes(img[fo: fo + struct.calcsize(PRIM_FMT[p])])
            v = struct.unpack(PRIM_FMT[p], raw)[0]
            return ("opt", True, ("big:%d" % v) if p in ("i64", "u64") else (bool(v) if p == "bool" else v))
        return ("opt", True, None)
    return None      # nested values are covered by the byte image and by their own single-field cases


def same_value(got, exp):
    if isinstance(exp, tuple):
        # an optional field: null exactly when the None arm was written; a present primitive has its value (also 0 / false)
        _, some, v = exp
        if not some:
            return got is None
        if got is None:
            return False
        return True if v is None else same_value(got, v)
    if isinstance(exp, float):
        return isinstance(got, (int, float)) and abs(got - exp) < 1e-6
    return got == exp


def host_rustc_leg(rep, cases, wd):
    """bind the layout part of the spec to rustc: the same structs with pointer-sized fields replaced by u32 on the host"""
    def rf(t):
        k = t["k"]
        if k == "prim":
            return {"char": "u32", "usize": "u32", "isize": "i32"}.get(t["p"], abisig.PRIM_RUST[t["p"]])
        if k == "enum":
            return "i32"
        if k == "opq":
            return "u32"
        if k == "slice":
            return "V"
        if k == "struct":
            return t["n"]
        if k == "opt":
            return "O<%s>" % rf(t["t"])
    src = ["#![allow(dead_code)]\n#[repr(C)] struct V { p: u32, l: u32 }\n#[repr(C)] union U<T: Copy> { ok: T, none: () }\n"
           "#[repr(C)] struct O<T: Copy> { v: U<T>, is_ok: bool }\n"]
    for n, fs in STRUCTS.items():
        src.append("#[repr(C)] #[derive(Clone, Copy)] struct %s { %s }\n" % (n, ", ".join("%s: %s" % (FN[i], rf(f)) for i, f in enumerate(fs))))
    src.append("impl Clone for V { fn clone(&self) -> Self { V { p: self.p, l: self.l } } }\nimpl Copy for V {}\n")
    body = []
    for n, c in enumerate(cases):
        src.append("#[repr(C)] struct W%d { %s }\n" % (n, ", ".join("%s: %s" % (FN[i], rf(f)) for i, f in enumerate(c["fields"]))))
        offs = ", ".join("std::mem::offset_of!(W%d, %s)" % (n, FN[i]) for i in range(len(c["fields"])))
        body.append('    println!("{{\\"n\\":%d,\\"size\\":{},\\"align\\":{},\\"offsets\\":{:?}}}", std::mem::size_of::<W%d>(), std::mem::align_of::<W%d>(), [%s]);'
                    % (n, n, n, offs))
    src.append("fn main() {\n" + "\n".join(body) + "\n}\n")
    p = os.path.join(wd, "host_layout.rs")
    open(p, "w").write("".join(src))
    exe = os.path.join(wd, "host_layout")
    cc = lib.sh(["rustc", "--edition", "2021", "-O", p, "-o", exe], timeout=600)
    if cc.returncode != 0:
        raise lib.ToolError("host layout program does not compile:\n" + cc.stderr[-2000:])
    pr = lib.sh([exe], timeout=60)
    got = {}
    for l in pr.stdout.splitlines():
        d = json.loads(l)
        got[d["n"]] = d
    for n, c in enumerate(cases):
        ly = c["layout"]
        g = got[n]
        if [g["size"], g["align"], g["offsets"]] != [ly["size"], ly["align"], ly["offsets"]]:
            raise lib.ToolError("SPEC/ORACLE MISMATCH: Layout32 of %s is %s but rustc says %s" % (c["fields"], ly, g))
    rep.extra["layouts_cross_checked_with_rustc"] = len(cases)
