"""C10 — Option and Result use one consistent wire encoding everywhere (spec/abi/Abi.tla invariants + CallProtocol)."""
import copy, json, os, re
import lib, abisig, callgen, c01


def flip(sig):
    """the same signature with every option spelled the other way (None if there is no non-pointer option)"""
    s = copy.deepcopy(sig)
    found = [False]

    def f(t):
        if t["k"] == "opt":
            t["s"] = "dipl" if t["s"] == "std" else "std"
            found[0] = True
        if t["k"] == "res":
            f(t["ok"]); f(t["err"])
    for p in s["params"]:
        f(p)
    f(s["ret"])
    return s if found[0] else None


def run(rep, tier):
    wd = rep.wd
    rep.rule = ("cases = every Option payload (14 primitives, enum, 3 structs, unit) in parameter and return position in BOTH spellings, "
                "optional pointers, every Result arm combination incl. unit arms, options inside struct fields; each pair of spellings "
                "must have identical C declarations and identical behaviour for identical values (both arms); non-trivial = distinct "
                "(signature, value vector)")
    rep.assumptions += ["x86-64 SysV, gcc 12; rides on the C01 harness"]
    r = lib.tlc("abi", "MC_Abi", "abi_optenc.cfg", workers=4, coverage=False)
    lib.tlc_expect_ok(r, "Abi option/result encoding invariants")
    rep.add_tlc("Abi/optenc", r)
    rn = lib.tlc("abi", "MC_Abi", "abi_neg.cfg", workers=4, coverage=False)
    lib.tlc_expect_violation(rn, "flag-first option encoding", "FlagLast")
    rep.extra["negative_models_refuted"] = 1
    cov = lib.tlc("abi", "MC_Abi", "abi_cover.cfg", workers=4, coverage=False)
    defs = cov.printed["DEFS"][0]
    cases = r.printed["CASE"]
    by_sig = {json.dumps(c["sig"], sort_keys=True): c for c in cases}
    # value vectors: pairs share the SAME abstract values, so any difference is due to the spelling
    g = callgen.Gen(defs, lib.seed())
    entries, pairs = [], []
    n = 0
    for c in cases:
        sig = c["sig"]
        alt = flip(sig)
        partner = by_sig.get(json.dumps(alt, sort_keys=True)) if alt else None
        if alt and sig["params"] and sig["params"][0]["k"] == "opt" and sig["params"][0]["s"] == "dipl":
            continue   # handled from the std side
        if alt and sig["ret"]["k"] == "opt" and sig["ret"]["s"] == "dipl":
            continue
        for vec in range(3 if tier == "quick" else 8):
            args = {"self": None, "params": [g.value(p, "param") for p in sig["params"]]}
            retv = g.value(sig["ret"], "ret")
            if vec < 2 and sig["ret"]["k"] in ("opt", "res"):      # both arms at least once
                for _ in range(50):
                    retv = g.value(sig["ret"], "ret")
                    arm = ("none" in retv) if sig["ret"]["k"] == "opt" else ("err" in retv)
                    if arm == bool(vec):
                        break
            if vec < 2 and sig["params"] and sig["params"][0]["k"] in ("opt", "optopq"):
                for _ in range(50):
                    v = g.value(sig["params"][0], "param")
                    absent = (v is None) if sig["params"][0]["k"] == "optopq" else ("none" in v)
                    if absent == bool(vec):
                        args["params"][0] = v
                        break
            e1 = {"n": n, "sig": sig, "shape": c["shape"], "lay": c["lay"], "args": args, "retv": retv, "write": None}
            entries.append(e1)
            n += 1
            if partner:
                e2 = {"n": n, "sig": partner["sig"], "shape": partner["shape"], "lay": partner["lay"], "args": args, "retv": retv, "write": None}
                entries.append(e2)
                pairs.append((e1, e2))
                n += 1
    events, syms = c01.build_and_run(rep, "optenc", defs, entries, wd)
    if events is None:
        return
    ncmp = c01.check_events(rep, g, entries, events, leg="c10")
    c01.validate_protocol(rep, events, wd, "optenc")
    # (i) identical declarations for the two spellings
    protos = c01.parse_protos(os.path.join(wd, "c_optenc"))
    hdr = open(os.path.join(wd, "c_optenc", "Host.h")).read()
    by_f = {}
    for ev in events:
        by_f.setdefault(ev["f"], {})[ev["ev"]] = ev["v"]
    for e1, e2 in pairs:
        s1, s2 = syms[e1["n"]], syms[e2["n"]]
        if protos.get(s1) != protos.get(s2):
            # per-method result typedefs carry the method's name: normalise it
            norm = lambda p, s: json.dumps(p).replace(s, "F")
            if norm(protos.get(s1), s1) != norm(protos.get(s2), s2):
                rep.violation({"what": "declarations differ between spellings", "ret": e1["sig"]["ret"]["k"]},
                              {"std": protos.get(s1), "dipl": protos.get(s2), "sig": e1["sig"]})
            else:
                d1 = re.search(r'typedef struct %s_result (\{.*?\}) %s_result;' % (s1, s1), hdr)
                d2 = re.search(r'typedef struct %s_result (\{.*?\}) %s_result;' % (s2, s2), hdr)
                if (d1 and d1.group(1)) != (d2 and d2.group(1)):
                    rep.violation({"what": "result typedefs differ between spellings"}, {"std": d1 and d1.group(1), "dipl": d2 and d2.group(1)})
        a, b = by_f.get("f%d" % e1["n"], {}), by_f.get("f%d" % e2["n"], {})
        for k in ("CCall", "RustEnter", "RustReturn", "CReturn"):
            if c01.norm_ptr(a.get(k, "?")) != c01.norm_ptr(b.get(k, "!")):
                rep.violation({"what": "behaviour differs between spellings", "event": k}, {"sig": e1["sig"], "std": a, "dipl": b})
        ncmp += 1
    # (iii) the C++ wrapper decodes the same records: the same entries through the generated C++ API (std::optional /
    # diplomat::result arms, unit payloads as std::monostate) -- tool/src/cpp/ty.rs is one of the property's anchors
    import c02
    cpp_entries = [e for e in entries if c02.usable(e["sig"])]
    res = c02.build_and_run_cpp(rep, "optenc", defs, cpp_entries, wd, stds=("c++17",) if tier == "quick" else ("c++17", "c++20"))
    for std, evs in res.items():
        ncmp += c02.check_events_cpp(rep, g, cpp_entries, evs, std)
    rep.extra["cpp_entries"] = len(cpp_entries)
    rep.extra["spelling_pairs"] = len(pairs)
    rep.evaluations += ncmp
    rep.traces += ncmp
    rep.sample({"pair": [pairs[0][0]["sig"], pairs[0][1]["sig"]], "args": pairs[0][0]["args"], "ret": pairs[0][0]["retv"]})
    rep.exhaustive = True
