"""C10 — Option and Result use one consistent wire encoding everywhere (spec/abi/Abi.tla invariants + CallProtocol)."""
import copy, json, os, re
import lib, abisig, callgen, c01


def flip(sig):
    """the same signature with every option spelled the other way (None if there is no non-pointer option)"""
    s = copy.deepcopy(sig)
    found = [False]

    def f(t):
        if t["k"] == "opt":
            t["s"] = "dipl" if t["s"] == "std" else "std"
            found[0] = True
        if t["k"] == "res":
            f(t["ok"]); f(t["err"])
    for p in s["params"]:
        f(p)
    f(s["ret"])
    return s if found[0] else None


JS_OPT_LIB = r"""
#[diplomat::bridge]
mod ffi {
    use diplomat_runtime::{DiplomatOption, DiplomatChar};
    #[diplomat::opaque]
    pub struct Host(u8);
    impl Host {
%s
    }
}
"""
JS_OPT_PRIMS = [("u8", "7", "0"), ("i32", "-5", "0"), ("u16", "513", "0"), ("f64", "2.5", "0"), ("f32", "1.5", "0"), ("bool", "true", "false"), ("i8", "-1", "0"), ("u32", "9", "0"),
                ("u64", "9n", "0n"), ("i64", "-3n", "0n"), ("isize", "-2", "0"), ("char", "0x1F600", "0")]


def js_option_args_leg(rep, wd):
    """is_ok true EXACTLY for Some, seen from the JS caller (legacy wasm ABI, the default: an Option<primitive> argument is flattened
    to (payload, is_ok) by the runtime's optionToArgsForCalling).  Present values -- also 0 and false -- must arrive with is_ok = 1 and
    the payload; every way JS has of saying "absent" (null, undefined, the argument left out) with is_ok = 0; the std and the
    DiplomatOption spelling of the same parameter must pass identical arguments."""
    import c08
    ms = []
    for i, (pt, _, _) in enumerate(JS_OPT_PRIMS):
        ms.append("        pub fn std%d(&self, v: Option<%s>) {}" % (i, abisig.PRIM_RUST[pt]))
        ms.append("        pub fn dip%d(&self, v: DiplomatOption<%s>) {}" % (i, abisig.PRIM_RUST[pt]))
    src = os.path.join(wd, "jsopt.rs")
    open(src, "w").write(JS_OPT_LIB % "\n".join(ms))
    out = os.path.join(wd, "js_optargs")
    t = lib.run_tool("js", src, out, timeout=600)
    if t["rc"] != 0:
        rep.violation({"leg": "js-option-args", "what": "js backend failed"}, {"stderr": t["stderr"][-1500:]})
        return
    open(os.path.join(out, "diplomat-wasm.mjs"), "w").write(c08.STUB)
    lines = ['import wasm, { calls } from "./diplomat-wasm.mjs";', 'import * as rt from "./diplomat-runtime.mjs";', 'import { Host } from "./Host.mjs";',
             "const host = new Host(rt.internalConstructor, 0x100, []);",
             "function run(name, sym, how, f) { calls.length = 0; let threw = null; try { f(); } catch (e) { threw = String(e).slice(0, 120); } "
             "const cl = calls.find(x => x[0] === sym); console.log(JSON.stringify({m: name, how, threw, args: cl ? cl[1].map(a => typeof a === 'bigint' ? Number(a) : a) : null})); }"]
    expect = {}
    for i, (pt, some, zero) in enumerate(JS_OPT_PRIMS):
        for sp in ("std", "dip"):
            m = "%s%d" % (sp, i)
            sym = "Host_%s" % m
            for how, arg, present, val in (("some", some, 1, some), ("zero", zero, 1, zero), ("null", "null", 0, None), ("undefined", "undefined", 0, None), ("omitted", "", 0, None)):
                lines.append("run(%s, %s, %s, () => host.%s(%s));" % (json.dumps(m), json.dumps(sym), json.dumps(how), m, arg))
                expect[(m, how)] = (present, val, pt)
    drv = os.path.join(out, "optdriver.mjs")
    open(drv, "w").write("\n".join(lines) + "\n")
    pr = lib.sh(["node", drv], timeout=300)
    rows = [json.loads(l) for l in pr.stdout.splitlines() if l.startswith("{")]
    if len(rows) != len(expect):
        rep.violation({"leg": "js-option-args", "what": "generated JS fails to run in node"}, {"stderr": pr.stderr[-2000:], "rows": len(rows)})
        return
    seen = {}
    for r in rows:
        present, val, pt = expect[(r["m"], r["how"])]
        key = {"leg": "js-option-args", "prim": pt, "spelling": r["m"][:3], "argument": r["how"]}
        a = r["args"]
        # receiver, payload, is_ok, then the legacy ABI's padding slots (one per padding byte after the flag: docs/wasm_abi_quirks.md)
        if r["threw"] or a is None or len(a) < 3 or any(x != 0 for x in a[3:]):
            rep.violation(dict(key, what="call throws, passes too few arguments or non-zero padding"), r)
            continue
        flag = a[2]
        if bool(flag) != bool(present):
            rep.violation(dict(key, what="is_ok is %s for %s argument" % (flag, "a present" if present else "an absent")), r)
        elif present:
            # the legacy ABI passes the payload of a flattened option as the integer holding its bytes (the option is a union)
            import struct
            if pt == "bool":
                want = 1 if val == "true" else 0
            elif pt == "f32":
                want = struct.unpack("<I", struct.pack("<f", float(val)))[0]
            elif pt == "f64":
                want = struct.unpack("<Q", struct.pack("<d", float(val)))[0]
            else:
                want = int(val.rstrip("n"), 0) % (1 << (8 * {"u8": 1, "i8": 1, "u16": 2, "u64": 8, "i64": 8}.get(pt, 4)))
            got = float(a[1])
            if got != float(want):
                rep.violation(dict(key, what="payload of a present option differs"), dict(r, expected=want))
        seen[(r["m"][3:], r["how"], r["m"][:3])] = a if present else [len(a)] + a[2:]
    for (i, how, sp), a in seen.items():
        if sp == "std" and seen.get((i, how, "dip")) != a:
            rep.violation({"leg": "js-option-args", "what": "arguments differ between spellings", "argument": how, "prim": JS_OPT_PRIMS[int(i)][0]},
                          {"std": a, "dipl": seen.get((i, how, "dip"))})
    rep.evaluations += len(rows)
    rep.extra["js_option_argument_calls"] = len(rows)


def run(rep, tier):
    wd = rep.wd
    rep.rule = ("cases = every Option payload (14 primitives, enum, 3 structs, unit) in parameter and return position in BOTH spellings, "
                "optional pointers, every Result arm combination incl. unit arms, options inside struct fields; each pair of spellings "
                "must have identical C declarations and identical behaviour for identical values (both arms); non-trivial = distinct "
                "(signature, value vector)")
    rep.assumptions += ["x86-64 SysV, gcc 12; rides on the C01 harness"]
    r = lib.tlc("abi", "MC_Abi", "abi_optenc.cfg", workers=4, coverage=False)
    lib.tlc_expect_ok(r, "Abi option/result encoding invariants")
    rep.add_tlc("Abi/optenc", r)
    rn = lib.tlc("abi", "MC_Abi", "abi_neg.cfg", workers=4, coverage=False)
    lib.tlc_expect_violation(rn, "flag-first option encoding", "FlagLast")
    rep.extra["negative_models_refuted"] = 1
    cov = lib.tlc("abi", "MC_Abi", "abi_cover.cfg", workers=4, coverage=False)
    defs = cov.printed["DEFS"][0]
    cases = r.printed["CASE"]
    by_sig = {json.dumps(c["sig"], sort_keys=True): c for c in cases}
    # value vectors: pairs share the SAME abstract values, so any difference is due to the spelling
    g = callgen.Gen(defs, lib.seed())
    entries, pairs = [], []
    n = 0
    for c in cases:
        sig = c["sig"]
        alt = flip(sig)
        partner = by_sig.get(json.dumps(alt, sort_keys=True)) if alt else None
        if alt and sig["params"] and sig["params"][0]["k"] == "opt" and sig["params"][0]["s"] == "dipl":
            continue   # handled from the std side
        if alt and sig["ret"]["k"] == "opt" and sig["ret"]["s"] == "dipl":
            continue
        for vec in range(3 if tier == "quick" else 8):
            args = {"self": None, "params": [g.value(p, "param") for p in sig["params"]]}
            retv = g.value(sig["ret"], "ret")
            if vec < 2 and sig["ret"]["k"] in ("opt", "res"):      # both arms at least once
                for _ in range(50):
                    retv = g.value(sig["ret"], "ret")
                    arm = ("none" in retv) if sig["ret"]["k"] == "opt" else ("err" in retv)
                    if arm == bool(vec):
                        break
            if vec < 2 and sig["params"] and sig["params"][0]["k"] in ("opt", "optopq"):
                for _ in range(50):
                    v = g.value(sig["params"][0], "param")
                    absent = (v is None) if sig["params"][0]["k"] == "optopq" else ("none" in v)
                    if absent == bool(vec):
                        args["params"][0] = v
                        break
            e1 = {"n": n, "sig": sig, "shape": c["shape"], "lay": c["lay"], "args": args, "retv": retv, "write": None}
            entries.append(e1)
            n += 1
            if partner:
                e2 = {"n": n, "sig": partner["sig"], "shape": partner["shape"], "lay": partner["lay"], "args": args, "retv": retv, "write": None}
                entries.append(e2)
                pairs.append((e1, e2))
                n += 1
    events, syms = c01.build_and_run(rep, "optenc", defs, entries, wd)
    if events is None:
        return
    ncmp = c01.check_events(rep, g, entries, events, leg="c10")
    c01.validate_protocol(rep, events, wd, "optenc")
    # (i) identical declarations for the two spellings
    protos = c01.parse_protos(os.path.join(wd, "c_optenc"))
    hdr = open(os.path.join(wd, "c_optenc", "Host.h")).read()
    by_f = {}
    for ev in events:
        by_f.setdefault(ev["f"], {})[ev["ev"]] = ev["v"]
    for e1, e2 in pairs:
        s1, s2 = syms[e1["n"]], syms[e2["n"]]
        if protos.get(s1) != protos.get(s2):
            # per-method result typedefs carry the method's name: normalise it
            norm = lambda p, s: json.dumps(p).replace(s, "F")
            if norm(protos.get(s1), s1) != norm(protos.get(s2), s2):
                rep.violation({"what": "declarations differ between spellings", "ret": e1["sig"]["ret"]["k"]},
                              {"std": protos.get(s1), "dipl": protos.get(s2), "sig": e1["sig"]})
            else:
                d1 = re.search(r'typedef struct %s_result (\{.*?\}) %s_result;' % (s1, s1), hdr)
                d2 = re.search(r'typedef struct %s_result (\{.*?\}) %s_result;' % (s2, s2), hdr)
                if (d1 and d1.group(1)) != (d2 and d2.group(1)):
                    rep.violation({"what": "result typedefs differ between spellings"}, {"std": d1 and d1.group(1), "dipl": d2 and d2.group(1)})
        a, b = by_f.get("f%d" % e1["n"], {}), by_f.get("f%d" % e2["n"], {})
        for k in ("CCall", "RustEnter", "RustReturn", "CReturn"):
            if c01.norm_ptr(a.get(k, "?")) != c01.norm_ptr(b.get(k, "!")):
                rep.violation({"what": "behaviour differs between spellings", "event": k}, {"sig": e1["sig"], "std": a, "dipl": b})
        ncmp += 1
    # (iii) the C++ wrapper decodes the same records: the same entries through the generated C++ API (std::optional /
    # diplomat::result arms, unit payloads as std::monostate) -- tool/src/cpp/ty.rs is one of the property's anchors
    import c02
    cpp_entries = [e for e in entries if c02.usable(e["sig"])]
    res = c02.build_and_run_cpp(rep, "optenc", defs, cpp_entries, wd, stds=("c++17",) if tier == "quick" else ("c++17", "c++20"))
    for std, evs in res.items():
        ncmp += c02.check_events_cpp(rep, g, cpp_entries, evs, std)
    rep.extra["cpp_entries"] = len(cpp_entries)
    js_option_args_leg(rep, wd)
    rep.extra["spelling_pairs"] = len(pairs)
    rep.evaluations += ncmp
    rep.traces += ncmp
    rep.sample({"pair": [pairs[0][0]["sig"], pairs[0][1]["sig"]], "args": pairs[0][0]["args"], "ret": pairs[0][0]["retv"]})
    rep.exhaustive = True
