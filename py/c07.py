"""C07 — Dart (dart:ffi) and Kotlin (JNA) native declarations match the C ABI (spec/abi/Abi.tla)."""
import json, os, random, re
import lib, abisig

# ------------------------------------------------------------------------------------------------ Dart
DART_SCALAR = {
    "ffi.Uint8": ("int", 8, False), "ffi.Uint16": ("int", 16, False), "ffi.Uint32": ("int", 32, False), "ffi.Uint64": ("int", 64, False),
    "ffi.Int8": ("int", 8, True), "ffi.Int16": ("int", 16, True), "ffi.Int32": ("int", 32, True), "ffi.Int64": ("int", 64, True),
}


def dart_classes(outdir):
    """{class name: ("struct"|"union", [(native type spelling, field name)])} from all generated .g.dart files"""
    classes = {}
    for f in sorted(os.listdir(outdir)):
        if not f.endswith(".dart"):
            continue
        t = open(os.path.join(outdir, f)).read()
        for m in re.finditer(r'final class (\w+) extends ffi\.(Struct|Union) \{(.*?)\n\}', t, re.S):
            name, kind, body = m.group(1), m.group(2).lower(), m.group(3)
            fields = []
            ann = None
            for line in body.splitlines():
                line = line.strip()
                a = re.match(r'@(ffi\.\w+)\(\)$', line)
                if a:
                    ann = a.group(1)
                    continue
                e = re.match(r'external (.+?) (\w+);$', line)
                if e:
                    fields.append((ann if ann else e.group(1), e.group(2)))
                    ann = None
            classes[name] = (kind, fields)
    return classes


def dart_shape(sp, classes, depth=0):
    sp = sp.strip()
    if sp in DART_SCALAR:
        k, b, s = DART_SCALAR[sp]
        return {"s": "int", "bits": b, "signed": s}
    if sp == "ffi.Float":
        return {"s": "float", "bits": 32}
    if sp == "ffi.Double":
        return {"s": "float", "bits": 64}
    if sp == "ffi.Bool":
        return {"s": "bool"}
    if sp == "ffi.Size":
        return {"s": "size", "signed": False}
    if sp == "ffi.IntPtr":
        return {"s": "size", "signed": True}
    if sp == "ffi.Void":
        return {"s": "void"}
    if sp.startswith("ffi.Pointer<"):
        return {"s": "ptr"}
    if sp in classes and depth < 12:
        kind, fields = classes[sp]
        return {"s": kind, "fields": [dart_shape(t, classes, depth + 1) for t, _ in fields]}
    return {"s": "unknown", "spelling": sp}


def split_args(s):
    out, cur, d = [], "", 0
    for ch in s:
        if ch in "<(":
            d += 1
        elif ch in ">)":
            d -= 1
        if ch == "," and d == 0:
            out.append(cur.strip())
            cur = ""
        else:
            cur += ch
    if cur.strip():
        out.append(cur.strip())
    return out


def dart_functions(outdir):
    """{symbol: (ret spelling, [param spellings])}"""
    fns = {}
    for f in sorted(os.listdir(outdir)):
        if not f.endswith(".dart"):
            continue
        t = open(os.path.join(outdir, f)).read()
        for m in re.finditer(r"@ffi\.Native<(.+?) Function\((.*?)\)>\(isLeaf: true, symbol: '(\w+)'\)", t):
            fns[m.group(3)] = (m.group(1), split_args(m.group(2)))
    return fns


# ------------------------------------------------------------------------------------------------ Kotlin
KT_SCALAR = {"Byte": ("int", 8, True), "Short": ("int", 16, True), "Int": ("int", 32, True), "Long": ("int", 64, True)}


def kotlin_classes(root):
    ints, classes = {}, {}
    for r, _, fs in os.walk(root):
        for f in sorted(fs):
            if not f.endswith(".kt"):
                continue
            t = open(os.path.join(r, f)).read()
            for m in re.finditer(r'class (\w+)\(.*?\): com\.sun\.jna\.IntegerType\((\w+(?:\.\w+)?), [^,]+, (true|false)\)', t):
                ints[m.group(1)] = (m.group(2), m.group(3) == "true")
            for m in re.finditer(r'class (\w+)\s*:\s*(Structure\(\), Structure\.ByValue|Union\(\))\s*\{(.*?)\n\}', t, re.S):
                name, kind, body = m.group(1), ("struct" if m.group(2).startswith("Structure") else "union"), m.group(3)
                decl = dict((fm.group(1), fm.group(2)) for fm in re.finditer(r'(?:internal |public )?(?:var|val) (\w+): ([\w?<>.]+)', body))
                order = re.search(r'getFieldOrder\(\): List<String> \{\s*return listOf\((.*?)\)', body, re.S)
                if kind == "struct" and order:
                    names = re.findall(r'"(\w+)"', order.group(1))
                else:
                    names = [fm.group(1) for fm in re.finditer(r'@JvmField\s+(?:internal |public )?(?:var|val) (\w+):', body)]
                classes[name] = (kind, [(decl.get(nm, "?"), nm) for nm in names])
    return ints, classes


def kotlin_shape(sp, ints, classes, in_struct, depth=0):
    sp = sp.strip().rstrip("?")
    if sp in KT_SCALAR:
        k, b, s = KT_SCALAR[sp]
        return {"s": "int", "bits": b, "signed": s}
    if sp == "Float":
        return {"s": "float", "bits": 32}
    if sp == "Double":
        return {"s": "float", "bits": 64}
    if sp == "Boolean":
        return {"s": "bool"}
    if sp == "Unit":
        return {"s": "void"}
    if sp == "Pointer":
        return {"s": "ptr"}
    if sp in ints:
        n, unsigned_flag = ints[sp]
        if n == "Native.SIZE_T_SIZE":
            return {"s": "size", "signed": sp == "FFIIsizet"}
        return {"s": "int", "bits": int(n) * 8, "signed": False}
    if sp in classes and depth < 12:
        kind, fields = classes[sp]
        return {"s": kind, "fields": [kotlin_shape(t, ints, classes, True, depth + 1) for t, _ in fields]}
    return {"s": "unknown", "spelling": sp}


def kotlin_functions(root):
    fns = {}
    for r, _, fs in os.walk(root):
        for f in sorted(fs):
            if not f.endswith(".kt"):
                continue
            t = open(os.path.join(r, f)).read()
            for blk in re.findall(r'interface \w+: Library \{(.*?)\n\}', t, re.S):
                for m in re.finditer(r'fun (\w+)\((.*?)\)(?:: ([\w?.<>]+))?\s*$', blk, re.M):
                    params = [p.split(":", 1)[1].strip() for p in split_args(m.group(2))] if m.group(2).strip() else []
                    fns[m.group(1)] = (m.group(3) or "Unit", params)
    return fns


# ------------------------------------------------------------------------------------------------ comparison
def same(exp, got, lang, in_struct=False):
    """structural equality of shape trees under the vocabulary of `lang`"""
    es, gs = exp["s"], got["s"]
    if gs == "struct":
        # a member that is a union of nothing occupies no storage
        got = {"s": "struct", "fields": [f for f in got["fields"] if not (f["s"] == "union" and not f["fields"])]}
    if es in ("struct", "union"):
        if gs != es or len(exp["fields"]) != len(got["fields"]):
            return False
        return all(same(a, b, lang, True) for a, b in zip(exp["fields"], got["fields"]))
    if es == "int":
        if lang == "kotlin" and exp.get("p") == "char":      # a code point is a Kotlin Int
            return gs == "int" and got["bits"] == 32
        return gs == "int" and got["bits"] == exp["bits"] and got["signed"] == exp["signed"]
    if es == "bool":
        if lang == "kotlin":
            # JNA maps a Boolean *argument* to C bool, but a Boolean FIELD of a Structure/Union is a 4-byte int: inside
            # records (struct mirrors, result/option records) the 1-byte carrier is Byte
            if in_struct:
                return gs == "int" and got["bits"] == 8
            return gs == "bool" or (gs == "int" and got["bits"] == 8)
        return gs == "bool"
    if es == "size":
        return gs == "size" and got["signed"] == exp["signed"]
    if es == "float":
        return gs == "float" and got["bits"] == exp["bits"]
    return gs == es


def strip(sh):
    if sh["s"] in ("struct", "union"):
        return {"s": sh["s"], "fields": [strip(f) for f in sh["fields"]]}
    return {k: v for k, v in sh.items() if k != "p"}


def run(rep, tier):
    wd = rep.wd
    rep.rule = ("signatures = the Abi.tla catalogue (every parameter type, return type, self kind alone + TLC-simulated combinations of <=3 "
                "parameters) with the expected C shape of every slot; the real dart and kotlin outputs are parsed into shape trees "
                "(function: ordered parameter shapes + return shape; record: ordered field shapes) and compared; non-trivial = distinct "
                "(backend, signature) compared, plus every struct mirror")
    rep.assumptions += ["dart:ffi and JNA marshal the declared native types as documented",
                        "Kotlin: DiplomatChar is an Int, a bool struct field is a Byte (JNA maps Boolean fields to 4 bytes)",
                        "Abi.tla shapes are the ones C01 validates against the compiled macro output"]
    r = lib.tlc("abi", "MC_Abi", "abi_cover.cfg", workers=4, coverage=False)
    lib.tlc_expect_ok(r, "Abi cover")
    rep.add_tlc("Abi/cover", r)
    rn = lib.tlc("abi", "MC_Abi", "abi_neg.cfg", workers=4, coverage=False)
    lib.tlc_expect_violation(rn, "flag-first option encoding", "FlagLast")
    rep.extra["negative_models_refuted"] = 1
    defs = r.printed["DEFS"][0]
    cases = r.printed["CASE"]
    rr = lib.tlc("abi", "MC_Abi", "abi_slres.cfg", workers=2, coverage=False)
    lib.tlc_expect_ok(rr, "Abi slices as Result arms")
    rep.add_tlc("Abi/slres", rr)
    cases = cases + rr.printed["CASE"]
    rs = lib.tlc("abi", "MC_Abi", "abi_random.cfg", workers=1, coverage=False, simulate=100, depth=8)
    lib.tlc_expect_ok(rs, "Abi random")
    rep.add_tlc("Abi/random", rs)
    seen = set(json.dumps(c["sig"], sort_keys=True) for c in cases)
    extra = []
    for c in rs.printed.get("CASE", []):
        k = json.dumps(c["sig"], sort_keys=True)
        # callbacks are outside the Dart profile (and this property's quantifier)
        if k not in seen and len(c["sig"]["params"]) >= 2 and not any(p["k"] == "cb" for p in c["sig"]["params"]):
            seen.add(k)
            extra.append(c)
    random.Random(lib.seed()).shuffle(extra)
    cases = cases + extra[: (300 if tier == "quick" else 3000)]
    ncmp = 0
    for lang in ("dart", "kotlin"):
        sel = [(i, c) for i, c in enumerate(cases) if not (lang == "kotlin" and abisig.uses_nonptr_option(c["sig"]))]
        d = dict(defs)
        shapes = dict(defs["shapes"])
        if lang == "dart":
            # structs outside the shared catalogue: optional slices and strings as fields (Kotlin has no options)
            d["structs"] = dict(defs["structs"], **defs["xstructs"])
            shapes.update(defs["xshapes"])
        if lang == "kotlin":
            d = {"structs": {k: v for k, v in defs["structs"].items() if k != "WOpt"}, "shapes": defs["shapes"]}
            sel = [(i, c) for i, c in sel if "WOpt" not in json.dumps(c["sig"])]
        src, syms = abisig.module(d, [(i, c["sig"]) for i, c in sel])
        p = os.path.join(wd, "abi_%s.rs" % lang)
        open(p, "w").write(src)
        out = os.path.join(wd, "out_" + lang)
        tr = lib.run_tool(lang, p, out)
        if tr["rc"] != 0:
            rep.violation({"backend": lang, "what": "tool failed on the catalogue"}, {"stderr": tr["stderr"][-2000:]})
            continue
        if lang == "dart":
            classes = dart_classes(out)
            fns = dart_functions(out)
            shape_of = lambda sp, in_struct=False: dart_shape(sp, classes)
            mirror = lambda n: classes.get("_%sFfi" % n)
        else:
            ints, classes = kotlin_classes(out)
            fns = kotlin_functions(out)
            shape_of = lambda sp, in_struct=False: kotlin_shape(sp, ints, classes, in_struct)
            mirror = lambda n: classes.get("%sNative" % n)
        for i, c in sel:
            sym = syms[i]
            if sym not in fns:
                rep.violation({"backend": lang, "what": "no native declaration for exported function"}, {"symbol": sym, "sig": c["sig"]})
                continue
            rsp, psp = fns[sym]
            exp = c["shape"]
            got_ret = shape_of(rsp)
            got_params = [shape_of(x) for x in psp]
            ncmp += 1
            rep.nontriv("%s|%s" % (lang, json.dumps(c["sig"], sort_keys=True)))
            bad = None
            if len(got_params) != len(exp["params"]):
                bad = "parameter count"
            elif not same(exp["ret"], got_ret, lang):
                bad = "return shape"
            else:
                for k, (a, b) in enumerate(zip(exp["params"], got_params)):
                    if not same(a, b, lang):
                        bad = "parameter %d shape" % k
                        break
            if bad:
                rep.violation({"backend": lang, "what": bad, "ret_kind": c["sig"]["ret"]["k"], "declared_ret": rsp,
                               "param_kinds": [p["k"] + ":" + str(p.get("p") or p.get("n") or p.get("e") or "") for p in c["sig"]["params"]]},
                              {"symbol": sym, "sig": c["sig"], "declared": {"ret": rsp, "params": psp},
                               "expected": {"ret": strip(exp["ret"]), "params": [strip(x) for x in exp["params"]]},
                               "parsed": {"ret": got_ret, "params": got_params}})
        # struct mirrors: same fields in the same order with the same primitive types
        for n, sh in shapes.items():
            if lang == "kotlin" and n == "WOpt":
                continue
            m = mirror(n)
            if m is None:
                rep.violation({"backend": lang, "what": "no struct mirror", "struct": n}, {})
                continue
            got = {"s": "struct", "fields": [shape_of(t, True) for t, _ in m[1]]}
            ncmp += 1
            if not same(sh, got, lang):
                rep.violation({"backend": lang, "what": "struct mirror differs", "struct": n},
                              {"expected": strip(sh), "declared": m[1], "parsed": got})
    rep.evaluations += ncmp
    rep.traces += ncmp
    rep.sample({"sig": cases[10]["sig"], "expected_shape": cases[10]["shape"]})
    rep.exhaustive = False
