"""Shared orchestration for the Diplomat TLA+ verification machinery.

Everything that talks to TLC, cargo, the diplomat-tool binary, the evidence files and the
known-findings file lives here so that each property module (py/cNN.py) only states *what* is
model-checked and *how* it is bound to the implementation.
"""
import json, os, re, shutil, subprocess, sys, time, hashlib, random

VERIF = os.path.dirname(os.path.dirname(os.path.abspath(__file__)))
REPO = os.environ.get("VERIF_REPO", "/repo")
WORK = os.path.join(VERIF, "work")
SPEC = os.path.join(VERIF, "spec")
TLAJAR = "/opt/veriftools/tla/tla2tools.jar:/opt/veriftools/tla/CommunityModules-deps.jar"
GUARD = "rust_diplomat_diplomat_verif"


class ToolError(Exception):
    """Infrastructure failure (exit 2) — never reported as a violation."""


def seed():
    try:
        return int(os.environ.get("VERIF_SEED", "1"))
    except ValueError:
        return 1


def ensure(d):
    os.makedirs(d, exist_ok=True)
    return d


def workdir(pid, fresh=False):
    d = os.path.join(WORK, pid)
    if fresh and os.path.isdir(d):
        shutil.rmtree(d, ignore_errors=True)
    return ensure(d)


def sh(cmd, cwd=None, env=None, timeout=None, input=None, check=False):
    e = dict(os.environ)
    if env:
        e.update(env)
    p = subprocess.run(cmd, cwd=cwd, env=e, timeout=timeout, input=input,
                       stdout=subprocess.PIPE, stderr=subprocess.PIPE, text=True, errors="replace")
    if check and p.returncode != 0:
        raise ToolError("command failed (%d): %s\n%s\n%s" % (p.returncode, cmd, p.stdout[-3000:], p.stderr[-3000:]))
    return p


# ------------------------------------------------------------------ TLC ------------------------

class TlcResult:
    def __init__(self):
        self.rc = None
        self.out = ""
        self.generated = 0
        self.distinct = 0
        self.depth = 0
        self.actions = {}      # action name -> (distinct, total)
        self.printed = {}      # tag -> list of decoded JSON payloads
        self.violated = None   # name of violated invariant/property
        self.wall = 0.0
        self.simulated = False

    @property
    def ok(self):
        return self.rc == 0


_PRINT_RE = re.compile(r'^<<"([A-Z_]+)", "(.*)">>(?:\s+(?:TRUE|FALSE))?$')


def _decode_printed(line):
    m = _PRINT_RE.match(line)
    if not m:
        return None
    tag, body = m.group(1), m.group(2)
    # TLC prints the TLA+ string with \" and \\ escapes; that is a JSON string body as well
    try:
        s = json.loads('"' + body + '"')
        return tag, json.loads(s)
    except Exception:
        return None


def tlc(module_dir, module, cfg, workers=8, simulate=None, depth=None, coverage=True,
        timeout=1800, env=None, props=None, tag=None, deadlock=False, heap="6g", dfs=False,
        collect=True, sink=None, library=None):
    """Run TLC on `module` (in spec/<module_dir>) with config `cfg`.

    simulate: None for exhaustive BFS, or number of behaviours for -simulate.
    Returns TlcResult with parsed summary, per-action coverage and PrintT payloads
    (lines of the form <<"TAG", "json">>).  `sink(tag,obj)` if given receives payloads as they
    are parsed instead of collecting them.
    """
    d = os.path.join(SPEC, module_dir)
    tag = tag or (module + "_" + os.path.splitext(os.path.basename(cfg))[0])
    meta = os.path.join(WORK, "tlc", tag + "_%d" % os.getpid())
    shutil.rmtree(meta, ignore_errors=True)
    ensure(meta)
    tmp = ensure(os.path.join(WORK, "tmp"))
    jopts = ["-XX:+UseParallelGC", "-Xmx" + heap, "-Xss1g", "-Djava.io.tmpdir=" + tmp]
    if dfs:
        jopts.append("-Dtlc2.tool.queue.IStateQueue=StateDeque")
    if library:
        jopts.append("-DTLA-Library=" + library)
    if props:
        for k, v in props.items():
            jopts.append("-D%s=%s" % (k, v))
    cmd = ["java"] + jopts + ["-cp", TLAJAR, "tlc2.TLC", "-metadir", meta, "-cleanup",
                             "-noGenerateSpecTE", "-workers", str(workers)]
    if coverage and simulate is None:
        cmd += ["-coverage", "1"]
    if simulate is not None:
        cmd += ["-simulate", "num=%d" % simulate, "-seed", str(seed())]
        if depth:
            cmd += ["-depth", str(depth)]
    if not deadlock:
        cmd += ["-deadlock"]
    cmd += ["-config", cfg, module + ".tla"]
    e = dict(os.environ)
    e.pop("JAVA_TOOL_OPTIONS", None)
    if env:
        e.update(env)
    r = TlcResult()
    r.simulated = simulate is not None
    t0 = time.time()
    try:
        p = subprocess.Popen(cmd, cwd=d, env=e, stdout=subprocess.PIPE, stderr=subprocess.STDOUT,
                             text=True, errors="replace")
    except OSError as ex:
        raise ToolError("cannot start TLC: %s" % ex)
    keep = []
    deadline = t0 + timeout
    cov_re = re.compile(r'^<(\w+) line \d+, col \d+ to line \d+, col \d+ of module (\w+)>: (\d+):(\d+)')
    try:
        for line in p.stdout:
            line = line.rstrip("\n")
            if line.startswith('<<"'):
                dec = _decode_printed(line)
                if dec:
                    if sink:
                        sink(dec[0], dec[1])
                    elif collect:
                        r.printed.setdefault(dec[0], []).append(dec[1])
                    continue
            keep.append(line)
            m = cov_re.match(line)
            if m:
                a = m.group(1)
                dd, tt = int(m.group(3)), int(m.group(4))
                old = r.actions.get(a, (0, 0))
                r.actions[a] = (max(old[0], dd), max(old[1], tt))
            if time.time() > deadline:
                p.kill()
                raise ToolError("TLC timeout on %s/%s" % (module, cfg))
    finally:
        p.wait()
        shutil.rmtree(meta, ignore_errors=True)
    r.rc = p.returncode
    r.wall = time.time() - t0
    r.out = "\n".join(keep)
    m = re.search(r'(\d+) states generated, (\d+) distinct states found', r.out)
    if m:
        r.generated, r.distinct = int(m.group(1)), int(m.group(2))
    m = re.search(r'The depth of the complete state graph search is (\d+)', r.out)
    if m:
        r.depth = int(m.group(1))
    m = re.search(r'Invariant (\w+) is violated', r.out) or re.search(r'property (\w+) (?:is|was) violated', r.out) \
        or re.search(r'Action property (\w+) is violated', r.out)
    if m:
        r.violated = m.group(1)
    if r.simulated:
        m = re.search(r'The number of states generated: (\d+)', r.out)
        if m:
            r.generated = int(m.group(1))
            r.distinct = r.distinct or r.generated
    m = re.search(r'The invariant of (\w+) is equal to FALSE', r.out)
    if m:
        r.violated = m.group(1)
    if r.rc not in (0, 10, 11, 12, 13, 151):
        # parse / semantic / other errors
        raise ToolError("TLC failed rc=%s on %s/%s:\n%s" % (r.rc, module, cfg, r.out[-4000:]))
    return r


def vacuous_actions(r, ignore=()):
    """Names of spec actions that TLC never took (coverage total == 0)."""
    return sorted(a for a, (d, t) in r.actions.items() if t == 0 and a not in ignore)


def tlc_expect_ok(r, what):
    if r.rc != 0:
        raise ToolError("model checking of %s did not pass (rc=%s, violated=%s):\n%s"
                        % (what, r.rc, r.violated, r.out[-3000:]))


def tlc_expect_violation(r, what, inv=None):
    """Negative model: TLC must find a counterexample (proves the invariant bites)."""
    if r.rc == 0 or r.violated is None:
        raise ToolError("negative model %s was NOT refuted by TLC (rc=%s): the invariant is vacuous\n%s"
                        % (what, r.rc, r.out[-2000:]))
    if inv and r.violated != inv:
        raise ToolError("negative model %s violated %s, expected %s" % (what, r.violated, inv))


def validate_trace(module_dir, module, cfg, trace_path, timeout=600, heap="3g", props=None):
    """Trace validation: returns (accepted: bool, TlcResult).  Trace spec reads IOEnv.TRACE."""
    r = tlc(module_dir, module, cfg, workers=1, coverage=False, timeout=timeout,
            env={"TRACE": trace_path}, dfs=True, heap=heap, tag="trace_" + module, props=props)
    return r.rc == 0, r


def tlaps(module_dir, module, timeout=900, threads=8):
    """Check a TLAPS proof module (spec/<module_dir>/<module>.tla) with tlapm in a scratch copy of the spec directory.
    Returns the number of proved obligations; raises ToolError if any obligation fails."""
    src = os.path.join(SPEC, module_dir)
    d = os.path.join(WORK, "tlaps_" + module)
    shutil.rmtree(d, ignore_errors=True)
    shutil.copytree(src, d)
    p = sh(["tlapm", "--threads", str(threads), module + ".tla"], cwd=d, timeout=timeout)
    out = p.stdout + p.stderr
    m = re.search(r"All (\d+) obligations? proved", out)
    if p.returncode != 0 or not m:
        raise ToolError("TLAPS proof %s/%s does not go through:\n%s" % (module_dir, module, out[-2500:]))
    return int(m.group(1))


def validate_trace_by_run(module_dir, module, cfg, events, wd, tag, chunk=1500, heap="3g"):
    """Trace validation of a long event log whose runs (field `run`) are independent of each other: whole runs are
    packed into chunks of about `chunk` events and each chunk is validated separately (the spec's state grows with
    the log, so one long log is quadratic).  Returns (all accepted, [TlcResult])."""
    order, by_run = [], {}
    for e in events:
        if e["run"] not in by_run:
            by_run[e["run"]] = []
            order.append(e["run"])
        by_run[e["run"]].append(e)
    chunks, cur = [], []
    for r in order:
        if cur and len(cur) + len(by_run[r]) > chunk:
            chunks.append(cur)
            cur = []
        cur = cur + by_run[r]
    if cur:
        chunks.append(cur)
    ok_all, results = True, []
    for i, c in enumerate(chunks):
        p = os.path.join(wd, "trace_%s_%d.ndjson" % (tag, i))
        write_ndjson(p, c)
        ok, r = validate_trace(module_dir, module, cfg, p, heap=heap)
        results.append(r)
        ok_all = ok_all and ok
    return ok_all, results


# ------------------------------------------------------------------ cargo / binaries -----------

_built = {}


def cargo_env():
    e = {"CARGO_NET_OFFLINE": "true", "CARGO_TERM_COLOR": "never"}
    return e


def build_harness(release=True):
    """Build the `dv` harness (path deps on REPO crates -> rebuilt from the working tree)."""
    key = ("dv", release)
    if key in _built:
        return _built[key]
    if os.environ.get("VERIF_DV_BIN"):
        # development aid (coverage-instrumented harness); the registered commands never set it
        _built[key] = os.environ["VERIF_DV_BIN"]
        return _built[key]
    hd = os.path.join(VERIF, "harness")
    sync_lock(hd)
    cmd = ["cargo", "build", "--offline", "--bin", "dv"] + (["--release"] if release else [])
    env = cargo_env()
    if REPO != "/repo":
        env["DV_REPO"] = REPO
    p = sh(cmd, cwd=hd, env=env, timeout=1800)
    if p.returncode != 0:
        # a compile failure of /repo code is a tool error for us (mutants must still compile)
        raise ToolError("harness build failed:\n" + p.stderr[-6000:])
    exe = os.path.join(WORK, "target", "release" if release else "debug", "dv")
    _built[key] = exe
    return exe


def sync_lock(hd):
    """Cargo.lock of the harness is derived from /repo's lock (generate-lockfile fails offline)."""
    lock = os.path.join(hd, "Cargo.lock")
    if not os.path.exists(lock):
        shutil.copy(os.path.join(REPO, "Cargo.lock"), lock)


def build_tool():
    """Build the real diplomat-tool binary from REPO's working tree into work/rtarget."""
    if "tool" in _built:
        return _built["tool"]
    if os.environ.get("VERIF_TOOL_BIN"):
        # development aid (coverage-instrumented binary); the registered commands never set it
        _built["tool"] = os.environ["VERIF_TOOL_BIN"]
        return _built["tool"]
    td = os.path.join(WORK, "rtarget")
    p = sh(["cargo", "build", "--offline", "--release", "-p", "diplomat-tool", "--bin", "diplomat-tool",
            "--manifest-path", os.path.join(REPO, "Cargo.toml"), "--target-dir", td],
           env=cargo_env(), timeout=1800)
    if p.returncode != 0:
        raise ToolError("diplomat-tool build failed:\n" + p.stderr[-6000:])
    exe = os.path.join(td, "release", "diplomat-tool")
    _built["tool"] = exe
    return exe


BACKENDS = ["c", "cpp", "js", "dart", "kotlin", "nanobind", "demo_gen"]


def tool_args(backend, entry, out, config=None, extra=None):
    a = [backend, out, "--entry", entry]
    cfg = list(config or [])
    keys = [c.split("=")[0] for c in cfg]
    if backend == "kotlin":
        if not any(k in ("kotlin.domain",) for k in keys):
            cfg.append("kotlin.domain=dev.verif")
        if not any(k in ("lib_name", "kotlin.lib_name") for k in keys):
            cfg.append("lib_name=somelib")
    if backend == "nanobind":
        if not any(k in ("lib_name", "nanobind.lib_name") for k in keys):
            cfg.append("lib_name=somelib")
    for c in cfg:
        a += ["--config", c]
    if extra:
        a += extra
    return a


def run_tool(backend, entry, out, config=None, extra=None, timeout=120, cwd=None):
    """Run the real binary. Returns dict(rc, stdout, stderr, panicked, lowering_errors, files)."""
    exe = build_tool()
    if os.path.isdir(out):
        shutil.rmtree(out)
    ensure(out)
    p = sh([exe] + tool_args(backend, entry, out, config, extra), timeout=timeout, cwd=cwd)
    errs = re.findall(r'Lowering error in ([^\n]*?): ([^\n]*)', p.stderr + p.stdout)
    files = []
    for root, _, fs in os.walk(out):
        for f in fs:
            files.append(os.path.relpath(os.path.join(root, f), out))
    return {"rc": p.returncode, "stdout": p.stdout, "stderr": p.stderr,
            "panicked": "panicked at" in p.stderr, "lowering_errors": errs, "files": sorted(files)}


# ------------------------------------------------------------------ known findings -------------

def known_findings():
    p = os.path.join(VERIF, "known_findings.json")
    if not os.path.exists(p):
        return []
    return json.load(open(p))["findings"]


def match_known(pid, key):
    """key: dict describing the failing input. A finding matches when every k/v of its `key`
    is present in `key` (strings: equality; lists: membership)."""
    for f in known_findings():
        if f.get("property") != pid or f.get("status") != "known":
            continue
        fk = f.get("key", {})
        ok = True
        for k, v in fk.items():
            if k not in key:
                ok = False
                break
            if isinstance(v, list):
                if key[k] not in v:
                    ok = False
                    break
            elif isinstance(v, str) and v.startswith("re:"):
                if not (isinstance(key[k], str) and re.fullmatch(v[3:], key[k], re.S)):
                    ok = False
                    break
            elif key[k] != v:
                ok = False
                break
        if ok:
            return f
    return None


# ------------------------------------------------------------------ reporting ------------------

_current_report = None


class Report:
    """Collects the outcome of one check run and writes evidence."""

    def __init__(self, pid, tier):
        global _current_report
        _current_report = self
        self.pid = pid
        self.tier = tier
        self.t0 = time.time()
        self.states = 0
        self.transitions = 0
        self.traces = 0
        self.evaluations = 0
        self.nontrivial = set()
        self.samples = []
        self.violations = []
        self.known = {}
        self.viol_keys = {}
        self.assumptions = []
        self.extra = {}
        self.exhaustive = None
        self.rule = ""
        self.tlc_runs = []
        self.wd = workdir(pid)
        for f in os.listdir(self.wd):
            if f.startswith('viol-'):
                os.unlink(os.path.join(self.wd, f))

    def add_tlc(self, name, r):
        self.states += r.distinct
        self.transitions += r.generated
        self.tlc_runs.append({"run": name, "generated": r.generated, "distinct": r.distinct,
                              "depth": r.depth, "wall_s": round(r.wall, 2), "simulated": r.simulated,
                              "actions": {a: t for a, (d, t) in sorted(r.actions.items())}})

    def sample(self, obj, limit=6):
        if len(self.samples) < limit:
            self.samples.append(obj)

    def nontriv(self, key):
        self.nontrivial.add(key if isinstance(key, str) else json.dumps(key, sort_keys=True))

    def violation(self, key, detail):
        """key: dict identifying the failing input (matched against known_findings.json)."""
        f = match_known(self.pid, key)
        if f is not None:
            self.known.setdefault(f["what"], 0)
            self.known[f["what"]] += 1
            return False
        kk = json.dumps(key, sort_keys=True, default=str)
        self.viol_keys[kk] = self.viol_keys.get(kk, 0) + 1
        if self.viol_keys[kk] > 3:      # same failing shape again: counted, not re-reported
            return True
        n = len(self.violations) + 1
        path = os.path.join(self.wd, "viol-%d.json" % n)
        with open(path, "w") as fh:
            json.dump({"property": self.pid, "key": key, "detail": detail, "seed": seed(), "tier": self.tier},
                      fh, indent=1, default=str)
        self.violations.append(path)
        if n <= 20:
            print("VIOLATION property=%s replay=%s" % (self.pid, path), flush=True)
        return True

    def finish(self):
        for what, n in sorted(self.known.items()):
            print("KNOWN-FINDING: property=%s %s (x%d)" % (self.pid, what, n), flush=True)
        cov = {
            "states": int(self.states), "transitions": int(self.transitions),
            "traces_validated_against_impl": int(self.traces),
            "evaluations": int(self.evaluations),
            "distinct_nontrivial": len(self.nontrivial),
            "rule": self.rule,
            "samples": self.samples or ["(no case recorded)"],
            "tlc_runs": self.tlc_runs,
            "known_findings_hit": self.known,
        }
        if self.exhaustive is not None:
            cov["exhaustive"] = bool(self.exhaustive)
        cov.update(self.extra)
        ev = {"property_id": self.pid, "tier": self.tier, "seed": seed(), "level": "model_checking",
              "coverage": cov, "assumptions": self.assumptions,
              "wall_s": round(time.time() - self.t0, 2), "violations": len(self.violations)}
        ensure(os.path.join(VERIF, "evidence"))
        with open(os.path.join(VERIF, "evidence", self.pid + ".json"), "w") as fh:
            json.dump(ev, fh, indent=1, default=str)
        print("%s %s: states=%d transitions=%d bound=%d evals=%d nontrivial=%d violations=%d known=%d wall=%.1fs"
              % (self.pid, self.tier, self.states, self.transitions, self.traces, self.evaluations,
                 len(self.nontrivial), len(self.violations), sum(self.known.values()), time.time() - self.t0),
              flush=True)
        return 1 if self.violations else 0


def write_ndjson(path, rows):
    with open(path, "w") as fh:
        for r in rows:
            fh.write(json.dumps(r, separators=(",", ":")) + "\n")


def read_ndjson(path):
    out = []
    with open(path) as fh:
        for line in fh:
            line = line.strip()
            if line:
                out.append(json.loads(line))
    return out


def dv(args, input=None, timeout=3600, env=None, check=True):
    exe = build_harness()
    p = sh([exe] + args, input=input, timeout=timeout, env=env)
    if check and p.returncode != 0:
        died_in_code_under_test = (p.returncode < 0 or p.returncode in (101, 134, 139)) and "harness error" not in p.stderr
        if died_in_code_under_test and _current_report is not None:
            # the harness runs the code under test in-process: a process killed by an abort, a failed UB check or an
            # uncaught panic there is an observation about the implementation, not a tool failure
            _current_report.violation({"leg": "harness:" + args[0], "what": "harness process died inside the code under test",
                                       "signal": p.returncode},
                                      {"args": args, "stderr": p.stderr[-4000:], "stdout_tail": p.stdout[-800:]})
        raise ToolError("dv %s failed rc=%d\n%s\n%s" % (args[:2], p.returncode, p.stdout[-2000:], p.stderr[-4000:]))
    return p


# ------------------------------------------------------------------ bridge crates --------------

def build_bridge(name, lib_rs, extra_files=None, timeout=900):
    """Create work/bridge/<name> (staticlib+rlib, real proc macro + runtime from REPO) and cargo build it.
    Returns dict(ok, stderr, staticlib)."""
    d = ensure(os.path.join(WORK, "bridge", name))
    ensure(os.path.join(d, "src"))
    ensure(os.path.join(d, ".cargo"))
    open(os.path.join(d, "Cargo.toml"), "w").write(
        '[package]\nname = "%s"\nversion = "0.1.0"\nedition = "2021"\n[workspace]\n[lib]\ncrate-type = ["staticlib", "rlib"]\n'
        '[dependencies]\ndiplomat = { path = "%s/macro" }\ndiplomat-runtime = { path = "%s/runtime" }\n'
        '[profile.dev]\ndebug = 1\nopt-level = 0\npanic = "abort"\n' % (name, REPO, REPO))
    open(os.path.join(d, ".cargo", "config.toml"), "w").write('[net]\noffline = true\n[build]\ntarget-dir = "../../btarget"\n')
    lock = os.path.join(d, "Cargo.lock")
    if not os.path.exists(lock):
        shutil.copy(os.path.join(REPO, "Cargo.lock"), lock)
    path = os.path.join(d, "src", "lib.rs")
    old = open(path).read() if os.path.exists(path) else None
    if old != lib_rs:
        open(path, "w").write(lib_rs)
    for fn, text in (extra_files or {}).items():
        ensure(os.path.dirname(os.path.join(d, fn)))
        open(os.path.join(d, fn), "w").write(text)
    p = sh(["cargo", "build", "--offline", "--lib"], cwd=d, env=cargo_env(), timeout=timeout)
    return {"ok": p.returncode == 0, "stderr": p.stderr, "dir": d,
            "staticlib": os.path.join(WORK, "btarget", "debug", "lib%s.a" % name)}


def nm_defined(staticlib):
    """Defined text symbols of a staticlib that do not belong to std/runtime internals."""
    p = sh(["nm", "--defined-only", "-g", staticlib], check=True)
    syms = set()
    for line in p.stdout.splitlines():
        parts = line.split()
        if len(parts) == 3 and parts[1] in ("T", "t"):
            s = parts[2]
            if s.startswith("_ZN") or s.startswith("_R") or s.startswith("__") or s.startswith("rust_") or s.startswith("_Z"):
                continue
            syms.add(s)
    return syms


def bisect_culprits(items, fails, limit=40):
    """Minimal culprits: items such that fails([item]) (found by recursive halving of failing sets).
    `fails(list) -> bool`. Items that only fail in combination are returned as one combined group."""
    out = []

    def rec(xs):
        if len(out) >= limit:
            return
        if len(xs) == 1:
            out.append(xs)
            return
        h = len(xs) // 2
        a, b = xs[:h], xs[h:]
        fa, fb = fails(a), fails(b)
        if fa:
            rec(a)
        if fb:
            rec(b)
        if not fa and not fb:
            out.append(xs)          # only fails together
    if fails(items):
        rec(list(items))
    return out
