#!/usr/bin/env python3
"""seed_recheck.py <name> ["note"] -- <check ids...>
Re-runs checks against an already kept seeded change (/verif/seeded/<name>/patch.diff) and updates meta.json,
keeping the earlier outcome under "history" so that strengthening of a check stays visible."""
import json, os, subprocess, sys
name = sys.argv[1]
sep = sys.argv.index("--")
note = sys.argv[2] if sep > 2 else ""
ids = sys.argv[sep + 1:]
dst = "/verif/seeded/%s" % name
meta = json.load(open(os.path.join(dst, "meta.json")))
assert subprocess.run(["git", "-C", "/repo", "status", "--porcelain"], capture_output=True, text=True).stdout.strip() == "", "/repo not clean"
subprocess.run(["git", "-C", "/repo", "apply", os.path.join(dst, "patch.diff")], check=True)
results = {}
try:
    for i in ids:
        tier = "quick"
        if ":" in i:
            i, tier = i.split(":")
        p = subprocess.run(["./check", i, "--tier", tier], cwd="/verif", capture_output=True, text=True)
        nv = sum(1 for l in p.stdout.splitlines() if l.startswith("VIOLATION"))
        results["%s:%s" % (i, tier)] = {"rc": p.returncode, "violation_lines": nv}
        print(i, tier, "rc=%d" % p.returncode, "violations=%d" % nv)
        if p.returncode == 2:
            print(p.stderr[-1200:])
finally:
    subprocess.run(["git", "-C", "/repo", "checkout", "--", "."])
meta.setdefault("history", []).append({"checks_run_against_it": meta["checks_run_against_it"], "detected_by": meta["detected_by"]})
if note:
    meta["strengthening"] = note
meta["checks_run_against_it"] = results
meta["detected_by"] = sorted(k for k, v in results.items() if v["rc"] == 1)
json.dump(meta, open(os.path.join(dst, "meta.json"), "w"), indent=1)
print("updated", dst, "detected_by", meta["detected_by"])
