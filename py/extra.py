#!/usr/bin/env python3
"""./extra <name> — extension specs: parts of the suite that model behaviour OUTSIDE the 17 listed properties.

They are bound to the implementation exactly like the property checks (TLC model + replay), but they decide no listed
property: they never print VIOLATION lines and are not part of MANIFEST.json.  Differences between spec and
implementation are printed as `DIFFERENCE extra=<name> ...` lines and recorded in /verif/extra_evidence/<name>.json;
exit 0 = spec and implementation agree on everything explored, 3 = differences, 2 = tool error."""
import json, os, re, sys, time
sys.path.insert(0, os.path.dirname(os.path.abspath(__file__)))
import lib

MARKER_ATTR = {"constructor": "constructor", "named_constructor": 'named_constructor = "nc"', "getter": 'getter = "g"', "setter": 'setter = "s"',
               "stringifier": "stringifier", "comparison": "comparison", "iterator": "iterator", "iterable": "iterable",
               "indexer": "indexer", "add": "add", "add_assign": "add_assign"}
# error message (regex) -> rule name of Special.tla
MESSAGES = [
    (r"Constructors must not accept a self parameter", "self_param"),
    (r"(Comparators|Iterator|Iterables|Indexer|Add|AddAssign) must accept a self parameter", "self_param"),
    (r"This backend doesn't support fallible constructors", "fallible_constructor"),
    (r"turning nullable methods into constructors", "nullable_constructor"),
    (r"Constructors must return Self!", "constructor_returns_self"),
    (r"Getter cannot have parameters", "getter_params"),
    (r"No self parameter on (Getter|Setter) .* static_acessors are not supported", "static_accessor"),
    (r"Setters must return unit", "setter_returns_unit"),
    (r"\w+ must have exactly \d parameters?", "param_count"),
    (r"Stringifier must return string", "stringifier_returns_string"),
    (r"Comparator's parameter must be identical to self", "comparator_same_type"),
    (r"Found comparison method that does not return cmp::Ordering", "comparator_returns_ordering"),
    (r"comparators must accept immutable parameters", "comparator_immutable"),
    (r"comparators must accept non-optional parameters", "comparator_non_optional"),
    (r"Iterators only allowed on opaques", "iterator_on_opaque"),
    (r"Iterator method must return something", "iterator_returns_something"),
    (r"Iterator method must return nullable value", "iterator_returns_nullable"),
    (r"Iterables must return a custom opaque type", "iterable_returns_opaque"),
    (r"Iterables must return a custom type", "iterable_returns_type"),
    (r"(Indexer|Add) must return a value", "returns_value"),
    (r"\*Assign arithmetic operations not allowed on non-opaque types", "assign_on_opaque"),
    (r"AddAssign must take self by mutable reference", "assign_mutable_self"),
    (r"AddAssign must not return a value", "assign_returns_nothing"),
]


def render_special(n, m):
    tk = m["tk"]
    T, O = "T%d" % n, "O%d" % n
    decl = {"opaque": "    #[diplomat::opaque]\n    pub struct %s(u8);\n" % T,
            "struct": "    pub struct %s {\n        pub a: u8,\n    }\n" % T,
            "enum": "    pub enum %s {\n        A,\n        B,\n    }\n" % T,
            "outstruct": "    #[diplomat::out]\n    pub struct %s {\n        pub a: u8,\n    }\n" % T}[tk]
    decl += "    #[diplomat::opaque]\n    pub struct %s(u8);\n" % O
    selfs = {"none": [], "ref": ["&self"], "mut": ["&mut self"], "val": ["self"]}[m["self"]]
    ptxt = {"same_ref": "&%s" % T, "same_mut": "&mut %s" % T, "same_opt": "Option<&%s>" % T, "same_val": T, "prim": "u8"}
    params = selfs + ["p%d: %s" % (i, ptxt[p]) for i, p in enumerate(m["params"])]
    S = ("Box<%s>" % T) if tk == "opaque" else T
    ret = {"unit": "", "write": "", "self": " -> " + S, "res_self": " -> Result<%s, ()>" % S, "opt_self": " -> Option<%s>" % S,
           "prim": " -> u8", "opt_prim": " -> Option<u8>", "opt_unit": " -> Option<()>", "res_unit": " -> Result<(), ()>",
           "res_prim": " -> Result<u8, ()>", "ordering": " -> core::cmp::Ordering", "other_box": " -> Box<%s>" % O, "opt_other_box": " -> Option<Box<%s>>" % O}[m["ret"]]
    if m["ret"] == "write":
        params.append("w: &mut DiplomatWrite")
    return ("%s    impl %s {\n        #[diplomat::attr(*, %s)]\n        pub fn m(%s)%s { todo!() }\n    }\n"
            % (decl, T, MARKER_ATTR[m["mk"]], ", ".join(params), ret)), "%s::m" % T


def special(out):
    import profiles
    wd = lib.ensure(os.path.join(lib.WORK, "extra_special"))
    r0 = lib.tlc("special", "MC_Special", "special_props.cfg", workers=2, coverage=False, timeout=600)
    lib.tlc_expect_ok(r0, "Special: rule-set properties")
    rn = lib.tlc("special", "MC_Special", "special_neg.cfg", workers=2, coverage=False, timeout=600)
    lib.tlc_expect_violation(rn, "Special without the setter rule", "SetterRule")
    r = lib.tlc("special", "MC_Special", "special.cfg", workers=2, coverage=False, timeout=900)
    lib.tlc_expect_ok(r, "Special: case emission")
    cases = r.printed["CASE"]
    others = [f for f in profiles.FEATURES if f not in ("constructors", "fallible_constructors", "static_accessors")]
    rows = []
    for n, c in enumerate(cases):
        item, ctx = render_special(n, c["m"])
        sup = others + [k for k, v in c["f"].items() if v]
        src = ("#[diplomat::bridge]\nmod ffi {\n    use diplomat_runtime::DiplomatWrite;\n" + item + "}\n")
        rows.append({"id": n, "src": src, "profile": {"name": "verif", "other": [], "supports": sup}, "urefs": False})
    inp, outp = os.path.join(wd, "special.ndjson"), os.path.join(wd, "special.out.ndjson")
    lib.write_ndjson(inp, rows)
    lib.dv(["lower", inp, outp])
    diffs, unmapped = [], {}
    rules_seen, accepted = set(), 0
    for c, row, res in zip(cases, rows, lib.read_ndjson(outp)):
        want = set(c["errs"])
        if res["panic"]:
            diffs.append({"case": c, "what": "lowering panicked", "panic": res["panic"], "src": row["src"]})
            continue
        got = set()
        for ctx, msg in res["errors"]:
            for pat, rule in MESSAGES:
                if re.search(pat, msg):
                    got.add(rule)
                    break
            else:
                unmapped[msg[:100]] = unmapped.get(msg[:100], 0) + 1
                got.add("?" + msg[:60])
        rules_seen |= want
        accepted += (not want)
        if got != want:
            diffs.append({"case": c, "what": "rule sets differ", "spec": sorted(want), "impl": sorted(got), "src": row["src"]})
    out.update({"cases": len(cases), "accepted_by_spec": accepted, "rules_exercised": sorted(rules_seen), "differences": len(diffs),
                "unmapped_messages": unmapped, "samples": diffs[:12],
                "tlc": {"states": r.distinct, "props": "Satisfiable, FlagsOnlyMatterThere, ValueTypesAreImmutable", "negative_models_refuted": 1}})
    return diffs


def main():
    name = sys.argv[1] if len(sys.argv) > 1 else ""
    import jscall, demogen, cppres, resolve, doclinks
    legs = {"special": special, "jscall": jscall.run, "demogen": demogen.run, "cppres": cppres.run, "resolve": resolve.run, "doclinks": doclinks.run}
    if name not in legs:
        print("usage: ./extra <%s>" % "|".join(legs), file=sys.stderr)
        return 2
    out = {"extra": name, "started": time.strftime("%Y-%m-%dT%H:%M:%SZ", time.gmtime())}
    try:
        diffs = legs[name](out)
    except lib.ToolError as e:
        print("TOOL-ERROR extra %s: %s" % (name, e), file=sys.stderr)
        return 2
    d = lib.ensure(os.path.join(lib.VERIF, "extra_evidence"))
    json.dump(out, open(os.path.join(d, name + ".json"), "w"), indent=1, default=str)
    seen = {}
    if name in ("jscall", "demogen", "cppres", "resolve", "doclinks"):
        # differences already analysed and described in DESIGN.md §0.6 are listed in extra_known.json (by ABI, kind and a pattern on
        # the method shape); they are printed as KNOWN-DIFFERENCE, anything else is a new DIFFERENCE (exit 3)
        known = json.load(open(os.path.join(lib.VERIF, "extra_known.json"))).get(name, [])
        seen, newd = {}, 0
        for x in diffs:
            abi = x["case"].get("abi", "-")
            kn = next((k for k in known if k.get("abi", "-") == abi and x["what"].startswith(k["what"]) and re.search(k["shape"], x["shape"])), None)
            k = ("KNOWN-DIFFERENCE" if kn else "DIFFERENCE", abi, x["what"])
            if k not in seen:
                seen[k] = [0, x["shape"]]
            seen[k][0] += 1
            newd += (kn is None)
        for (tag, abi, what), (n, eg) in sorted(seen.items()):
            print("%s extra=%s%s %s (x%d, e.g. %s)" % (tag, name, (" abi=" + abi) if abi != "-" else "", what, n, eg))
        print("extra %s: cases=%d differences=%d known=%d new=%d" % (name, out.get("cases", 0), len(diffs), len(diffs) - newd, newd))
        return 3 if newd else 0
    for x in diffs:
        k = json.dumps([x["what"], x.get("spec"), x.get("impl"), x["case"]["m"]["mk"]])
        seen[k] = seen.get(k, 0) + 1
        if seen[k] == 1 and len(seen) <= 25:
            print("DIFFERENCE extra=%s marker=%s %s spec=%s impl=%s method=%s" % (name, x["case"]["m"]["mk"], x["what"], x.get("spec"), x.get("impl"),
                                                                                 json.dumps(x["case"]["m"])))
    print("extra %s: cases=%d differences=%d" % (name, out.get("cases", 0), len(diffs)))
    return 3 if diffs else 0


if __name__ == "__main__":
    sys.exit(main())
