"""C11 — enum variants carry the same numeric value in Rust and in every binding (spec/enums)."""
import json, os, random, re
import lib, callgen


def render(n, c):
    vs = []
    for i, l in enumerate(c["lits"]):
        # every third variant is documented (one or two lines): bindings print variant docs inside the enum body
        if (n + i) % 3 == 0:
            vs.append("        /// The number %d case.\n" % i + ("        /// Second line, with a comma, and a semicolon; too.\n" if (n + i) % 2 == 0 else ""))
        vs.append("        V%d%s,\n" % (i, (" = %d" % l["v"]) if l["has"] else ""))
    # W<n>: the enum as a FIELD of a struct that Rust returns (bindings read the field out of the native mirror)
    return ("    pub enum E%d {\n%s    }\n    impl E%d {\n        pub fn rt(self) -> E%d { self }\n        pub fn opt(self) -> Option<E%d> { Some(self) }\n"
            "        pub fn wrap(self) -> W%d { W%d { x: 1, e: self } }\n    }\n    pub struct W%d {\n        pub x: u8,\n        pub e: E%d,\n    }\n"
            % (n, "".join(vs), n, n, n, n, n, n, n))


# `rt` hands its argument back (an enum returned by value); `opt` writes it into the receive buffer as Some(v), so that the binding
# has to READ the discriminant back from memory (a different code path: signedness shows for negative discriminants)
WASM_STUB = """const memory = new WebAssembly.Memory({initial: 1});
let bump = 1024;
const handler = { get(target, prop) {
  if (prop === 'memory') return memory;
  if (prop === 'diplomat_alloc') return (size, align) => { bump = (bump + 7) & ~7; const p = bump; bump += 16; if (bump > 60000) bump = 1024; return p; };
  if (prop === 'diplomat_free') return () => {};
  if (String(prop).endsWith('_opt')) return (recv, v) => { new Int32Array(memory.buffer, recv, 1)[0] = v; new Uint8Array(memory.buffer)[recv + 4] = 1; };
  return (...args) => args[0]; } };
export default new Proxy({}, handler);
"""


def run(rep, tier):
    wd = rep.wd
    rep.rule = ("enums = all with 1..3 variants over implicit/explicit literals from {-2147483647,-3,-1,0,1,2,5,2147483645} (quick: seeded "
                "subset), <=5 variants over a smaller alphabet (thorough), TLC-simulated up to 8 variants; numbering by rustc's rule; "
                "compared with `V as i32` from the compiled macro output, gcc-compiled header constants, g++ AsFFI/FromFFI, the JS module "
                "executed in node, and the tables/schemes parsed from dart, kotlin and nanobind output; non-trivial = distinct enums with a "
                "gap, a negative or non-monotonic discriminant")
    rep.assumptions += ["Dart/Kotlin/Python are not executed: their index/ordinal/entries fast paths are interpreted by the spec's scheme model",
                        "JS enum modules are executed in node with a stub wasm module"]
    r = lib.tlc("enums", "MC_Enums", "enums.cfg" if tier == "quick" else "enums_thorough.cfg", workers=8, coverage=False)
    lib.tlc_expect_ok(r, "Enums")
    rep.add_tlc("Enums", r)
    rn = lib.tlc("enums", "MC_Enums", "enums_neg.cfg", workers=4, coverage=False)
    lib.tlc_expect_violation(rn, "contiguity test that forgets the start at 0", "PositionIffBad")
    rep.extra["negative_models_refuted"] = 1
    rs = lib.tlc("enums", "MC_Enums", "enums_sim.cfg", workers=1, coverage=False, simulate=200, depth=10)
    lib.tlc_expect_ok(rs, "Enums simulate")
    rep.add_tlc("Enums/simulate", rs)
    cases = r.printed["CASE"]
    big = [c for c in rs.printed.get("CASE", []) if len(c["lits"]) >= 5]
    rng = random.Random(lib.seed())
    rng.shuffle(cases)
    rng.shuffle(big)
    if tier == "quick":
        cases = cases[:250] + big[:60]
    else:
        r2 = lib.tlc("enums", "MC_Enums", "enums.cfg", workers=8, coverage=False)
        cases = cases + r2.printed["CASE"] + big[:600]
    seen, uniq = set(), []
    for c in cases:
        k = json.dumps(c["lits"])
        if k not in seen:
            seen.add(k)
            uniq.append(c)
    cases = uniq
    # ---- one crate: rustc is the ground truth
    enums_rs = "".join(render(n, c) for n, c in enumerate(cases))
    dump = "".join('    dv_event("RustEnum", "E%d", &format!("{:?}", [%s]));\n' % (n, ", ".join("ffi::E%d::V%d as i32" % (n, i) for i in range(len(c["lits"]))))
                   for n, c in enumerate(cases))
    lib_rs = ("#![allow(unused, non_snake_case, clippy::all)]\n" + callgen.RUST_SUPPORT +
              "#[no_mangle]\npub extern \"C\" fn dv_enums() {\n" + dump + "}\n#[diplomat::bridge]\npub mod ffi {\n" + enums_rs + "}\n")
    b = lib.build_bridge("c11", lib_rs)
    if not b["ok"]:
        rep.violation({"leg": "build", "what": "enum crate does not compile"}, {"stderr": b["stderr"][-3000:]})
        return
    entry = os.path.join(b["dir"], "src", "lib.rs")
    outs = {}
    for be in lib.BACKENDS:
        o = os.path.join(wd, "out_" + be)
        t = lib.run_tool(be, entry, o)
        if t["rc"] != 0:
            rep.violation({"leg": "tool", "backend": be, "what": "tool failed"}, {"stderr": t["stderr"][-1500:]})
        else:
            outs[be] = o
    truth = {}
    # ---- C: header constants + round trip through the exported function, same process prints rustc's numbers
    if "c" in outs:
        body = []
        for n, c in enumerate(cases):
            body.append('LB(); L("["); %s L("]"); LE("CEnum", "E%d");' % (" L(\", \"); ".join('L("%%d", (int)E%d_V%d);' % (n, i) for i in range(len(c["lits"]))), n))
            body.append('LB(); L("["); %s L("]"); LE("CRoundTrip", "E%d");' % (" L(\", \"); ".join('L("%%d", (int)E%d_rt(E%d_V%d));' % (n, n, i) for i in range(len(c["lits"]))), n))
        hs = sorted(f for f in os.listdir(outs["c"]) if f.endswith(".h") and not f.endswith(".d.h"))
        drv = callgen.C_SUPPORT + "".join('#include "%s"\n' % h for h in hs) + "extern void dv_enums(void);\nint main(void) {\n    dv_enums();\n    " + "\n    ".join(body) + "\n    return 0;\n}\n"
        dp = os.path.join(wd, "enums.c")
        open(dp, "w").write(drv)
        cc = lib.sh(["gcc", "-std=c11", "-g", "-I", outs["c"], dp, b["staticlib"], "-lpthread", "-ldl", "-lm", "-o", os.path.join(wd, "enums_c")], timeout=900)
        if cc.returncode != 0:
            rep.violation({"leg": "c", "what": "enum driver does not compile"}, {"stderr": cc.stderr[:2500]})
        else:
            p = lib.sh([os.path.join(wd, "enums_c")], timeout=120)
            ev = [json.loads(l) for l in p.stdout.splitlines() if l.startswith("{")]
            for e in ev:
                truth.setdefault(e["ev"], {})[e["f"]] = json.loads(e["v"])
    # ---- C++: Value constants, AsFFI, FromFFI, round trip
    cpp = {}
    if "cpp" in outs:
        body = []
        for n, c in enumerate(cases):
            k = len(c["lits"])
            body.append('printf("{\\"f\\":\\"E%d\\",\\"value\\":[%s],\\"asffi\\":[%s],\\"fromffi\\":[%s],\\"rt\\":[%s]}\\n", %s);' % (
                n, ",".join(["%d"] * k), ",".join(["%d"] * k), ",".join(["%d"] * k), ",".join(["%d"] * k),
                ", ".join(["(int)E%d::V%d" % (n, i) for i in range(k)] +
                          ["(int)E%d(E%d::V%d).AsFFI()" % (n, n, i) for i in range(k)] +
                          ["(int)(E%d::Value)E%d::FromFFI(E%d(E%d::V%d).AsFFI())" % (n, n, n, n, i) for i in range(k)] +
                          ["(int)(E%d::Value)E%d(E%d::V%d).rt()" % (n, n, n, i) for i in range(k)])))
        hs = sorted(f for f in os.listdir(outs["cpp"]) if f.endswith(".hpp") and not f.endswith(".d.hpp"))
        drv = "#include <cstdio>\n" + "".join('#include "%s"\n' % h for h in hs) + 'extern "C" void dv_log(const char*, const char*, const char*) {}\nint main() {\n    ' + "\n    ".join(body) + "\n    return 0;\n}\n"
        dp = os.path.join(wd, "enums.cpp")
        open(dp, "w").write(drv)
        cc = lib.sh(["g++", "-std=c++17", "-g", "-I", outs["cpp"], dp, b["staticlib"], "-lpthread", "-ldl", "-lm", "-o", os.path.join(wd, "enums_cpp")], timeout=1200)
        if cc.returncode != 0:
            rep.violation({"leg": "cpp", "what": "enum driver does not compile"}, {"stderr": cc.stderr[:2500]})
        else:
            p = lib.sh([os.path.join(wd, "enums_cpp")], timeout=120)
            for l in p.stdout.splitlines():
                if l.startswith("{"):
                    d = json.loads(l)
                    cpp[d["f"]] = d
    # ---- JS: execute the generated modules in node
    js = {}
    if "js" in outs:
        open(os.path.join(outs["js"], "diplomat-wasm.mjs"), "w").write(WASM_STUB)
        lines = ['import * as rt from "./diplomat-runtime.mjs";']
        for n, c in enumerate(cases):
            lines.append('import { E%d } from "./E%d.mjs";' % (n, n))
        for n, c in enumerate(cases):
            k = len(c["lits"])
            # lookup: by number (what arrives from Rust) AND by enumerator name (the public constructor / fromValue take `Enum | string`)
            lines.append('console.log(JSON.stringify({f: "E%d", ffi: [%s], names: [%s], lookup: [%s], rt: [%s], opt: [%s]}));' % (
                n, ", ".join("E%d.V%d.ffiValue" % (n, i) for i in range(k)),
                ", ".join("E%d.V%d.value" % (n, i) for i in range(k)),
                ", ".join("((new E%d(rt.internalConstructor, E%d.V%d.ffiValue)) === E%d.V%d) && (() => { try { return new E%d(\"V%d\") === E%d.V%d && E%d.fromValue(\"V%d\") === E%d.V%d && E%d.fromValue(E%d.V%d) === E%d.V%d; } catch (e) { return false; } })()"
                          % (n, n, i, n, i, n, i, n, i, n, i, n, i, n, n, i, n, i) for i in range(k)),
                ", ".join("E%d.V%d.rt() === E%d.V%d" % (n, i, n, i) for i in range(k)),
                ", ".join("E%d.V%d.opt() === E%d.V%d" % (n, i, n, i) for i in range(k))))
        sp = os.path.join(outs["js"], "enums_driver.mjs")
        open(sp, "w").write("\n".join(lines) + "\n")
        p = lib.sh(["node", sp], timeout=300)
        if p.returncode != 0:
            rep.violation({"leg": "js", "what": "generated enum modules fail in node"}, {"stderr": p.stderr[-2500:]})
        for l in p.stdout.splitlines():
            if l.startswith("{"):
                d = json.loads(l)
                js[d["f"]] = d
    ncmp = 0
    for n, c in enumerate(cases):
        f = "E%d" % n
        discs = c["discs"]
        k = len(discs)
        key = {"variants": k, "contiguous": c["contiguous"], "explicit": sum(1 for l in c["lits"] if l["has"])}
        def bad(leg, what, detail):
            rep.violation(dict(key, leg=leg, what=what), dict(detail, enum=render(n, c), discs=discs))
        if truth.get("RustEnum", {}).get(f) != discs:
            bad("rustc", "spec numbering differs from rustc", {"rustc": truth.get("RustEnum", {}).get(f)})
        if truth.get("CEnum", {}).get(f) != discs:
            bad("c", "C header constants differ", {"c": truth.get("CEnum", {}).get(f)})
        if truth.get("CRoundTrip", {}).get(f) != discs:
            bad("c", "value changed through the exported function", {"c": truth.get("CRoundTrip", {}).get(f)})
        d = cpp.get(f)
        if "cpp" in outs and (d is None or d["value"] != discs or d["asffi"] != discs or d["fromffi"] != discs or d["rt"] != discs):
            bad("cpp", "C++ enum values differ", {"cpp": d})
        d = js.get(f)
        if "js" in outs and (d is None or d["ffi"] != discs or d["names"] != ["V%d" % i for i in range(k)] or not all(d["lookup"]) or not all(d["rt"]) or not all(d["opt"])):
            bad("js", "JS enum values differ", {"js": d})
        # Dart: scheme and table from the text
        if "dart" in outs:
            t = re.sub(r'//[^\n]*', '', open(os.path.join(outs["dart"], f + ".g.dart")).read())     # what a Dart compiler sees
            names = re.search(r'enum %s \{(.*?);' % f, t, re.S).group(1)
            order = re.findall(r'\b(v\d+)\b', names)
            tab = dict((a, int(b)) for a, b in re.findall(r'case (v\d+):\s*return (-?\d+);', t))
            if order != ["v%d" % i for i in range(k)]:
                bad("dart", "variant order differs", {"order": order})
            if tab:
                if [tab.get("v%d" % i) for i in range(k)] != discs or "firstWhere((v) => v._ffi == result)" not in t:
                    bad("dart", "table scheme has wrong numbers", {"table": tab})
            else:
                # position scheme (index / values[result]): sound only for 0..n-1 in order
                if "(index)" not in t or not c["contiguous"]:
                    bad("dart", "position scheme used for a non-contiguous enum", {"text": t[:600]})
            # use site: what the `self` of a method is sent to Rust as (the declaration position is only right for 0..n-1)
            for arg in re.findall(r'_%s_rt\(([^)]*)\)' % f, t):
                if "external" in arg or ":" in arg or " " in arg.strip():
                    continue         # the declaration, not a call
                if not (arg.strip() == "_ffi" or (arg.strip() == "index" and c["contiguous"])):
                    bad("dart", "enum receiver sent to Rust as its position although the enum is not 0..n-1", {"argument": arg, "discs": discs})
            # return sites: an enum coming back (by value, or inside an Option) is looked up by value unless the enum is 0..n-1
            for mname in ("rt", "opt"):
                mb = re.search(r'\n  %s\?? %s\(\) \{(.*?)\n  \}' % (f, mname), t, re.S)
                if not mb:
                    bad("dart", "method %s not generated" % mname, {})
                    continue
                body = mb.group(1)
                by_value = "firstWhere((v) => v._ffi == result" in body
                by_pos = re.search(r'values\[result', body)
                if not (by_value or (by_pos and c["contiguous"])):
                    bad("dart", "enum converted by position at a return site", {"method": mname, "body": body.strip()[:300]})
        if "kotlin" in outs:
            kt = [os.path.join(rr, x) for rr, _, fs in os.walk(outs["kotlin"]) for x in fs if x == f + ".kt"][0]
            t = open(kt).read()
            tab = re.findall(r'\b(V\d+)\((-?\d+)\)', t)
            order = re.search(r'enum class %s[^{]*\{(.*?);' % f, t, re.S).group(1)
            order = re.findall(r'\b(V\d+)\b', order)
            if order != ["V%d" % i for i in range(k)]:
                bad("kotlin", "variant order differs", {"order": order})
            if tab:
                when = dict((b, int(a)) for a, b in re.findall(r'(-?\d+) -> (V\d+)', t))
                if [int(v) for _, v in tab] != discs or [when.get("V%d" % i) for i in range(k)] != discs or "this.inner" not in t:
                    bad("kotlin", "table scheme has wrong numbers", {"table": tab, "when": when})
            else:
                if "this.ordinal" not in t or ".entries[native]" not in t or not c["contiguous"]:
                    bad("kotlin", "position scheme used for a non-contiguous enum", {"text": t[:600]})
            # use sites: every method that sends the enum to Rust or gets one back (by value, or inside an Option) converts through the
            # enum's own toNative / fromNative (by discriminant) -- never through its position (entries, values(), ordinal), unless the
            # class itself uses the position scheme
            for mname in ("rt", "opt"):
                mb = re.search(r'\n    fun %s\(\)[^{]*\{(.*?)\n    \}' % mname, t, re.S)
                if not mb:
                    bad("kotlin", "method %s not generated" % mname, {})
                    continue
                body = mb.group(1)
                by_table = ("%s.fromNative(" % f) in body and "this.toNative()" in body
                by_pos = re.search(r'\bentries\b|\bvalues\(\)|\bordinal\b', body)
                if (tab and (by_pos or not by_table)) or (not tab and not c["contiguous"]):
                    bad("kotlin", "enum converted by position at a use site", {"method": mname, "body": body.strip()[:400]})
            # ... and the same when the enum is a struct field read out of the native mirror
            wk = [os.path.join(rr, x) for rr, _, fs in os.walk(outs["kotlin"]) for x in fs if x == "W%s.kt" % f[1:]]
            if not wk:
                bad("kotlin", "struct with an enum field not generated", {})
            else:
                wt = open(wk[0]).read()
                fm = re.search(r'val e: %s = ([^\n]*)' % f, wt)
                init = fm.group(1) if fm else ""
                if ("%s.fromNative(nativeStruct.e)" % f) not in init or re.search(r'\bentries\b|\bvalues\(\)|\bordinal\b', init):
                    bad("kotlin", "enum-typed struct field converted by position (or not by the enum's own fromNative)", {"initializer": init[:300]})
        if "nanobind" in outs:
            t = open(os.path.join(outs["nanobind"], "somelib_ext.cpp")).read()
            m = re.search(r'nb::enum_<%s::Value>\(e_class, "%s"\)(.*?)\.export_values' % (f, f), t, re.S)
            vals = re.findall(r'\.value\("(V\d+)", %s::(V\d+)\)' % f, m.group(1)) if m else None
            if vals != [("V%d" % i, "V%d" % i) for i in range(k)]:
                bad("nanobind", "python enum values differ", {"values": vals})
        ncmp += 1
        if (not c["contiguous"]) or any(x < 0 for x in discs):
            rep.nontriv(json.dumps(c["lits"]))
    rep.evaluations += ncmp * 7
    rep.traces += ncmp
    rep.sample({"enum": render(0, cases[0]), "discs": cases[0]["discs"]})
    rep.exhaustive = (tier == "thorough")
