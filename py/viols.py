#!/usr/bin/env python3
import json, glob, sys
from collections import Counter
pid = sys.argv[1]
c = Counter(); ex = {}
for f in sorted(glob.glob('/verif/work/%s/viol-*.json' % pid)):
    v = json.load(open(f))
    k = json.dumps({a: b for a, b in v['key'].items() if a not in ('ty', 'profile')}, sort_keys=True)
    c[k] += 1
    d = v['detail']
    o = d.get('observed', {}) if isinstance(d, dict) else {}
    ex.setdefault(k, []).append((v['key'].get('ty'), v['key'].get('profile'), (o.get('errors') or [])[:1] if isinstance(o, dict) else o, o.get('panic') if isinstance(o, dict) else None))
for k, n in c.most_common():
    print(k, n)
    for e in ex[k][:int(sys.argv[2]) if len(sys.argv) > 2 else 8]:
        print('    ', e)
