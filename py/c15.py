"""C15 — after successful lowering no backend crashes (spec/pipeline)."""
import json, os, random, re
import lib, profiles, render
import c05, c04

CONFIGS = {
    "c": [[]], "cpp": [[]], "dart": [[]],
    "demo_gen": [[], ["demo_gen.explicit_generation=true"], ["demo_gen.hide_default_renderer=true"], ["demo_gen.module_name=somemod"]],
    "js": [[], ["js.abi=legacy"], ["js.abi=spec"]],
    "kotlin": [[], ["kotlin.use_finalizers_not_cleaners=true"]],
    "nanobind": [[], ["lib_name=otherlib"]],
}

EXTRA_PRELUDE = """    pub struct StB<'p> { pub f: &'p Opq, pub s: DiplomatStrSlice<'p> }
    #[diplomat::opaque]
    pub struct OpLt<'p>(&'p u8);
    pub struct St2L<'p, 'q> { pub a: DiplomatStrSlice<'p>, pub b: DiplomatStrSlice<'q> }
    pub struct OuterL<'x> { pub pair: St2L<'x, 'x>, pub n: u8 }
"""


def extra_items():
    """Hand-listed families that combine features (optional borrowed inputs whose lifetime the return uses,
    nested structs, write + result, ...). Each is (items_text, ctx)."""
    fam = []
    n = [100000]

    def add(sig, body="todo!()"):
        i = n[0]
        n[0] += 1
        fam.append((i, "    #[diplomat::opaque]\n    pub struct H%d(u8);\n    impl H%d {\n        pub fn m%s { %s }\n    }\n" % (i, i, sig, body),
                    "H%d::m" % i, sig))
    for p in ["Option<StB<'a>>", "DiplomatOption<StB<'a>>", "Option<&'a [u8]>", "Option<&'a str>", "Option<&'a DiplomatStr16>",
              "StB<'a>", "&'a [u8]", "&'a str", "Option<&'a Opq>", "&'a mut Opq", "&'a [f64]", "&'a mut [u16]"]:
        for r in ["&'a Opq", "Box<OpLt<'a>>", "StB<'a>", "&'a str", "Option<&'a Opq>", "Result<&'a Opq, ()>", "Option<StB<'a>>"]:
            add("<'a>(&'a self, x: %s) -> %s" % (p, r))
            add("<'a>(x: %s) -> %s" % (p, r))
    # a struct with MORE lifetimes in its definition than the use site has (both slots filled with the one method lifetime; nested in
    # a one-lifetime struct), static and instance methods, with and without a result that borrows from it
    for p in ["St2L<'a, 'a>", "OuterL<'a>"]:     # (the optional form is the recorded borrowing_param.rs finding whatever the struct)
        for r in ["Box<OpLt<'a>>", "St2L<'a, 'a>", "OuterL<'a>", "u8"]:
            add("<'a>(x: %s) -> %s" % (p, r))
            add("<'a>(&self, x: %s) -> %s" % (p, r))
    for r in ["Result<(), ()>", "Option<()>", "()", "Result<(), En>", "Result<Strct, ()>"]:
        add("(&self, w: &mut DiplomatWrite) -> %s" % r)
        add("(&self, a: u8, w: &mut DiplomatWrite) -> %s" % r)
    for r in ["Result<u8, ()>", "Result<(), u8>", "Result<Box<Opq>, En>", "Result<Strct, Strct>", "Result<OutS, ()>", "Option<En>",
              "Option<Strct>", "Option<OutS>", "Option<Box<Opq>>", "Result<Option<Box<Opq>>, ()>", "Result<Option<u8>, Option<En>>",
              "core::cmp::Ordering", "Option<Option<u8>>", "Result<Zst, ()>", "Option<Zst>", "char", "bool", "f32", "isize"]:
        add("(&self) -> %s" % r)
    for r in ["&'static Opq", "&'static str", "Option<&'static Opq>", "Box<OpLt<'static>>", "&'static [u8]"]:
        add("(&self) -> %s" % r)
    for p in ["&'static Opq", "&'static str", "&'static [u8]", "Option<&'static Opq>"]:
        add("(&self, x: %s)" % p, "")
    # --- families added after measuring which backend branches the programs above never reach (llvm-cov of diplomat-tool
    # under all quick checks): slices of every element type, zero-sized structs on both Result arms, callbacks on methods of
    # STRUCTS (kotlin derives the wrapper name from the struct), 'static borrows in struct fields, several special methods
    # on one type (getter/setter pairs become one property in nanobind, iterator/iterable pairs)
    for e in ["i8", "u16", "i16", "u32", "i32", "u64", "isize", "usize", "f32", "f64", "DiplomatByte"]:
        add("(&self, x: &[%s])" % e, "")
        add("<'a>(&'a self) -> &'a [%s]" % e)
        add("(&self, x: &mut [%s])" % e, "")
    for r in ["Result<Zst, Zst>", "Result<Zst, En>", "Result<Strct, Zst>"]:     # (a zero-sized OUT-struct is refused at its definition)
        add("(&self) -> %s" % r)
    k = [300000]

    def add_item(text, ctx, shape):
        fam.append((k[0], text, ctx, shape))
        k[0] += 1
    for cbty in ["u8", "En", "Strct", "f64", "bool", "char", "&[u8]", "Strct, En", "u8, i64, f32"]:
        for cbret in ["", " -> u8", " -> En", " -> Strct", " -> bool"]:
            i = k[0]
            add_item("    pub struct Sc%d {\n        pub a: u8,\n    }\n    impl Sc%d {\n        pub fn m(self, f: impl Fn(%s)%s) {}\n    }\n" % (i, i, cbty, cbret),
                     "Sc%d::m" % i, "struct-method callback impl Fn(%s)%s" % (cbty, cbret))
    for fty in ["&'static Opq", "DiplomatSlice<'static, u8>", "DiplomatStrSlice<'static>", "Option<&'static Opq>"]:
        i = k[0]
        add_item("    pub struct Sf%d {\n        pub f: %s,\n        pub g: u8,\n    }\n    #[diplomat::opaque]\n    pub struct Hf%d(u8);\n"
                 "    impl Hf%d {\n        pub fn take(&self, s: Sf%d) {}\n        pub fn give(&self) -> Sf%d { todo!() }\n    }\n" % (i, fty, i, i, i, i),
                 "Hf%d::take" % i, "struct field %s (input and returned)" % fty)
    combos = [("getter+setter same name", '        #[diplomat::attr(auto, getter = "val")]\n        pub fn get_val(&self) -> u8 { 0 }\n'
               '        #[diplomat::attr(auto, setter = "val")]\n        pub fn set_val(&mut self, v: u8) {}\n'),
              ("STATIC getter+setter same name", '        #[diplomat::attr(auto, getter = "val")]\n        pub fn get_val() -> u8 { 0 }\n'
               '        #[diplomat::attr(auto, setter = "val")]\n        pub fn set_val(v: u8) {}\n'),
              ("STATIC setter declared before its getter", '        #[diplomat::attr(auto, setter = "val")]\n        pub fn set_val(v: En) {}\n'
               '        #[diplomat::attr(auto, getter = "val")]\n        pub fn get_val() -> En { En::A }\n'),
              ("two getters and a setter", '        #[diplomat::attr(auto, getter = "a")]\n        pub fn a(&self) -> u8 { 0 }\n'
               '        #[diplomat::attr(auto, getter = "b")]\n        pub fn b(&self) -> En { En::A }\n'
               '        #[diplomat::attr(auto, setter = "b")]\n        pub fn set_b(&mut self, v: En) {}\n'),
              ("constructor + named constructors", '        #[diplomat::attr(auto, constructor)]\n        pub fn new() -> Box<Self> { todo!() }\n'
               '        #[diplomat::attr(auto, named_constructor = "other")]\n        pub fn other(x: u8) -> Box<Self> { todo!() }\n'
               '        #[diplomat::attr(auto, named_constructor = "fallible")]\n        pub fn fallible(x: u8) -> Result<Box<Self>, ()> { todo!() }\n'),
              ("stringifier + comparison", '        #[diplomat::attr(auto, stringifier)]\n        pub fn show(&self, w: &mut DiplomatWrite) {}\n'
               '        #[diplomat::attr(auto, comparison)]\n        pub fn cmp(&self, o: &Self) -> core::cmp::Ordering { todo!() }\n'),
              ("indexer + arithmetic", '        #[diplomat::attr(auto, indexer)]\n        pub fn at(&self, i: usize) -> Option<u8> { None }\n'
               '        #[diplomat::attr(auto, add)]\n        pub fn plus(&self, o: &Self) -> Box<Self> { todo!() }\n'
               '        #[diplomat::attr(auto, sub_assign)]\n        pub fn minus_eq(&mut self, o: &Self) {}\n')]
    for name, body in combos:
        i = k[0]
        add_item("    #[diplomat::opaque]\n    pub struct Sm%d(u8);\n    impl Sm%d {\n%s    }\n" % (i, i, body), "Sm%d" % i, "special combo: " + name)
    i = k[0]
    add_item("    #[diplomat::opaque]\n    pub struct It%d(u8);\n    impl It%d {\n        #[diplomat::attr(auto, iterator)]\n"
             "        pub fn next(&mut self) -> Option<u8> { None }\n    }\n    #[diplomat::opaque]\n    pub struct Ib%d(u8);\n    impl Ib%d {\n"
             "        #[diplomat::attr(auto, iterable)]\n        pub fn iter<'a>(&'a self) -> Box<It%d> { todo!() }\n    }\n" % (i, i, i, i, i),
             "Ib%d::iter" % i, "special combo: iterable returning an iterator type")
    # demo attributes (read by demo_gen only, under its non-default configuration keys as well): which write-out methods are
    # marked `generate`, a default constructor, labelled inputs, an external type, a custom function file
    G = "        #[diplomat::demo(generate)]\n"
    for g1 in ("", G):
        for g2 in ("", G):
            i = k[0]
            add_item("    #[diplomat::opaque]\n    pub struct Dm%d(u8);\n    impl Dm%d {\n        #[diplomat::demo(default_constructor)]\n"
                     "        pub fn make(v: u8) -> Box<Dm%d> { todo!() }\n%s        pub fn show(&self, w: &mut DiplomatWrite) {}\n"
                     "%s        pub fn show2(&self, #[diplomat::demo(input(label = \"Amount\", default_value = 3))] a: u8, w: &mut DiplomatWrite) {}\n"
                     "        pub fn plain(&self) -> u8 { 0 }\n    }\n" % (i, i, i, g1, g2),
                     "Dm%d" % i, "demo attrs: generate on %s of two write-out methods" % ("none" if not g1 and not g2 else ("both" if g1 and g2 else ("first" if g1 else "second"))))
    i = k[0]
    add_item("    #[diplomat::demo(external)]\n    #[diplomat::opaque]\n    pub struct Dx%d(u8);\n    #[diplomat::opaque]\n    pub struct Dy%d(u8);\n"
             "    impl Dy%d {\n        pub fn show(&self, x: &Dx%d, w: &mut DiplomatWrite) {}\n    }\n" % (i, i, i, i), "Dy%d::show" % i, "demo attrs: external parameter type")
    i = k[0]
    add_item("    pub struct Dc%d {\n        #[diplomat::demo(input(label = \"First\"))]\n        pub a: u8,\n        pub b: bool,\n    }\n"
             "    #[diplomat::demo(custom_func = \"custom.mjs\")]\n    #[diplomat::opaque]\n    pub struct Dd%d(u8);\n    impl Dd%d {\n"
             "        pub fn show(&self, c: Dc%d, w: &mut DiplomatWrite) {}\n        pub fn fallible(&self, w: &mut DiplomatWrite) -> Result<(), En> { Ok(()) }\n    }\n" % (i, i, i, i),
             "Dd%d::show" % i, "demo attrs: labelled struct field, custom_func type, write-out returning Result<(), En>")
    # --- documentation links: every rust_link kind, with the shortest path its kind allows, a longer one, and one or two segments too few
    # (a link is part of the accepted module: whatever lowering lets through, the docs-rendering backends have to survive)
    kinds = {"Mod": 0, "Struct": 1, "Enum": 1, "Trait": 1, "Fn": 1, "Macro": 1, "Constant": 1, "Typedef": 1, "EnumVariantField": 3}
    for kk in ["StructField", "EnumVariant", "FnInStruct", "FnInTypedef", "FnInEnum", "FnInTrait", "DefaultFnInTrait",
               "AssociatedConstantInEnum", "AssociatedConstantInTrait", "AssociatedConstantInStruct", "AssociatedTypeInEnum",
               "AssociatedTypeInTrait", "AssociatedTypeInStruct"]:
        kinds[kk] = 2
    segs = ["lnk", "alpha", "beta", "gamma", "delta", "eps"]
    for kind, need in sorted(kinds.items()):
        for nseg, disp in ((1 + need, ""), (3 + need, ", compact"), (need, ""), (need - 1, "")):
            if nseg < 1:
                continue
            i = k[0]
            add_item("    #[diplomat::opaque]\n    #[diplomat::rust_link(%s, %s%s)]\n    pub struct Lk%d(u8);\n    impl Lk%d {\n"
                     "        #[diplomat::rust_link(%s, %s%s)]\n        pub fn m(&self) -> u8 { 0 }\n    }\n"
                     % ("::".join(segs[:nseg]), kind, disp, i, i, "::".join(segs[:nseg]), kind, disp),
                     "Lk%d" % i, "rust_link %s with %d path segments%s" % (kind, nseg, " (%d too few)" % (1 + need - nseg) if nseg <= need else ""))
    for p in ["char", "&[i64]", "Option<char>", "&[bool]", "&[char]", "Box<[u8]>", "Box<str>", "Box<DiplomatStr16>",
              "&[DiplomatStrSlice]", "&[DiplomatStr16Slice]", "&[DiplomatUtf8StrSlice]", "Option<&[DiplomatStrSlice]>",
              "Option<Box<[u8]>>", "Option<Box<str>>"]:
        add("(&self, x: %s)" % p, "")
    return fam


_special_cache = {}


def Class_fallible(m):
    return m["ret"] in ("res_self", "res_unit", "res_prim")


def special_items(prof):
    """methods carrying special-method markers (constructor, getter, iterator, comparison, ...) that Special.tla ACCEPTS for
    this backend's flags: accepted modules contain them as much as plain methods, and backends render them very differently"""
    import extra
    if "cases" not in _special_cache:
        r = lib.tlc("special", "MC_Special", "special.cfg", workers=2, coverage=False, timeout=900)
        lib.tlc_expect_ok(r, "Special: case emission")
        _special_cache["cases"] = r.printed["CASE"]
        _special_cache["tlc"] = r
    sup = set(prof["supports"])
    flags = {k: (k in sup) for k in ("constructors", "fallible_constructors", "static_accessors")}
    rel = {"constructor": ("constructors", "fallible_constructors"), "named_constructor": ("constructors", "fallible_constructors"),
           "getter": ("static_accessors",), "setter": ("static_accessors",)}
    # the property quantifies "within each backend's declared feature support": a marker is only used where the backend
    # declares the feature behind it
    feature_of = {"constructor": "constructors", "named_constructor": "named_constructors", "getter": "accessors", "setter": "accessors",
                  "stringifier": "stringifiers", "comparison": "comparators", "iterator": "iterators", "iterable": "iterables",
                  "indexer": "indexing", "add": "arithmetic", "add_assign": "arithmetic"}
    out, seen = [], set()
    for n, c in enumerate(_special_cache["cases"]):
        if c["errs"]:
            continue
        m = c["m"]
        if feature_of[m["mk"]] not in sup:
            continue
        if Class_fallible(m) and m["mk"] in ("constructor", "named_constructor") and "fallible_constructors" not in sup:
            continue
        # the emitted flag vector must agree with the backend on the flags that matter for this marker
        if any(c["f"][k] != flags[k] for k in rel.get(m["mk"], ())):
            continue
        key = json.dumps(m, sort_keys=True)
        if key in seen:
            continue
        seen.add(key)
        item, ctx = extra.render_special(n, m)
        shape = "special %s on %s: (%s%s) -> %s" % (m["mk"], m["tk"], m["self"], "".join(", " + p for p in m["params"]), m["ret"])
        out.append((200000 + n, item, ctx, shape))
    return out


def module_of(items):
    return ("#[diplomat::bridge]\nmod ffi {\n    use diplomat_runtime::{DiplomatOption, DiplomatSlice, DiplomatStrSlice, DiplomatStr16Slice, "
            "DiplomatUtf8StrSlice, DiplomatWrite, DiplomatStr, DiplomatStr16, DiplomatByte};\n" + render.PRELUDE + EXTRA_PRELUDE + "\n".join(items) + "}\n")


def lower_ok_subset(cases, prof, wd):
    """In-process lowering with the backend's profile; returns the cases that lower successfully *together*."""
    live = list(cases)
    for _ in range(8):
        if not live:
            return []
        inp = os.path.join(wd, "l.ndjson")
        out = os.path.join(wd, "l.out.ndjson")
        lib.write_ndjson(inp, [{"id": 0, "src": module_of([c[1] for c in live]), "profile": prof, "urefs": False}])
        lib.dv(["lower", inp, out])
        r = lib.read_ndjson(out)[0]
        if r["ok"]:
            return live
        if r["panic"]:
            # isolate panicking items one by one (AST parse panics): keep those that lower alone
            lib.write_ndjson(inp, [{"id": c[0], "src": module_of([c[1]]), "profile": prof, "urefs": False} for c in live])
            lib.dv(["lower", inp, out])
            rs = lib.read_ndjson(out)
            live = [c for c, x in zip(live, rs) if x["ok"]]
            continue
        # an item is dropped when an error names one of the types it defines (or one of their methods)
        bad = set(ctx.split("::")[0] for ctx, _ in r["errors"])
        nxt = [c for c in live if not (set(re.findall(r'pub (?:struct|enum|trait) (\w+)', c[1])) & bad)]
        if len(nxt) == len(live):
            return []
        live = nxt
    return []


DISABLED_USES = [("opaque param", "pub fn u(&self, x: &DisO) {}"), ("struct param", "pub fn u(&self, x: DisS) {}"),
                 ("enum param", "pub fn u(&self, x: DisE) {}"), ("enum return", "pub fn u(&self) -> DisE { todo!() }"),
                 ("struct return", "pub fn u(&self) -> DisS { todo!() }"), ("boxed opaque return", "pub fn u(&self) -> Box<DisO> { todo!() }"),
                 ("result error", "pub fn u(&self) -> Result<u8, DisE> { todo!() }"), ("optional opaque param", "pub fn u(&self, x: Option<&DisO>) {}")]


def disabled_usage_leg(rep, wd, events):
    """a type disabled for a backend but still used by an enabled method or field: the backend has to say so through its
    diagnostics (or cope) -- every backend has a 'Found usage of disabled type' path that nothing else reaches"""
    n = 0
    decl = ("    #[diplomat::attr(*, disable)]\n    #[diplomat::opaque]\n    pub struct DisO(u8);\n"
            "    #[diplomat::attr(*, disable)]\n    pub struct DisS {\n        pub a: u8,\n    }\n"
            "    #[diplomat::attr(*, disable)]\n    #[diplomat::attr(kotlin, error)]\n    pub enum DisE {\n        A,\n        B,\n    }\n")
    progs = [(name, decl + "    #[diplomat::opaque]\n    pub struct User(u8);\n    impl User {\n        %s\n    }\n" % m) for name, m in DISABLED_USES]
    progs.append(("struct field", decl + "    pub struct Holder {\n        pub e: DisE,\n        pub s: DisS,\n    }\n"
                  "    #[diplomat::opaque]\n    pub struct User(u8);\n    impl User {\n        pub fn u(&self, h: Holder) {}\n    }\n"))
    for b in lib.BACKENDS:
        for name, body in progs:
            src = os.path.join(wd, "disabled.rs")
            open(src, "w").write("#[diplomat::bridge]\nmod ffi {\n" + body + "}\n")
            r = lib.run_tool(b, src, os.path.join(wd, "out_dis_" + b))
            rid = "%s|disabled:%s" % (b, name)
            lowered = not r["lowering_errors"]
            events.append({"ev": "Lower", "run": rid, "ok": lowered, "panic": False})
            n += 1
            if r["panicked"]:
                site, msg = panic_msg(r["stderr"])
                if lowered:
                    events.append({"ev": "Generate", "run": rid, "outcome": "panic"})
                rep.violation({"backend": b, "panic_site": site, "panic": msg, "shape": "use of a disabled type: " + name},
                              {"source": open(src).read(), "stderr": r["stderr"][-1200:]})
            elif lowered:
                events.append({"ev": "Generate", "run": rid, "outcome": "files" if r["rc"] == 0 else "errors"})
                rep.nontriv(rid)
    return n


def known_shape(b, shape):
    """does a recorded (status=known) finding cover this backend/shape? (site and message are checked when it fires)"""
    for f in lib.known_findings():
        if f.get("property") != "C15" or f.get("status") != "known":
            continue
        k = f["key"]
        if b in k["backend"] and re.fullmatch(k["shape"][3:], shape, re.S):
            return True
    return False


def panic_msg(stderr):
    m = re.search(r"panicked at ([^\n:]+):\d+:\d+:\n([^\n]*)", stderr)
    if m:
        return m.group(1), re.sub(r"\d+", "N", m.group(2))[:160]
    return "?", "?"


def run(rep, tier):
    wd = rep.wd
    rep.rule = ("programs = every shape the Gate spec accepts for the backend's probed profile (one type per shape, batched), hand-listed "
                "combination families (optional/borrowed inputs x borrowing returns, write+result, unit/ZST arms, 128-bit, slices of "
                "strings) and accepted Lifetimes signatures; each batch is lowered in-process (LowerOk event) and run through the real "
                "binary per backend and config variant (Generate event); traces are validated by Trace_Pipeline.tla, panics are "
                "bisected to single shapes; non-trivial = distinct (backend, config, shape) executed after successful lowering")
    rep.assumptions += ["required configuration (kotlin domain/lib_name, nanobind lib_name) is always supplied",
                        "128-bit integers in the C family are documented as unsupported: an *error* is fine, a panic is not"]
    r = lib.tlc("pipeline", "MC_Pipeline", "pipe.cfg", workers=2)
    lib.tlc_expect_ok(r, "Pipeline")
    rep.add_tlc("Pipeline", r)
    rn = lib.tlc("pipeline", "MC_Pipeline", "pipe_neg.cfg", workers=2, coverage=False)
    lib.tlc_expect_violation(rn, "Pipeline with a crashing backend", "NoCrashAfterLowering")
    g = lib.tlc("gate", "MC_Gate", "gate1_emit.cfg" if tier == "quick" else "gate2_emit.cfg", workers=8, coverage=False)
    lib.tlc_expect_ok(g, "Gate")
    rep.add_tlc("Gate(cases)", g)
    gcases = [c for c in g.printed["CASE"] if c["accept"] and not c["urefs"]]
    profs = profiles.profiles()
    extra = extra_items()
    events = []
    nexec = 0
    for b in lib.BACKENDS:
        prof = profs[b]
        sup = set(prof["supports"])
        cand = []
        for n, c in enumerate(gcases):
            if set(c["need"]) <= sup:
                items, ctx = render.gate_item(n, c["pos"], c["ty"])
                cand.append((n, items, ctx, "%s %s" % (c["pos"], render.ty(c["ty"]))))
        cand += extra
        cand += special_items(prof)
        live = lower_ok_subset(cand, prof, wd)
        if not live:
            raise lib.ToolError("no program lowers for backend %s" % b)
        live_all = list(live)
        for cfgv in CONFIGS[b]:
            run_id = "%s|%s" % (b, ",".join(cfgv))
            src = os.path.join(wd, "prog_%s.rs" % b)

            def fails(items, _b=b, _cfg=cfgv, _src=src):
                open(_src, "w").write(module_of([c[1] for c in items]))
                r_ = lib.run_tool(_b, _src, os.path.join(wd, "out_" + _b), config=_cfg)
                fails.last = r_
                return r_["panicked"] or (r_["rc"] != 0 and "Lowering error" in r_["stderr"])
            # shapes covered by a recorded finding are run one by one (each must reproduce its recorded panic site and
            # message to be reported as KNOWN-FINDING; if it no longer panics nothing is printed); the rest as one batch
            kn = [c for c in live if known_shape(b, c[3])]
            live_rest = [c for c in live if not known_shape(b, c[3])]
            for c in kn:
                rid = "%s|%s" % (run_id, c[3])
                if fails([c]):
                    res = fails.last
                    events.append({"ev": "Lower", "run": rid, "ok": True, "panic": False})
                    events.append({"ev": "Generate", "run": rid, "outcome": "panic" if res["panicked"] else "errors"})
                    if res["panicked"]:
                        site, msg = panic_msg(res["stderr"])
                        rep.violation({"backend": b, "panic_site": site, "panic": msg, "shape": c[3]},
                                      {"config": cfgv, "source": module_of([c[1]]), "stderr": res["stderr"][-1200:]})
                else:
                    nexec += 1
            live = live_rest
            bad = fails(live)
            first = fails.last
            events.append({"ev": "Lower", "run": run_id, "ok": True, "panic": False})
            if not bad:
                events.append({"ev": "Generate", "run": run_id, "outcome": "files" if first["rc"] == 0 else "errors"})
                nexec += len(live)
                for c in live:
                    rep.nontriv("%s|%s" % (run_id, c[3]))
                continue
            culprits = lib.bisect_culprits(live, fails)
            for grp in culprits:
                fails(grp)
                res = fails.last
                rid = "%s|%s" % (run_id, grp[0][3])
                events.append({"ev": "Lower", "run": rid, "ok": True, "panic": False})
                if res["panicked"]:
                    site, msg = panic_msg(res["stderr"])
                    events.append({"ev": "Generate", "run": rid, "outcome": "panic"})
                    shape = grp[0][3] if len(grp) == 1 else "combination of %d shapes" % len(grp)
                    rep.violation({"backend": b, "panic_site": site, "panic": msg, "shape": shape},
                                  {"config": cfgv, "source": module_of([c[1] for c in grp]), "stderr": res["stderr"][-1200:]})
                else:
                    # in-process lowering accepted but the binary reports a lowering error: the two entry points disagree
                    rep.violation({"backend": b, "what": "binary rejects what diplomat_core accepts", "shape": grp[0][3]},
                                  {"config": cfgv, "stderr": res["stderr"][-800:]})
            culprit_ids = set(c[0] for grp in culprits for c in grp)
            rest = [c for c in live if c[0] not in culprit_ids]
            if rest and not fails(rest):
                events.append({"ev": "Generate", "run": run_id, "outcome": "files" if fails.last["rc"] == 0 else "errors"})
                nexec += len(rest)
                for c in rest:
                    rep.nontriv("%s|%s" % (run_id, c[3]))
        # ---- solo runs: a shape must not need OTHER items to be generated (helper classes are created on first use and cached:
        # the first user decides what gets created).  Every slice / string shape of the hand-listed families alone in a module
        # (thorough: every hand-listed item)
        solo = [c for c in live_all if c[0] >= 100000 and not known_shape(b, c[3]) and (tier == "thorough" or re.search(r'\[|Str|str', c[3]))]
        src = os.path.join(wd, "solo_%s.rs" % b)
        for c in solo:
            open(src, "w").write(module_of([c[1]]))
            r_ = lib.run_tool(b, src, os.path.join(wd, "out_solo_" + b), config=CONFIGS[b][0])
            rid = "%s|solo|%s" % (b, c[3])
            events.append({"ev": "Lower", "run": rid, "ok": True, "panic": False})
            if r_["panicked"]:
                site, msg = panic_msg(r_["stderr"])
                events.append({"ev": "Generate", "run": rid, "outcome": "panic"})
                rep.violation({"backend": b, "panic_site": site, "panic": msg, "shape": c[3], "alone": True},
                              {"config": CONFIGS[b][0], "source": module_of([c[1]]), "stderr": r_["stderr"][-1200:]})
            else:
                events.append({"ev": "Generate", "run": rid, "outcome": "files" if r_["rc"] == 0 else "errors"})
                nexec += 1
                rep.nontriv("%s|solo|%s" % (b, c[3]))
    nexec += disabled_usage_leg(rep, wd, events)
    tr = os.path.join(wd, "trace.ndjson")
    good = [e for e in events]
    lib.write_ndjson(tr, good)
    # the trace as a whole: TLC rejects it at the first panic event; report is already per culprit, so validate the
    # panic-free projection (must be accepted) and, separately, show that a panic event is rejected (binding self-test)
    pf = []
    runs_with_panic = set(e["run"] for e in events if e.get("outcome") == "panic")
    pf = [e for e in events if e["run"] not in runs_with_panic]
    trp = os.path.join(wd, "trace_ok.ndjson")
    lib.write_ndjson(trp, pf)
    ok, vrs = lib.validate_trace_by_run("pipeline", "Trace_Pipeline", "trace.cfg", pf, wd, "okc")
    for i, vr in enumerate(vrs):
        rep.add_tlc("Trace_Pipeline/%d" % i, vr)
    if not ok:
        raise lib.ToolError("panic-free projection of the trace rejected: %s" % [v.printed for v in vrs if v.rc != 0][:1])
    bad = os.path.join(wd, "trace_bad.ndjson")
    lib.write_ndjson(bad, pf[:2] + [{"ev": "Lower", "run": "selftest", "ok": True, "panic": False},
                                    {"ev": "Generate", "run": "selftest", "outcome": "panic"}])
    ok2, _ = lib.validate_trace("pipeline", "Trace_Pipeline", "trace.cfg", bad)
    if ok2:
        raise lib.ToolError("binding self-test failed: a panic after lowering was accepted by the trace spec")
    rep.evaluations += nexec
    rep.traces += len(set(e["run"] for e in events))
    rep.sample({"events": events[:4]})
    rep.exhaustive = False
