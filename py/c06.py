"""C06 — every backend calls exactly the symbols the Rust library exports (spec/abi/Naming.tla)."""
import json, os, random, re
import lib, observe


ALT_CONFIGS = {"kotlin": [["kotlin.use_finalizers_not_cleaners=true"]], "js": [["js.abi=spec"]]}


def pat_attr(p, n):
    if p["k"] == "none":
        return ""
    if p["k"] == "fixed":
        return '#[diplomat::abi_rename = "%s%d"]\n' % (p["s"], n)
    return '#[diplomat::abi_rename = "%s{0}%s"]\n' % (p["p"], p["q"])


def concretise(sym, n):
    for a, b in (("T_m", "T%d_m" % n), ("T_destroy", "T%d_destroy" % n), ("U_u1", "U%d_u1" % n), ("U_destroy", "U%d_destroy" % n),
                 ("fx_t", "fx_t%d" % n), ("fx_me", "fx_me%d" % n)):
        sym = sym.replace(a, b)
    return sym


def render(n, c):
    d = c["dis"]
    tattr = mattr = m1attr = iattr = ""
    if d["k"] == "disable_T":
        tattr = "    #[diplomat::attr(%s, disable)]\n" % d["b"]
    elif d["k"] == "rename_T":
        tattr = '    #[diplomat::attr(%s, rename = "Ren%d")]\n' % (d["b"], n)
    elif d["k"] == "disable_m2":
        mattr = "        #[diplomat::attr(%s, disable)]\n" % d["b"]
    elif d["k"] == "disable_m1":
        m1attr = "        #[diplomat::attr(%s, disable)]\n" % d["b"]
    elif d["k"] == "disable_i":
        iattr = "    #[diplomat::attr(%s, disable)]\n" % d["b"]
    ind = lambda s, k: "".join(" " * k + l + "\n" for l in s.splitlines())
    # other attributes may stand in FRONT of #[diplomat::bridge] (a doc comment, a lint attribute): the module is a bridge all the same
    front = ["", "/// Bindings of module %d.\n" % n, "#[allow(unused)]\n"][n % 3]
    return (front + "#[diplomat::bridge]\n" + pat_attr(c["pm"], n) + "pub mod p%d {\n" % n +
            # the opaque type is a struct or (odd n) an enum: the two are parsed by different constructors
            ind(pat_attr(c["pt"], n), 4) + tattr + ("    #[diplomat::opaque]\n    pub struct T%d(pub u8);\n" % n if n % 2 == 0 else
                                                   "    #[diplomat::opaque]\n    pub enum T%d {\n        A,\n        B,\n    }\n" % n) +
            ind(pat_attr(c["pi"], n), 4) + iattr + "    impl T%d {\n" % n +
            ind(pat_attr(c["pme"], n), 8) + m1attr + "        pub fn m1(&self) -> u8 { 1 }\n" + mattr +
            "        pub fn m2(&self, x: u8) -> u8 { x }\n    }\n"
            "    impl T%d {\n        pub fn m3(&self) -> u8 { 3 }\n    }\n" % n +
            "    #[diplomat::opaque]\n    pub struct U%d(pub u8);\n    impl U%d {\n        pub fn u1(&self) -> u8 { self.0 }\n    }\n}\n" % (n, n))


def belongs(sym, n):
    return re.search(r'(?<![A-Za-z0-9])(T|U)%d_|fx_(t|me)%d(?!\d)' % (n, n), sym) is not None


def check_batch(rep, tag, batch, wd):
    """batch: list of (n, case). One crate, one lib.rs, 7 tool runs."""
    src = "".join(render(n, c) for n, c in batch)
    b = lib.build_bridge("c06_" + tag, src)
    if not b["ok"]:
        rep.violation({"leg": "build", "what": "bridge crate with abi_rename placements does not build"}, {"stderr": b["stderr"][-3000:]})
        return 0
    nm = lib.nm_defined(b["staticlib"])
    entry = os.path.join(b["dir"], "src", "lib.rs")
    refs = {}
    for be in lib.BACKENDS:
        out = os.path.join(wd, "out_%s_%s" % (tag, be))
        r = lib.run_tool(be, entry, out)
        if r["rc"] != 0:
            rep.violation({"leg": "tool", "backend": be, "what": "tool failed"}, {"stderr": r["stderr"][-1500:]})
            refs[be] = None
        else:
            refs[be] = observe.symbol_refs(be, out)
        # non-default configuration must not change WHICH symbols are referenced (other templates / code paths are taken)
        for cfgv in ALT_CONFIGS.get(be, []):
            out2 = os.path.join(wd, "out_%s_%s_alt" % (tag, be))
            r2 = lib.run_tool(be, entry, out2, config=cfgv)
            if r2["rc"] != 0:
                rep.violation({"leg": "tool", "backend": be, "config": cfgv, "what": "tool failed"}, {"stderr": r2["stderr"][-1500:]})
            elif refs[be] is not None:
                alt = observe.symbol_refs(be, out2)
                if alt != refs[be]:
                    rep.violation({"leg": "refs", "backend": be, "config": cfgv, "what": "referenced symbols change with the configuration"},
                                  {"only_default": sorted(refs[be] - alt)[:12], "only_with_config": sorted(alt - refs[be])[:12]})
    for n, c in batch:
        exp_all = set(concretise(s, n) for s in c["exported"].values())
        got_nm = set(s for s in nm if belongs(s, n))
        key = {"pm": c["pm"]["k"], "pt": c["pt"]["k"], "pi": c["pi"]["k"], "pme": c["pme"]["k"], "attr": c["dis"]["k"]}
        if got_nm != exp_all:
            rep.violation(dict(key, leg="nm"), {"program": render(n, c), "expected": sorted(exp_all), "exported_by_macro": sorted(got_nm)})
        for be in lib.BACKENDS:
            if refs[be] is None:
                continue
            exp = set(concretise(s, n) for s in c["refs"][be])
            got = set(s for s in refs[be] if belongs(s, n))
            if got != exp:
                rep.violation(dict(key, leg="refs", backend=be, attr_backend=c["dis"]["b"]),
                              {"program": render(n, c), "expected": sorted(exp), "referenced": sorted(got), "exported_by_macro": sorted(got_nm)})
    return len(batch)


def exact_names_leg(rep, wd):
    """ApplyPat(Fixed(s), name) = s, whatever s is: a placeholder-free abi_rename is the exported symbol verbatim -- also when it reads
    like a word some target language reserves (the macro exports it as written; a backend that escapes it refers to nothing)."""
    src = ("#[diplomat::bridge]\npub mod kw {\n    #[diplomat::opaque]\n    #[diplomat::abi_rename = \"imaginary\"]\n    pub struct Kw(pub u8);\n"
           "    impl Kw {\n        #[diplomat::abi_rename = \"complex\"]\n        pub fn get(&self) -> u8 { 1 }\n"
           "        #[diplomat::abi_rename = \"noreturn\"]\n        pub fn two(&self) -> u8 { 2 }\n    }\n}\n")
    b = lib.build_bridge("c06_exact", src)
    if not b["ok"]:
        rep.violation({"leg": "exact-names", "what": "bridge does not build"}, {"stderr": b["stderr"][-2000:]})
        return 0
    want = {"imaginary", "complex", "noreturn"}
    got_nm = set(s_ for s_ in lib.nm_defined(b["staticlib"]) if s_ in want or s_.rstrip("_") in want)
    if got_nm != want:
        rep.violation({"leg": "exact-names", "what": "macro does not export the fixed names verbatim"}, {"exported": sorted(got_nm)})
    entry = os.path.join(b["dir"], "src", "lib.rs")
    n = 0
    for be in lib.BACKENDS:
        out = os.path.join(wd, "out_exact_" + be)
        r = lib.run_tool(be, entry, out)
        if r["rc"] != 0:
            rep.violation({"leg": "exact-names", "backend": be, "what": "tool failed"}, {"stderr": r["stderr"][-800:]})
            continue
        refs = set(s_ for s_ in observe.symbol_refs(be, out) if s_.rstrip("_") in want)
        n += 1
        if refs != want:
            rep.violation({"leg": "exact-names", "backend": be, "what": "referenced symbols differ from the fixed names the macro exports"},
                          {"expected": sorted(want), "referenced": sorted(refs)})
        rep.nontriv("exact-names|" + be)
    return n


def run(rep, tier):
    wd = rep.wd
    rep.rule = ("programs = all placements (see covered) of abi_rename patterns (none / fixed / prefix{0} / {0}suffix) on module, type, impl block "
                "and method combined with a backend-specific disable/rename; expected symbol per item from Naming.tla; compared three "
                "ways: spec = nm of the crate compiled with the real macro = symbols referenced by each backend's generated code; "
                "quick replays a seeded subset, thorough all; non-trivial = programs with at least one pattern")
    rep.assumptions += ["type-level abi_rename reaches only the destructor (the book is silent; this is what macro and tool agree on)",
                        "symbol references are parsed from generated text (prototypes, capi:: calls, wasm.X(, symbol: 'X', JNA interface funs)"]
    r = lib.tlc("abi", "MC_Naming", "naming.cfg", workers=4, coverage=False)
    lib.tlc_expect_ok(r, "Naming")
    rep.add_tlc("Naming", r)
    rn = lib.tlc("abi", "MC_Naming", "naming_neg.cfg", workers=4, coverage=False)
    lib.tlc_expect_violation(rn, "composing patterns instead of innermost-wins", "ComposedAgrees")
    rep.extra["negative_models_refuted"] = 1
    cases = r.printed["CASE"]
    rng = random.Random(lib.seed())
    idx = list(range(len(cases)))
    rng.shuffle(idx)
    if tier == "quick":
        idx = idx[:70]
        size = 70
    else:
        size = 240
    n = 0
    for i in range(0, len(idx), size):
        chunk = [(k, cases[k]) for k in idx[i:i + size]]
        n += check_batch(rep, "b%d" % (i // size), chunk, wd)
    for k in idx:
        c = cases[k]
        if any(c[p]["k"] != "none" for p in ("pm", "pt", "pi", "pme")):
            rep.nontriv(k)
    rep.evaluations += exact_names_leg(rep, wd)
    rep.evaluations += n * 8
    rep.traces += n
    rep.sample({"program": render(idx[0], cases[idx[0]]), "expected": {k: concretise(v, idx[0]) for k, v in cases[idx[0]]["exported"].items()}})
    rep.exhaustive = (tier == "thorough")
