"""./extra resolve — extension spec spec/resolve/Resolve.tla: which custom type a path written in a bridge module denotes.

TLC (a) proves on the bounded program space that the tool's path walk (DRes, a transcription of PathType::resolve_with_path) ends
where Rust's name resolution (Res) ends for every valid program without a leading `self`, refutes the negative model, and
(b) emits random valid programs (`use` items: renamed, pub or private, absolute or relative, naming types, modules or other modules'
imports; a parameter path and a struct-field path).  Each program is rendered as real Rust:
  * rustc + the real proc macro compile it; the method bodies ascribe the parameter / the field to the ABSOLUTE path Res names, so the
    crate compiles only if rustc resolves every path to the type the spec says;
  * the real tool generates the C header; the parameter type and the struct's field type in it are the tool's answer.
Programs live in `pub mod p<k>` wrappers of one crate (so every bridge module is a nested one); a few are also rendered as their
own crate with genuine top-level bridge modules."""
import json, os, random, re
import lib

TAGS = {"a": ["a"], "b": ["b"], "c": ["o", "c"]}
TYPE_NAMES = {k + t for k in "OES" for t in "abc"}


def elem(e, k, wrapped):
    if e in TYPE_NAMES:
        return "%s%d" % (e, k)
    if e == "crate" and wrapped:
        return "crate::p%d" % k
    return e


def path(p, k, wrapped):
    return "::".join(elem(e, k, wrapped) for e in p)


def uses(imports, k, wrapped, rng):
    """`use` items of one module; two imports with a common first segment are sometimes written as one group"""
    out = []
    imps = list(imports)
    if len(imps) >= 2 and rng.random() < 0.5:
        x, y = imps[0], imps[1]
        n = 0
        while n < min(len(x["p"]), len(y["p"])) - 1 and x["p"][n] == y["p"][n]:
            n += 1
        if n >= 1 and x["pub"] == y["pub"]:
            def tail(i):
                t = path(i["p"][n:], k, wrapped)
                return t if elem(i["p"][-1], k, wrapped) == elem(i["n"], k, wrapped) else "%s as %s" % (t, elem(i["n"], k, wrapped))
            out.append("        %suse %s::{%s, %s};\n" % ("pub " if x["pub"] else "", path(x["p"][:n], k, wrapped), tail(x), tail(y)))
            imps = imps[2:]
    for i in imps:
        p = path(i["p"], k, wrapped)
        nm = elem(i["n"], k, wrapped)
        out.append("        %suse %s%s;\n" % ("pub " if i["pub"] else "", p, "" if elem(i["p"][-1], k, wrapped) == nm else " as " + nm))
    return "".join(out)


def program(c, k, wrapped, rng):
    """Rust text of one program (three bridge modules)"""
    ind = "    " if wrapped else ""
    absp = lambda p: ("crate::p%d::" % k if wrapped else "crate::") + "::".join(elem(e, k, wrapped) for e in p)
    site = c["site"]
    site_tag = [t for t, m in TAGS.items() if m == site["m"]][0]
    mods = {}
    for t in "abc":
        O, E, S = "O%s%d" % (t, k), "E%s%d" % (t, k), "S%s%d" % (t, k)
        fld = path(c["fld"], k, wrapped) if t == "b" else E
        body = ["        #[diplomat::opaque]\n        pub struct %s(pub u8);\n        pub enum %s {\n            X,\n            Y,\n        }\n"
                "        pub struct %s {\n            pub f: %s,\n        }\n" % (O, E, S, fld)]
        ms = []
        if t == site_tag:
            kind = c["site_type"][0]
            amp = "&" if kind == "O" else ""
            ms.append("            pub fn site(x: %s%s) -> u8 {\n                let _: %s%s = x;\n                0\n            }\n"
                      % (amp, path(site["p"], k, wrapped), amp, absp(c["site_abs"])))
        if t == "b":
            fabs = absp(TAGS[c["fld_type"][1]] + [c["fld_type"]])
            ms.append("            pub fn fld(s: %s) -> u8 {\n                let _: %s = s.f;\n                0\n            }\n" % (S, fabs))
        if ms:
            body.append("        impl %s {\n%s        }\n" % (O, "".join(ms)))
        mods[t] = "    #[diplomat::bridge]\n    pub mod %s {\n%s%s    }\n" % (t, uses(c[t], k, wrapped, rng), "".join(body))
    text = mods["a"] + mods["b"] + "    pub mod o {\n" + "".join("    " + l + "\n" for l in mods["c"].splitlines()) + "    }\n"
    if wrapped:
        return "pub mod p%d {\n%s}\n" % (k, text)
    return "".join(l[4:] + "\n" if l.startswith("    ") else l + "\n" for l in text.splitlines())


def tool_answers(out, ks, site_tags):
    """parse the generated C headers: {k: (site parameter type, field type of Sb<k>)}"""
    res = {}
    for k in ks:
        st = site_tags[k]
        site = fld = None
        hp = os.path.join(out, "O%s%d.h" % (st, k))
        if os.path.exists(hp):
            m = re.search(r'\bO%s%d_site\((?:const )?(\w+)\*? x\)' % (st, k), open(hp).read())
            site = m.group(1) if m else None
        dp = os.path.join(out, "Sb%d.d.h" % k)
        if os.path.exists(dp):
            m = re.search(r'typedef struct Sb%d \{\s*(\w+) f;' % k, open(dp).read())
            fld = m.group(1) if m else None
        res[k] = (site, fld)
    return res


def features(c):
    imps = c["a"] + c["b"] + c["c"]
    f = set()
    if any(i["n"] != i["p"][-1] for i in imps): f.add("rename")
    if any(not i["pub"] for i in imps): f.add("private")
    if any(i["p"][-1] in ("a", "b", "c", "o") for i in imps): f.add("module-import")
    if any(i["p"][-1] in ("Xa", "Ya", "Xb", "Yb", "Xc", "Yc") for i in imps): f.add("chain")
    if any(i["p"][0] == "crate" for i in imps): f.add("crate-use")
    if c["site"]["p"][0] in ("self", "crate", "super"): f.add("site-" + c["site"]["p"][0])
    if len(c["site"]["p"]) == 1 and c["site"]["p"][0] not in TYPE_NAMES: f.add("site-alias")
    if len(c["site"]["p"]) >= 2 and c["site"]["p"][0] not in ("self", "crate", "super", "a", "b", "o"): f.add("site-through-module-alias")
    names = {i["n"] for i in imps}
    if any(e in names for e in c["site"]["p"]): f.add("site-walks-import")
    if any(e in names for e in c["fld"]): f.add("field-walks-import")
    if any(e in names for e in c["site"]["p"][:-1]): f.add("site-import-mid-path")
    if c["fld"] != ["Eb"]: f.add("field-path")
    if c["fld_type"] != "Eb": f.add("field-foreign")
    if c["site"]["m"] == ["o", "c"]: f.add("site-nested")
    return f


def run(out):
    wd = lib.ensure(os.path.join(lib.WORK, "extra_resolve"))
    thorough = os.environ.get("VERIF_EXTRA_TIER") == "thorough"
    r0 = lib.tlc("resolve", "MC_Resolve", "medium.cfg" if thorough else "small.cfg", workers=8, coverage=False, timeout=3000, heap="8g")
    lib.tlc_expect_ok(r0, "Resolve: tool walk = Rust resolution on the bounded space")
    rn = lib.tlc("resolve", "MC_Resolve", "neg.cfg", workers=4, coverage=False, timeout=900)
    lib.tlc_expect_violation(rn, "alias spliced relative to the use site", "BadToolAgrees")
    rs = lib.tlc("resolve", "MC_Resolve", "sim.cfg", workers=1, simulate=1500 if thorough else 300, depth=8, coverage=False, timeout=1800)
    lib.tlc_expect_ok(rs, "Resolve: program emission")
    out["tlc"] = {"bounded_states": r0.distinct, "props": "ProgramValid, ToolAgrees, SelfUnsupported, FieldInOwnModule, AliasTransparent, PrivacyOnlyRestricts",
                  "negative_models_refuted": 1, "emitted": len(rs.printed.get("CASE", []))}
    seen, cases = set(), []
    for c in rs.printed["CASE"]:
        k = json.dumps(c, sort_keys=True)
        if k not in seen:
            seen.add(k)
            cases.append(c)
    rng = random.Random(lib.seed())
    rng.shuffle(cases)
    # half of the budget: programs whose parameter or field path actually walks through an import (most random paths are direct);
    # the other half uniformly; every feature represented at least a few times
    budget = 900 if thorough else 160
    pick, per, chosen = [], {}, set()
    def take(c):
        k = json.dumps(c, sort_keys=True)
        if k in chosen:
            return
        chosen.add(k)
        pick.append(c)
        for f in features(c):
            per[f] = per.get(f, 0) + 1
    walkers = [c for c in cases if features(c) & {"site-walks-import", "field-walks-import"}]
    for c in walkers[: budget // 2]:
        take(c)
    for c in cases:
        if len(pick) >= budget:
            break
        take(c)
    for c in cases:
        if any(per.get(f, 0) < 6 for f in features(c)):
            take(c)
    rng.shuffle(pick)
    out["cases"] = len(pick)
    out["features"] = per
    diffs = []
    selfish = [c for c in pick if c["tool_site"] == "PANIC" or c["tool_fld"] == "PANIC"]
    plain = [c for c in pick if c not in selfish]

    def diff(c, what, **kw):
        diffs.append({"what": what, "case": c, "shape": "site %s in %s; field %s; imports %s" % (
            "::".join(c["site"]["p"]), "::".join(c["site"]["m"]), "::".join(c["fld"]),
            json.dumps({t: ["%s%s as %s" % ("pub " if i["pub"] else "", "::".join(i["p"]), i["n"]) for i in c[t]] for t in "abc" if c[t]})), **kw})

    # ---- rustc: every program (also the `self` ones) in one crate ---------------------------------------------------------
    allp = plain + selfish
    src = "#![allow(unused, non_snake_case, non_camel_case_types, clippy::all)]\n" + "".join(program(c, k, True, random.Random(k)) for k, c in enumerate(allp))
    b = lib.build_bridge("resolve_all", src, timeout=2400)
    if not b["ok"]:
        bad = sorted(set(int(x) for x in re.findall(r'\bp(\d+)::', b["stderr"]) + re.findall(r'[OES][abc](\d+)\b', b["stderr"])))
        first = re.search(r'error[^\n]*\n[^\n]*\n[^\n]*\n[^\n]*', b["stderr"])
        for k in bad[:20]:
            if k < len(allp):
                diff(allp[k], "rustc rejects the program or resolves a path to another type than Res", rustc=(first.group(0) if first else b["stderr"][-600:]))
        if not bad:
            raise lib.ToolError("resolve crate does not build: " + b["stderr"][-1500:])
    out["rustc_programs"] = len(allp)
    # binding self-test: the same kind of crate with ONE ascription pointing at another type must be rejected by rustc (the oracle is live)
    c0 = next(c for c in plain if c["site_type"][0] == "O")
    wrong = dict(c0, site_abs=[x for x in (["a", "Oa"], ["b", "Ob"]) if x != c0["site_abs"]][0])
    bs = lib.build_bridge("resolve_selftest", "#![allow(unused, non_snake_case, non_camel_case_types)]\n" + program(wrong, 0, True, random.Random(0)), timeout=900)
    if bs["ok"] or "E0308" not in bs["stderr"]:
        raise lib.ToolError("binding self-test: rustc accepted a program whose ascription names another type than the path resolves to")
    out["binding_selftest"] = "wrong ascription rejected by rustc (E0308)"
    # ---- the tool on the wrapped programs without `self` -----------------------------------------------------------------
    srcp = "".join(program(c, k, True, random.Random(k)) for k, c in enumerate(plain))
    ep = os.path.join(wd, "plain.rs")
    open(ep, "w").write(srcp)
    od = os.path.join(wd, "out_plain")
    t = lib.run_tool("c", ep, od, timeout=900)
    site_tags = {k: [x for x, m in TAGS.items() if m == c["site"]["m"]][0] for k, c in enumerate(plain)}
    if t["rc"] != 0:
        # isolate: one tool run per program
        for k, c in enumerate(plain):
            e1 = os.path.join(wd, "iso.rs")
            open(e1, "w").write(program(c, k, True, random.Random(k)))
            t1 = lib.run_tool("c", e1, os.path.join(wd, "out_iso"), timeout=120)
            if t1["rc"] != 0:
                diff(c, "the tool fails on a program rustc accepts", tool=t1["stderr"][-400:].strip().splitlines()[0:3])
    else:
        ans = tool_answers(od, range(len(plain)), site_tags)
        for k, c in enumerate(plain):
            want = ("%s%d" % (c["tool_site"], k), "%s%d" % (c["tool_fld"], k))
            if ans[k] != want:
                diff(c, "the tool resolves a path to another type", spec=want, impl=ans[k])
    # ---- genuine top-level bridge modules: a few programs as their own file ------------------------------------------------
    ntop = 0
    for k, c in enumerate(plain[: (40 if thorough else 8)]):
        e1 = os.path.join(wd, "top.rs")
        open(e1, "w").write(program(c, k, False, random.Random(k)))
        o1 = os.path.join(wd, "out_top")
        t1 = lib.run_tool("c", e1, o1, timeout=120)
        ntop += 1
        if t1["rc"] != 0:
            diff(c, "the tool fails on a top-level rendering", tool=t1["stderr"][-300:])
            continue
        a1 = tool_answers(o1, [k], site_tags)[k]
        want = ("%s%d" % (c["tool_site"], k), "%s%d" % (c["tool_fld"], k))
        if a1 != want:
            diff(c, "the tool resolves a path to another type (top-level modules)", spec=want, impl=a1)
    out["top_level_programs"] = ntop
    # ---- leading `self`: valid Rust (compiled above); the spec says the tool cannot walk it --------------------------------
    nself = 0
    for k0, c in enumerate(selfish[: (60 if thorough else 10)]):
        k = len(plain) + k0
        e1 = os.path.join(wd, "self.rs")
        open(e1, "w").write(program(c, k, True, random.Random(k)))
        t1 = lib.run_tool("c", e1, os.path.join(wd, "out_self"), timeout=120)
        nself += 1
        if t1["rc"] == 0:
            diff(c, "the spec says the tool cannot walk a leading `self`, the tool succeeded")
        else:
            diff(c, "a path starting with `self::` is valid Rust but the tool panics", tool=(t1["stderr"].strip().splitlines() or [""])[1:2])
    out["self_programs"] = nself
    out["differences"] = diffs[:60]
    return diffs
