"""C03 — values crossing the boundary are destroyed exactly once (spec/own)."""
import json, os
import lib


def model(rep, tier):
    r = lib.tlc("own", "MC_Ownership", "inv.cfg" if tier == "quick" else "inv_thorough.cfg", workers=12, heap="12g")
    lib.tlc_expect_ok(r, "Ownership invariants")
    vac = lib.vacuous_actions(r)
    if vac:
        raise lib.ToolError("vacuous Ownership actions: %s" % vac)
    rep.add_tlc("Ownership/inv", r)
    rn = lib.tlc("own", "MC_Ownership", "neg.cfg", workers=4, coverage=False)
    lib.tlc_expect_violation(rn, "Ownership without drop suppression on into()", "AtMostOnce")
    rep.extra["negative_models_refuted"] = 1
    rep.extra["tlaps"] = {"module": "spec/own/OwnershipProof.tla",
                          "theorem": "Spec => [](AtMostOnce /\\ DroppedMeansOnce /\\ LiveMeansZero), any Payload/Container sets, any number of steps",
                          "obligations_proved": lib.tlaps("own", "OwnershipProof")}


def replay_leg(rep, tier):
    r = lib.tlc("own", "MCB_Ownership", "beh.cfg" if tier == "quick" else "beh_thorough.cfg", workers=12, coverage=False, heap="12g")
    lib.tlc_expect_ok(r, "Ownership behaviours")
    rep.add_tlc("Ownership/beh", r)
    behs = r.printed.get("BEH", [])
    ops = set(e["op"] for b in behs for e in b)
    need = {"RustMake", "ReturnBox", "BorrowCall", "Destroy", "RustDrop", "Wrap", "PassToForeign", "PassToRust", "Unwrap",
            "DropContainer", "Peek", "CloneInto"}
    if not need <= ops:
        raise lib.ToolError("Ownership behaviours never exercise %s" % (need - ops))
    # each Unwrap of an option is replayed through all three conversion entry points
    exp = []
    for b in behs:
        if any(e["op"] == "Unwrap" and e["kind"] == "opt" for e in b):
            for v in (0, 1, 2):
                c = json.loads(json.dumps(b))
                for e in c:
                    if e["op"] == "Unwrap":
                        e["variant"] = v
                exp.append(c)
        else:
            exp.append(b)
    inp = os.path.join(rep.wd, "beh.ndjson")
    out = os.path.join(rep.wd, "mismatch.ndjson")
    lib.write_ndjson(inp, exp)
    p = lib.dv(["c03-replay", inp, out], check=False)
    if p.returncode != 0:
        rep.violation({"leg": "replay", "what": "process aborted"}, {"rc": p.returncode, "stderr": p.stderr[-3000:]})
        return
    st = json.loads(p.stdout.strip().splitlines()[-1])
    rep.evaluations += st["replayed"]
    rep.traces += st["replayed"]
    for b in exp:
        kinds = set(e.get("kind") for e in b if e["op"] in ("Wrap",))
        if kinds:
            rep.nontriv(b)
    rep.sample({"behaviour": [{k: v for k, v in e.items() if k != "st"} for e in exp[len(exp) // 2]]})
    for m in lib.read_ndjson(out):
        rep.violation({"leg": "replay", "op": m.get("op"), "kind": m.get("kind"), "what": m["what"]}, m)


def trace_leg(rep, tier):
    runs = 150 if tier == "quick" else 2500
    tr = os.path.join(rep.wd, "trace.ndjson")
    p = lib.dv(["c03-record", str(lib.seed()), str(runs), tr], check=False)
    if p.returncode != 0:
        rep.violation({"leg": "trace", "what": "process aborted"}, {"rc": p.returncode, "stderr": p.stderr[-3000:]})
        return
    st = json.loads(p.stdout.strip().splitlines()[-1])
    ok, r = lib.validate_trace("own", "Trace_Ownership", "trace.cfg", tr, heap="4g")
    rep.add_tlc("Trace_Ownership", r)
    rep.traces += runs
    rep.evaluations += st["events"]
    evs = lib.read_ndjson(tr)
    if not ok:
        rej = r.printed.get("REJECTED", [{}])[0]
        idx = rej.get("index", 1)
        start = max([i for i in range(min(idx, len(evs))) if evs[i]["op"] == "Reset"] or [0])
        e = rej.get("event", {})
        rep.violation({"leg": "trace", "op": e.get("op"), "kind": e.get("kind")},
                      {"rejected_at": idx, "event": e, "run": evs[start:idx + 2], "tlc_tail": r.out[-600:]})
    rep.sample({"trace_events": evs[:6]})
    # binding self-test: a corrupted drop counter must be rejected
    # (the first drop event that carries any counter: a history may start with a container that holds nothing)
    k = next(i for i, e in enumerate(evs) if e["op"] in ("DropContainer", "RustDrop", "Destroy") and e.get("drops"))
    p0 = sorted(evs[k]["drops"])[0]
    evs[k]["drops"][p0] += 1
    bad = os.path.join(rep.wd, "trace_corrupt.ndjson")
    lib.write_ndjson(bad, evs[:k + 5])
    ok2, _ = lib.validate_trace("own", "Trace_Ownership", "trace.cfg", bad)
    if ok2:
        raise lib.ToolError("binding self-test failed: corrupted trace accepted")
    rep.extra["binding_selftest"] = "corrupted drop counter at event %d rejected" % (k + 1)


def run(rep, tier):
    rep.rule = ("behaviours = TLC-enumerated create/wrap/pass/peek/clone/unwrap/drop/destroy histories ending quiescent, replayed "
                "on the real DiplomatResult/Option/OwnedSlice/Callback with drop-counting payloads and a quarantining allocator; "
                "non-trivial = distinct behaviours that wrap at least one container; traces = seeded random histories "
                "validated by Trace_Ownership.tla")
    rep.assumptions += ["foreign code honours its contract (no use of a destroyed handle; containers passed back at most once)",
                        "leg (b): seeded histories through the generated C API under ASan/LSan with a Rust-side drop log (C++ unique_ptr paths are exercised by C02)"]
    model(rep, tier)
    replay_leg(rep, tier)
    trace_leg(rep, tier)
    import c03b
    c03b.run_leg(rep, tier)
    rep.exhaustive = True
