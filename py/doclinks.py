"""./extra doclinks — extension spec spec/docs/DocLinks.tla: the URL a #[diplomat::rust_link(path, Kind, display)] attribute becomes.

TLC checks the base-URL precedence (exact entry > `*` default > docs.rs), that entries for other crates -- also crates whose name is a
prefix of the linked crate's -- never matter, and that two kinds only share a URL when rustdoc puts them in the same place; it emits
every (kind, path length 1..5, display, crate) link under every base-URL configuration with the expected URL.  The replay writes one
method per link, runs the real cpp, dart and js backends with the configuration's `-u` options (entries in both orders; half of them
without the trailing slash the tool is documented to add) and reads the URL out of the doc comment of each method.  Malformed links
(fewer segments than the item itself needs) name nothing: the tool has to refuse them with a diagnostic."""
import json, os, random, re
import lib


def cfg_key(entries):
    return json.dumps(sorted((e["crate"], e["url"]) for e in entries))


def module(links):
    ms = []
    for i, l in enumerate(links):
        disp = "" if l["display"] == "normal" and i % 2 == 0 else ", " + l["display"]
        ms.append("        #[diplomat::rust_link(%s, %s%s)]\n        pub fn m%d(&self) -> u8 { 0 }\n" % ("::".join(l["path"]), l["kind"], disp, i))
    return ("#[diplomat::bridge]\nmod ffi {\n    #[diplomat::opaque]\n    pub struct T(u8);\n    impl T {\n%s    }\n}\n" % "".join(ms))


def read_links(backend, out, n):
    """{method index: url or None} from the doc comment directly above each method"""
    f = {"cpp": "T.d.hpp", "dart": "T.g.dart", "js": "T.d.ts"}[backend]
    lines = open(os.path.join(out, f)).read().splitlines()
    res = {}
    for j, line in enumerate(lines):
        m = re.search(r'\bm(\d+)\(', line)
        if not m or line.lstrip().startswith(("*", "///", "/**")):
            continue
        k = j - 1
        block = []
        while k >= 0 and lines[k].strip().startswith(("*", "///", "/**", "*/")):
            block.append(lines[k])
            k -= 1
        urls = re.findall(r'\]\(([^)\s]*)\)', "\n".join(block))
        idx = int(m.group(1))
        if idx not in res:
            res[idx] = urls[0] if len(urls) == 1 else (None if not urls else urls)
    return res


def run(out):
    wd = lib.ensure(os.path.join(lib.WORK, "extra_doclinks"))
    thorough = os.environ.get("VERIF_EXTRA_TIER") == "thorough"
    r0 = lib.tlc("docs", "MC_DocLinks", "links.cfg", workers=6, coverage=False, timeout=1800)
    lib.tlc_expect_ok(r0, "DocLinks: precedence, locality, separation of kinds")
    rn = lib.tlc("docs", "MC_DocLinks", "links_neg.cfg", workers=2, coverage=False, timeout=600)
    lib.tlc_expect_violation(rn, "required trait methods behind #method.", "TraitMethodsDistinct")
    re_ = lib.tlc("docs", "MC_DocLinks", "links_emit.cfg", workers=4, coverage=False, timeout=1800)
    lib.tlc_expect_ok(re_, "DocLinks: emission")
    cases = re_.printed["CASE"]
    out["tlc"] = {"states": r0.distinct, "props": "ExactWins, DefaultNext, OtherCratesIrrelevant, KindsSeparate", "negative_models_refuted": 1,
                  "emitted": len(cases)}
    by_cfg = {}
    for c in cases:
        by_cfg.setdefault(cfg_key(c["entries"]), []).append(c)
    rng = random.Random(lib.seed())
    keys = sorted(by_cfg)
    rng.shuffle(keys)
    # always: no entries, and the two-prefix-entries configuration; then a seeded selection
    must = [k for k in keys if k == "[]" or ('"icu"' in k and '"icu_provider"' in k and '"*"' not in k)]
    keys = must[:3] + [k for k in keys if k not in must[:3]][: (len(keys) if thorough else 5)]
    diffs, nlinks, nruns = [], 0, 0
    exe = lib.build_tool()

    def diff(c, what, **kw):
        diffs.append({"what": what, "case": c, "shape": "%s %s %s under %s" % ("::".join(c["path"]), c["kind"], c["display"], cfg_key(c["entries"])), **kw})

    for ci, k in enumerate(keys):
        cs = by_cfg[k]
        entries = cs[0]["entries"]
        good = [c for c in cs if not c["malformed"]]
        bad = [c for c in cs if c["malformed"]]
        src = os.path.join(wd, "links_%d.rs" % ci)
        open(src, "w").write(module(good))
        for order in ((False, True) if len(entries) >= 2 else (False,)):
            es = sorted(entries, key=lambda e: e["crate"], reverse=order)
            # every other entry is given without its trailing slash: the tool appends it
            uargs = []
            for j, e in enumerate(es):
                u = e["url"][:-1] if (j + ci) % 2 == 0 else e["url"]
                uargs += ["-u", "%s:%s" % (e["crate"], u)]
            for b in (("cpp", "dart", "js") if (thorough or ci < 3) else ("cpp",)):
                od = os.path.join(wd, "out_%d_%s" % (ci, b))
                p = lib.sh([exe, b, od, "--entry", src] + uargs, timeout=300)
                nruns += 1
                if p.returncode != 0 or "panicked at" in p.stderr:
                    diff(good[0], "the %s backend fails on well-formed links" % b, stderr=p.stderr[-400:])
                    continue
                got = read_links(b, od, len(good))
                for i, c in enumerate(good):
                    want = None if c["display"] == "hidden" else c["url"]
                    nlinks += 1
                    if got.get(i) != want:
                        diff(c, "URL differs (%s)" % b, spec=want, impl=got.get(i), options=uargs)
        # malformed links, one per run (a sample): refused with a diagnostic, never a panic and never a made-up URL
        rng.shuffle(bad)
        for c in bad[: (len(bad) if thorough else 6)] if ci < 2 else []:
            if c["display"] == "hidden":
                continue            # no URL is ever generated for a hidden link
            srcb = os.path.join(wd, "bad.rs")
            open(srcb, "w").write(module([c]))
            p = lib.sh([exe, "cpp", os.path.join(wd, "out_bad"), "--entry", srcb], timeout=120)
            nruns += 1
            if "panicked at" in p.stderr:
                diff(c, "a link with too few path segments for its kind makes the backend panic", panic=re.findall(r'panicked at ([^\n]*)', p.stderr)[:1])
            elif p.returncode == 0:
                diff(c, "a link with too few path segments for its kind is turned into a URL")
    out["cases"] = nlinks
    out["tool_runs"] = nruns
    out["configurations"] = len(keys)
    out["differences"] = diffs[:40]
    return diffs
