"""C12 — DiplomatWrite is exact and never overruns (spec/write)."""
import json, os
import lib


def model(rep, tier):
    r = lib.tlc("write", "MC_Write", "inv.cfg" if tier == "quick" else "inv_thorough.cfg", workers=8)
    lib.tlc_expect_ok(r, "Write invariants")
    vac = lib.vacuous_actions(r)
    if vac:
        raise lib.ToolError("vacuous Write actions: %s" % vac)
    rep.add_tlc("Write/inv", r)
    # negative models: each seeded design fault must be refuted, otherwise the invariants are toothless
    for n, inv in ((1, None), (2, "InBounds"), (3, "InBounds"), (4, "Sticky")):
        rn = lib.tlc("write", "MC_Write", "neg%d.cfg" % n, workers=4, coverage=False)
        lib.tlc_expect_violation(rn, "Write/neg%d" % n, inv)
    rep.extra["negative_models_refuted"] = 4


def replay_leg(rep, tier):
    wd = rep.wd
    r = lib.tlc("write", "MCB_Write", "beh.cfg" if tier == "quick" else "beh_thorough.cfg", workers=8, coverage=False)
    lib.tlc_expect_ok(r, "Write behaviours")
    rep.add_tlc("Write/beh", r)
    behs = r.printed.get("BEH", [])
    if not behs:
        raise lib.ToolError("no behaviours emitted")
    # the Rust-owned writer takes the same behaviours as the caller writer (its growth is internal;
    # the harness then compares everything except the capacity Vec::reserve happens to choose)
    extra = []
    for b in behs:
        if b[0]["kind"] == "caller" and not any(e["ev"] == "GrowFail" for e in b):
            c = json.loads(json.dumps(b))
            c[0]["kind"] = "rust_owned"
            extra.append(c)
    allb = behs + extra
    inp = os.path.join(wd, "beh.ndjson")
    out = os.path.join(wd, "mismatch.ndjson")
    lib.write_ndjson(inp, allb)
    p = lib.dv(["c12-replay", inp, out])
    stats = json.loads(p.stdout.strip().splitlines()[-1])
    rep.evaluations += stats["replayed"]
    rep.traces += stats["replayed"]
    for b in allb:
        evs = [e["ev"] for e in b]
        if "GrowFail" in evs or "GrowOk" in evs:
            rep.nontriv(b)
    rep.sample({"behaviour": allb[len(allb) // 3]})
    for m in lib.read_ndjson(out):
        rep.violation({"leg": "replay", "kind": m["behaviour"][0]["kind"], "what": m["what"]}, m)
    return len(behs)


def trace_leg(rep, tier):
    wd = rep.wd
    runs = 400 if tier == "quick" else 6000
    tr = os.path.join(wd, "trace.ndjson")
    p = lib.dv(["c12-record", str(lib.seed()), str(runs), tr], check=False)
    if p.returncode != 0:
        # the recorder died inside the code under test (abort on an UB check, heap corruption, ...): an observation
        rep.violation({"leg": "record", "what": "process aborted while driving the real writer"},
                      {"rc": p.returncode, "stderr": p.stderr[-3000:], "note": "re-run: dv c12-record %s %s %s" % (lib.seed(), runs, tr)})
        return
    st = json.loads(p.stdout.strip().splitlines()[-1])
    ok, r = lib.validate_trace("write", "Trace_Write", "trace.cfg", tr, heap="4g")
    rep.add_tlc("Trace_Write", r)
    rep.traces += runs
    rep.evaluations += st["events"]
    if not ok:
        rej = r.printed.get("REJECTED", [{}])[0]
        idx = rej.get("index", 0)
        evs = lib.read_ndjson(tr)
        # the run containing the rejected event is the replay artefact
        start = max(i for i in range(min(idx, len(evs))) if evs[i]["ev"] == "New") if evs else 0
        rep.violation({"leg": "trace", "event": rej.get("event", {}).get("ev")},
                      {"rejected_at": idx, "event": rej.get("event"), "run": evs[start:idx + 3],
                       "tlc_tail": r.out[-800:]})
    rep.sample({"trace_events": lib.read_ndjson(tr)[:8]})
    # binding self-test: corrupt one recorded field -> the trace must be rejected
    evs = lib.read_ndjson(tr)
    k = next(i for i, e in enumerate(evs) if e["ev"] == "WriteEnd" and e["len"] > 0)
    evs[k]["len"] += 1
    bad = os.path.join(wd, "trace_corrupt.ndjson")
    lib.write_ndjson(bad, evs[:k + 50])
    ok2, r2 = lib.validate_trace("write", "Trace_Write", "trace.cfg", bad)
    if ok2:
        raise lib.ToolError("binding self-test failed: corrupted trace was accepted")
    rep.extra["binding_selftest"] = "corrupted len at event %d rejected" % (k + 1)


def run(rep, tier):
    rep.rule = ("behaviours = TLC-enumerated write/grow/flush histories (3 writer kinds + Rust-owned) replayed "
                "state-by-state on diplomat-runtime; non-trivial = behaviour containing at least one grow() "
                "(ok or failed); traces = seeded random runs validated by Trace_Write.tla")
    rep.assumptions += ["x86-64 host; allocation failure of Vec/std::string aborts and is out of scope",
                        "canary zones (32 bytes each side) stand in for ASan in the pure-Rust leg"]
    model(rep, tier)
    # unbounded part: TLAPS proves (for ANY chunk set, capacities and call count) that the published length never exceeds
    # the capacity, that a copy is only started when it fits, and that the length always equals the total of accepted chunks
    rep.extra["tlaps"] = {"module": "spec/write/WriteProof.tla", "theorem": "Spec => []LenCapInv", "obligations_proved": lib.tlaps("write", "WriteProof")}
    n = replay_leg(rep, tier)
    trace_leg(rep, tier)
    rep.exhaustive = True
    rep.extra["exhaustive_scope"] = "all behaviours of the bounded model in the beh config (%d) were replayed" % n
