"""C12 — DiplomatWrite is exact and never overruns (spec/write)."""
import json, os, random
import lib


def model(rep, tier):
    r = lib.tlc("write", "MC_Write", "inv.cfg" if tier == "quick" else "inv_thorough.cfg", workers=8)
    lib.tlc_expect_ok(r, "Write invariants")
    vac = lib.vacuous_actions(r)
    if vac:
        raise lib.ToolError("vacuous Write actions: %s" % vac)
    rep.add_tlc("Write/inv", r)
    # negative models: each seeded design fault must be refuted, otherwise the invariants are toothless
    for n, inv in ((1, None), (2, "InBounds"), (3, "InBounds"), (4, "Sticky")):
        rn = lib.tlc("write", "MC_Write", "neg%d.cfg" % n, workers=4, coverage=False)
        lib.tlc_expect_violation(rn, "Write/neg%d" % n, inv)
    rep.extra["negative_models_refuted"] = 4


def replay_leg(rep, tier):
    wd = rep.wd
    r = lib.tlc("write", "MCB_Write", "beh.cfg" if tier == "quick" else "beh_thorough.cfg", workers=8, coverage=False)
    lib.tlc_expect_ok(r, "Write behaviours")
    rep.add_tlc("Write/beh", r)
    behs = r.printed.get("BEH", [])
    if not behs:
        raise lib.ToolError("no behaviours emitted")
    # the Rust-owned writer takes the same behaviours as the caller writer (its growth is internal;
    # the harness then compares everything except the capacity Vec::reserve happens to choose)
    extra = []
    for b in behs:
        if b[0]["kind"] == "caller" and not any(e["ev"] == "GrowFail" for e in b):
            c = json.loads(json.dumps(b))
            c[0]["kind"] = "rust_owned"
            extra.append(c)
    allb = behs + extra
    inp = os.path.join(wd, "beh.ndjson")
    out = os.path.join(wd, "mismatch.ndjson")
    lib.write_ndjson(inp, allb)
    p = lib.dv(["c12-replay", inp, out])
    stats = json.loads(p.stdout.strip().splitlines()[-1])
    rep.evaluations += stats["replayed"]
    rep.traces += stats["replayed"]
    for b in allb:
        evs = [e["ev"] for e in b]
        if "GrowFail" in evs or "GrowOk" in evs:
            rep.nontriv(b)
    rep.sample({"behaviour": allb[len(allb) // 3]})
    for m in lib.read_ndjson(out):
        rep.violation({"leg": "replay", "kind": m["behaviour"][0]["kind"], "what": m["what"]}, m)
    return len(behs)


def trace_leg(rep, tier):
    wd = rep.wd
    runs = 400 if tier == "quick" else 6000
    tr = os.path.join(wd, "trace.ndjson")
    p = lib.dv(["c12-record", str(lib.seed()), str(runs), tr], check=False)
    if p.returncode != 0:
        # the recorder died inside the code under test (abort on an UB check, heap corruption, ...): an observation
        rep.violation({"leg": "record", "what": "process aborted while driving the real writer"},
                      {"rc": p.returncode, "stderr": p.stderr[-3000:], "note": "re-run: dv c12-record %s %s %s" % (lib.seed(), runs, tr)})
        return
    st = json.loads(p.stdout.strip().splitlines()[-1])
    ok, r = lib.validate_trace("write", "Trace_Write", "trace.cfg", tr, heap="4g")
    rep.add_tlc("Trace_Write", r)
    rep.traces += runs
    rep.evaluations += st["events"]
    if not ok:
        rej = r.printed.get("REJECTED", [{}])[0]
        idx = rej.get("index", 0)
        evs = lib.read_ndjson(tr)
        # the run containing the rejected event is the replay artefact
        start = max(i for i in range(min(idx, len(evs))) if evs[i]["ev"] == "New") if evs else 0
        rep.violation({"leg": "trace", "event": rej.get("event", {}).get("ev")},
                      {"rejected_at": idx, "event": rej.get("event"), "run": evs[start:idx + 3],
                       "tlc_tail": r.out[-800:]})
    rep.sample({"trace_events": lib.read_ndjson(tr)[:8]})
    # binding self-test: corrupt one recorded field -> the trace must be rejected
    evs = lib.read_ndjson(tr)
    k = next(i for i, e in enumerate(evs) if e["ev"] == "WriteEnd" and e["len"] > 0)
    evs[k]["len"] += 1
    bad = os.path.join(wd, "trace_corrupt.ndjson")
    lib.write_ndjson(bad, evs[:k + 50])
    ok2, r2 = lib.validate_trace("write", "Trace_Write", "trace.cfg", bad)
    if ok2:
        raise lib.ToolError("binding self-test failed: corrupted trace was accepted")
    rep.extra["binding_selftest"] = "corrupted len at event %d rejected" % (k + 1)


GEN_LIB = r"""
use core::fmt::Write as _;
use std::io::Write as _;
#[repr(C)]
struct Mirror { context: *mut core::ffi::c_void, buf: *mut u8, len: usize, cap: usize, grow_failed: bool,
                flush: extern "C" fn(*mut Mirror), grow: extern "C" fn(*mut Mirror, usize) -> bool }
fn log(line: String) {
    let p = std::env::var("C12_TRACE").expect("C12_TRACE");
    let mut f = std::fs::OpenOptions::new().append(true).create(true).open(p).unwrap();
    f.write_all(line.as_bytes()).unwrap();
}
fn bytes(b: &[u8]) -> String { format!("[{}]", b.iter().map(|x| x.to_string()).collect::<Vec<_>>().join(",")) }
/// one write per element of `sizes` (element = number of bytes of the chunk; the text cycles through the alphabet, a size of 200+k
/// stands for one k-byte character), every call and its outcome logged as the events Trace_Write.tla understands
pub fn drive(kind: &str, sizes: &[u8], w: &mut diplomat_runtime::DiplomatWrite) {
    let m = w as *mut diplomat_runtime::DiplomatWrite as *mut Mirror;
    unsafe {
        log(format!("{{\"ev\":\"New\",\"kind\":\"{}\",\"cap\":{},\"len\":{}}}\n", kind, (*m).cap, (*m).len));
        let mut k = 0u8;
        for s in sizes {
            let chunk: String = if *s >= 200 { ["", "q", "\u{e9}", "\u{20ac}", "\u{1f600}"][(*s - 200) as usize].to_string() }
                                else { (0..*s).map(|_| { k = (k + 1) % 26; (b'a' + k) as char }).collect() };
            log(format!("{{\"ev\":\"WriteBegin\",\"chunk\":{},\"api\":\"str\"}}\n", bytes(chunk.as_bytes())));
            let r = w.write_str(&chunk);
            let content = core::slice::from_raw_parts((*m).buf, (*m).len);
            log(format!("{{\"ev\":\"WriteEnd\",\"len\":{},\"cap\":{},\"failed\":{},\"content\":{},\"mem_ok\":true,\"panic\":false,\"err\":{}}}\n",
                        (*m).len, (*m).cap, (*m).grow_failed, bytes(content), r.is_err()));
        }
    }
}
#[diplomat::bridge]
mod ffi {
    use diplomat_runtime::DiplomatWrite;
    #[diplomat::opaque]
    pub struct Chunker(u8);
    impl Chunker {
        pub fn make() -> Box<Chunker> { Box::new(Chunker(0)) }
        pub fn chunked(&self, sizes: &[u8], w: &mut DiplomatWrite) { crate::drive("cpp_string", sizes, w) }
        pub fn chunked_owned(&self, sizes: &[u8], w: &mut DiplomatWrite) { crate::drive("rust_owned", sizes, w) }
    }
}
"""


def generated_api_leg(rep, tier):
    """leg (d): the same machine observed through the GENERATED C++ and C method of a real bridge: the Rust body logs every write
    and its outcome, the driver logs the string it got back; the log must be a behaviour of Write.tla (kind cpp_string: growth to
    exactly the requested length; kind rust_owned through diplomat_buffer_write_*) ending in Returned(text = accepted)."""
    wd = rep.wd
    b = lib.build_bridge("c12gen", GEN_LIB)
    if not b["ok"]:
        raise lib.ToolError("c12gen bridge does not build:\n" + b["stderr"][-2500:])
    src = os.path.join(b["dir"], "src", "lib.rs")
    outs = {}
    for be in ("c", "cpp"):
        outs[be] = os.path.join(wd, "gen_" + be)
        t = lib.run_tool(be, src, outs[be])
        if t["rc"] != 0:
            raise lib.ToolError("%s backend failed on the c12gen bridge:\n%s" % (be, t["stderr"][-2000:]))
    rng = random.Random(lib.seed())
    pool = [0, 1, 2, 3, 5, 8, 13, 14, 15, 16, 17, 30, 31, 32, 40, 201, 202, 203, 204]
    seqs = [[2, 2], [1, 14], [16, 4, 20], [15], [16], [15, 1], [0, 0, 3], [204, 1, 203]]
    while len(seqs) < (60 if tier == "quick" else 1500):
        seqs.append([rng.choice(pool) for _ in range(rng.randint(1, 5))])
    def lit(q):
        return "{" + ", ".join(str(x) for x in q) + "}"
    cpp = ['#include <cstdio>', '#include <string>', '#include "Chunker.hpp"',
           'static void ret(const std::string& s) { FILE* f = fopen(getenv("C12_TRACE"), "a"); fprintf(f, "{\\"ev\\":\\"Returned\\",\\"text\\":["); '
           'for (size_t i = 0; i < s.size(); i++) fprintf(f, "%s%u", i ? "," : "", (unsigned)(unsigned char)s[i]); fprintf(f, "]}\\n"); fclose(f); }',
           'int main() { auto c = Chunker::make();']
    for i, q in enumerate(seqs):
        cpp.append('  { const uint8_t a[] = %s; ret(c->chunked(diplomat::span<const uint8_t>(a, %d))); }' % (lit(q or [0]) if q else "{0}", len(q)))
        if i % 4 == 1:
            # the writer over a std::string that already holds text (WriteFromString is the documented way to write into one's own
            # string): capacity and length are the string's length, the text stays and the chunks are appended
            cpp.append('  { std::string s_(%d, \'p\'); const uint8_t a[] = %s; auto w_ = diplomat::WriteFromString(s_); '
                       'diplomat::capi::Chunker_chunked(c->AsFFI(), {a, %d}, &w_); ret(s_); }' % ([1, 3, 45, 7][(i // 4) % 4], lit(q or [0]) if q else "{0}", len(q)))
    cpp.append('  return 0; }')
    cdrv = ['#include <stdio.h>', '#include <stdlib.h>', '#include "Chunker.h"',
            'static void ret(DiplomatWrite* w) { FILE* f = fopen(getenv("C12_TRACE"), "a"); const char* p = diplomat_buffer_write_get_bytes(w); size_t n = diplomat_buffer_write_len(w); '
            'fprintf(f, "{\\"ev\\":\\"Returned\\",\\"text\\":["); for (size_t i = 0; i < n; i++) fprintf(f, "%s%u", i ? "," : "", (unsigned)(unsigned char)p[i]); fprintf(f, "]}\\n"); fclose(f); }',
            'int main(void) { Chunker* c = Chunker_make();']
    for i, q in enumerate(seqs):
        cdrv.append('  { const uint8_t a[] = %s; DiplomatWrite* w = diplomat_buffer_write_create(%d); Chunker_chunked_owned(c, (DiplomatU8View){a, %d}, w); ret(w); diplomat_buffer_write_destroy(w); }'
                    % (lit(q), [0, 1, 4, 16][i % 4], len(q)))
    cdrv.append('  Chunker_destroy(c); return 0; }')
    total = 0
    for be, text, cc in (("cpp", "\n".join(cpp), ["g++", "-std=c++17"]), ("c", "\n".join(cdrv), ["gcc", "-std=c11"])):
        dp = os.path.join(wd, "gen_driver." + ("cpp" if be == "cpp" else "c"))
        open(dp, "w").write(text + "\n")
        exe = os.path.join(wd, "gen_driver_" + be)
        p = lib.sh(cc + ["-g", "-O0", "-fsanitize=address,undefined", "-I", outs[be], dp, b["staticlib"], "-lpthread", "-ldl", "-lm", "-o", exe], timeout=900)
        if p.returncode != 0:
            rep.violation({"leg": "generated-api", "backend": be, "what": "driver does not compile against the generated API"}, {"stderr": p.stderr[-2500:]})
            continue
        tr = os.path.join(wd, "gen_trace_%s.ndjson" % be)
        if os.path.exists(tr):
            os.remove(tr)
        pr = lib.sh([exe], env=dict(os.environ, C12_TRACE=tr, ASAN_OPTIONS="detect_leaks=1"), timeout=600)
        if pr.returncode != 0:
            rep.violation({"leg": "generated-api", "backend": be, "what": "driver aborted or the sanitizer reported an error"},
                          {"rc": pr.returncode, "stderr": pr.stderr[-3000:]})
            continue
        ok, r = lib.validate_trace("write", "Trace_Write", "trace.cfg", tr, heap="3g")
        rep.add_tlc("Trace_Write/generated-" + be, r)
        evs = lib.read_ndjson(tr)
        total += len(evs)
        rep.traces += len(seqs)
        ncalls = len(seqs) + (len([i for i in range(len(seqs)) if i % 4 == 1]) if be == "cpp" else 0)
        if sum(1 for e in evs if e["ev"] == "Returned") != ncalls:
            raise lib.ToolError("generated-api leg: %d Returned events for %d calls" % (sum(1 for e in evs if e["ev"] == "Returned"), ncalls))
        if not ok:
            rej = r.printed.get("REJECTED", [{}])[0]
            idx = rej.get("index", 0)
            start = max(i for i in range(min(idx, len(evs))) if evs[i]["ev"] == "New") if evs else 0
            rep.violation({"leg": "generated-api", "backend": be, "event": rej.get("event", {}).get("ev")},
                          {"rejected_at": idx, "event": rej.get("event"), "run": evs[start:idx + 2], "tlc_tail": r.out[-600:]})
    rep.evaluations += total
    rep.extra["generated_api_calls"] = 2 * len(seqs)


FLUSH_LIB = r"""
use core::fmt::Write as _;
fn text(n: u8) -> String { (0..n).map(|i| (b'a' + i % 26) as char).collect() }
#[diplomat::bridge]
mod ffi {
    use diplomat_runtime::DiplomatWrite;
    use core::fmt::Write as _;
    #[diplomat::opaque]
    pub struct Fl(u8);
    impl Fl {
        pub fn make() -> Box<Fl> { Box::new(Fl(0)) }
        pub fn plain(&self, n: u8, w: &mut DiplomatWrite) { let _ = w.write_str(&crate::text(n)); }
        pub fn checked(&self, n: u8, fail: bool, w: &mut DiplomatWrite) -> Result<(), ()> { let _ = w.write_str(&crate::text(n)); if fail { Err(()) } else { Ok(()) } }
        pub fn maybe(&self, n: u8, w: &mut DiplomatWrite) -> Option<()> { let _ = w.write_str(&crate::text(n)); Some(()) }
        pub fn counted(&self, n: u8, w: &mut DiplomatWrite) -> usize { let _ = w.write_str(&crate::text(n)); n as usize }
        pub fn counted_res(&self, n: u8, w: &mut DiplomatWrite) -> Result<u32, ()> { let _ = w.write_str(&crate::text(n)); Ok(n as u32) }
        pub fn qualified(&self, n: u8, w: &mut diplomat_runtime::DiplomatWrite) { let _ = w.write_str(&crate::text(n)); }
        pub fn tagged<'a>(&'a self, n: u8, w: &'a mut DiplomatWrite) { let _ = w.write_str(&crate::text(n)); }
        pub fn named_w<'w>(&self, n: u8, w: &'w mut DiplomatWrite) -> Result<(), ()> { let _ = w.write_str(&crate::text(n)); Ok(()) }
    }
}
"""

FLUSH_DRIVER = r"""
#include <stdio.h>
#include <stdlib.h>
#include <string.h>
#include <stdbool.h>
#include <stdint.h>
#include "diplomat_runtime.h"
/* the functions as the proc macro compiles them (self, arguments, the writer last) */
typedef struct Fl Fl;
Fl* Fl_make(void);
void Fl_destroy(Fl*);
void Fl_plain(const Fl*, uint8_t, DiplomatWrite*);
typedef struct { bool is_ok; } R0;
R0 Fl_checked(const Fl*, uint8_t, bool, DiplomatWrite*);
R0 Fl_maybe(const Fl*, uint8_t, DiplomatWrite*);
size_t Fl_counted(const Fl*, uint8_t, DiplomatWrite*);
typedef struct { union { uint32_t ok; }; bool is_ok; } R1;
R1 Fl_counted_res(const Fl*, uint8_t, DiplomatWrite*);
void Fl_qualified(const Fl*, uint8_t, DiplomatWrite*);   /* the writer spelled with its crate path */
void Fl_tagged(const Fl*, uint8_t, DiplomatWrite*);      /* the writer borrowed for a NAMED lifetime shared with self */
R0 Fl_named_w(const Fl*, uint8_t, DiplomatWrite*);       /* the writer borrowed for a named lifetime of its own */
static int flushes; static size_t flushed_len;
static void my_flush(DiplomatWrite* w) { flushes++; flushed_len = w->len; }
static bool my_grow(DiplomatWrite* w, size_t cap) { (void)w; (void)cap; return false; }
static int bad;
static void call(const Fl* f, int which, uint8_t n, DiplomatWrite* w) {
  switch (which) { case 0: Fl_plain(f, n, w); break; case 1: Fl_checked(f, n, false, w); break; case 2: Fl_checked(f, n, true, w); break;
                   case 3: Fl_maybe(f, n, w); break; case 4: Fl_counted(f, n, w); break; case 5: Fl_counted_res(f, n, w); break; case 6: Fl_qualified(f, n, w); break;
                   case 7: Fl_tagged(f, n, w); break; default: Fl_named_w(f, n, w); } }
static const char* NAMES[] = {"plain", "checked(ok)", "checked(err)", "maybe", "counted", "counted_res", "qualified", "tagged", "named_w"};
int main(void) {
  Fl* f = Fl_make();
  for (int which = 0; which < 9; which++) for (int n = 0; n <= 9; n += 3) {
    /* a fixed writer of exactly n+1 bytes: flushing puts the NUL on the last byte of the caller's buffer */
    char* b = malloc((size_t)n + 1); memset(b, 0x55, (size_t)n + 1);
    DiplomatWrite w = diplomat_simple_write(b, (size_t)n + 1);
    call(f, which, (uint8_t)n, &w);
    if (b[n] != 0) { printf("{\"method\":\"%s\",\"n\":%d,\"what\":\"fixed buffer not NUL-terminated after the call\"}\n", NAMES[which], n); bad++; }
    free(b);
    /* a caller-supplied writer: its flush callback runs exactly once, after the text is complete */
    char store[16]; DiplomatWrite c; memset(&c, 0, sizeof c); c.buf = store; c.len = 0; c.cap = sizeof store; c.flush = my_flush; c.grow = my_grow;
    flushes = 0; flushed_len = (size_t)-1;
    call(f, which, (uint8_t)n, &c);
    if (flushes != 1 || flushed_len != (size_t)n) { printf("{\"method\":\"%s\",\"n\":%d,\"what\":\"foreign flush not called exactly once with the final length\",\"flushes\":%d,\"len\":%ld}\n", NAMES[which], n, flushes, (long)flushed_len); bad++; }
  }
  Fl_destroy(f);
  printf("{\"done\":true,\"bad\":%d}\n", bad);
  return 0;
}
"""


def flush_leg(rep):
    """Flush of Write.tla: the macro flushes the writer after EVERY method that takes one -- whatever the method returns.  The
    functions are declared the way the macro compiles them (the tool's headers drop the writer of value-returning methods: known
    finding of C01), called with an exactly-sized fixed buffer and with a caller-supplied writer that counts its flush callbacks."""
    wd = rep.wd
    b = lib.build_bridge("c12flush", FLUSH_LIB)
    if not b["ok"]:
        raise lib.ToolError("c12flush bridge does not build:\n" + b["stderr"][-2500:])
    dp = os.path.join(wd, "flush_driver.c")
    open(dp, "w").write(FLUSH_DRIVER)
    exe = os.path.join(wd, "flush_driver")
    inc = os.path.join(wd, "gen_c")
    p = lib.sh(["gcc", "-std=c11", "-g", "-O0", "-fsanitize=address,undefined", "-I", inc, dp, b["staticlib"], "-lpthread", "-ldl", "-lm", "-o", exe], timeout=600)
    if p.returncode != 0:
        raise lib.ToolError("flush driver does not compile: " + p.stderr[-1500:])
    pr = lib.sh([exe], env=dict(os.environ, ASAN_OPTIONS="detect_leaks=1"), timeout=120)
    rows = [json.loads(l) for l in pr.stdout.splitlines() if l.startswith("{")]
    if pr.returncode != 0 or not rows or not rows[-1].get("done"):
        rep.violation({"leg": "flush", "what": "driver aborted or the sanitizer reported an error"}, {"rc": pr.returncode, "stderr": pr.stderr[-2500:]})
        return
    for r in rows[:-1]:
        rep.violation({"leg": "flush", "method": r["method"], "what": r["what"]}, r)
    rep.evaluations += 72
    rep.extra["flush_calls"] = 72


def run(rep, tier):
    rep.rule = ("behaviours = TLC-enumerated write/grow/flush histories (3 writer kinds + Rust-owned) replayed "
                "state-by-state on diplomat-runtime; non-trivial = behaviour containing at least one grow() "
                "(ok or failed); traces = seeded random runs validated by Trace_Write.tla")
    rep.assumptions += ["x86-64 host; allocation failure of Vec/std::string aborts and is out of scope",
                        "canary zones (32 bytes each side) stand in for ASan in the pure-Rust leg"]
    model(rep, tier)
    # unbounded part: TLAPS proves (for ANY chunk set, capacities and call count) that the published length never exceeds
    # the capacity, that a copy is only started when it fits, and that the length always equals the total of accepted chunks
    rep.extra["tlaps"] = {"module": "spec/write/WriteProof.tla", "theorem": "Spec => []LenCapInv", "obligations_proved": lib.tlaps("write", "WriteProof")}
    n = replay_leg(rep, tier)
    trace_leg(rep, tier)
    generated_api_leg(rep, tier)
    flush_leg(rep)
    rep.exhaustive = True
    rep.extra["exhaustive_scope"] = "all behaviours of the bounded model in the beh config (%d) were replayed" % n
