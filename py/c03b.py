"""C03 leg (b): the generated C and C++ APIs under ASan/LSan, with a drop log kept by the Rust types.

A seeded random history of create / borrow / pass-owned / optional-payload / callback / destroy calls is generated
(respecting the foreign side's contract), executed through the generated bindings, and the recorded events are
validated by Trace_Ownership.tla (drop counters after every step); the sanitizers judge the memory side."""
import json, os, random
import lib, callgen, cppgen

BRIDGE = r'''
#![allow(unused, non_snake_case, clippy::all)]
''' + callgen.RUST_SUPPORT + r'''
impl Drop for ffi::Obj {
    fn drop(&mut self) { dv_event("Drop", &format!("p{}", self.0), ""); }
}
impl Drop for ffi::Tok {
    fn drop(&mut self) { dv_event("Drop", &format!("p{}", self.0), ""); }
}
#[diplomat::bridge]
pub mod ffi {
    use diplomat_runtime::{DiplomatOwnedSlice, DiplomatOption, DiplomatWrite};
    #[diplomat::opaque]
    pub struct Obj(pub u64);
    /// a pure handle: an opaque type WITHOUT any method of its own (only its destructor is exported)
    #[diplomat::opaque]
    pub struct Tok(pub u64);
    pub struct Holder {
        pub data: DiplomatOwnedSlice<u8>,
        pub tag: u8,
    }
    impl Obj {
        pub fn make(id: u64) -> Box<Obj> { Box::new(Obj(id)) }
        pub fn make_tok(id: u64) -> Box<Tok> { Box::new(Tok(id)) }
        pub fn get(&self) -> u64 { self.0 }
        pub fn describe(&self, times: u8, w: &mut DiplomatWrite) { use core::fmt::Write as _; for _ in 0..times { let _ = write!(w, "obj{};", self.0); } }
        pub fn make_result(id: u64, ok: bool) -> Result<Box<Obj>, Box<Obj>> { if ok { Ok(Box::new(Obj(id))) } else { Err(Box::new(Obj(id))) } }
        pub fn make_opt(id: u64, some: bool) -> Option<Box<Obj>> { if some { Some(Box::new(Obj(id))) } else { None } }
        pub fn take_slice(x: Box<[u8]>) -> usize { x.len() }
        pub fn take_str(x: Box<str>) -> usize { x.len() }
        pub fn take_holder(h: Holder) -> usize { h.data.len() + h.tag as usize }
        pub fn take_opt_holder(h: Option<Holder>) -> usize { h.map(|h| h.data.len()).unwrap_or(99) }
        pub fn peek_opt(o: Option<&Obj>) -> u64 { o.map(|o| o.0).unwrap_or(0) }
        pub fn call_cb(f: impl Fn(u8) -> u8, times: u8) -> u8 { let mut s = 0u8; for i in 0..times { s = s.wrapping_add(f(i)); } s }
    }
}
'''


def history(rng, n):
    """list of ops; objects are p1..p12 (Trace_Ownership's payload names)"""
    live, ops, nxt = [], [], 1
    for _ in range(n):
        c = rng.randrange(15)
        if c <= 1 and nxt <= 12:
            ops.append(("make", nxt)); live.append(nxt); nxt += 1
        elif c == 2 and nxt <= 12:
            ops.append(("make_result", nxt, rng.random() < 0.5)); live.append(nxt); nxt += 1
        elif c == 3 and nxt <= 12:
            some = rng.random() < 0.6
            ops.append(("make_opt", nxt, some))
            if some:
                live.append(nxt)
            nxt += 1
        elif c == 4 and live:
            ops.append(("get", rng.choice(live)))
        elif c == 5 and live:
            p = rng.choice(live); live.remove(p); ops.append(("destroy", p))
        elif c == 6:
            ops.append(("take_slice", rng.choice([0, 1, 5])))
        elif c == 7:
            ops.append(("take_holder", rng.choice([0, 3]), rng.choice(["plain", "some", "none"])))
        elif c == 8:
            ops.append(("peek_opt", rng.choice(live) if live and rng.random() < 0.7 else None))
        elif c == 9:
            ops.append(("call_cb", rng.choice([0, 1, 3])))
        elif c == 10:
            ops.append(("take_str", rng.choice([0, 4])))
        elif c == 12:
            # a caller-owned scratch buffer from Rust's allocator, given back by the caller (what JS and Dart do for every borrowed
            # list or string, the EMPTY one included)
            ops.append(("alloc_free", rng.choice([0, 0, 1, 16]), rng.choice([1, 2, 8])))
        elif c == 14 and nxt <= 12:
            # a method-less handle type: created through another type's method, owned and destroyed by the foreign side
            ops.append(("tok", nxt)); nxt += 1
        elif c == 13 and live:
            # a CALLER-owned fixed buffer (diplomat_simple_write): slack 0 = the text fills it to the last byte before the terminator,
            # negative = too small (growth fails), positive = room to spare; the consumer then reads it as a C string
            ops.append(("describe_fixed", rng.choice(live), rng.choice([1, 1, 2, 3]), rng.choice([0, 0, 3, -2])))
        elif c == 11 and live:
            # a Rust-owned write buffer: created (capacity 0 is what most runtimes pass), written into, read, destroyed
            ops.append(("describe", rng.choice(live), rng.choice([0, 0, 1, 16]), rng.choice([0, 1, 5])))
    for p in live:
        ops.append(("destroy", p))
    return ops


def c_driver(ops):
    L = [callgen.C_SUPPORT, '#include "Obj.h"\n#include "Holder.h"\n#include "Tok.h"\n',
         "static int cb_dtor_runs;\nstatic uint8_t cb_run(const void* d, uint8_t x) { (void)d; return (uint8_t)(x + 1); }\nstatic void cb_dtor(const void* d) { (void)d; cb_dtor_runs++; dv_log(\"CbDrop\", \"cb\", \"\"); }\n",
         "int main(void) {\n    Obj* o[16] = {0};\n"]
    for op in ops:
        k = op[0]
        if k == "make":
            L.append('    o[%d] = Obj_make(%d); dv_log("RustMake", "p%d", ""); dv_log("ReturnBox", "p%d", "");\n' % (op[1], op[1], op[1], op[1]))
        elif k == "make_result":
            L.append('    { Obj_make_result_result r = Obj_make_result(%d, %s); o[%d] = r.is_ok ? r.ok : r.err; dv_log("RustMake", "p%d", ""); dv_log("ReturnBox", "p%d", ""); }\n'
                     % (op[1], "true" if op[2] else "false", op[1], op[1], op[1]))
        elif k == "make_opt":
            if op[2]:
                L.append('    o[%d] = Obj_make_opt(%d, true); dv_log("RustMake", "p%d", ""); dv_log("ReturnBox", "p%d", "");\n' % (op[1], op[1], op[1], op[1]))
            else:
                L.append('    if (Obj_make_opt(%d, false) != NULL) { dv_log("Bad", "p%d", "non-null for None"); }\n' % (op[1], op[1]))
        elif k == "get":
            L.append('    if (Obj_get(o[%d]) != %d) dv_log("Bad", "p%d", "wrong id"); dv_log("BorrowCall", "p%d", "");\n' % (op[1], op[1], op[1], op[1]))
        elif k == "tok":
            L.append('    { Tok* t_ = Obj_make_tok(%d); dv_log("RustMake", "p%d", ""); dv_log("ReturnBox", "p%d", ""); Tok_destroy(t_); dv_log("Destroy", "p%d", ""); }\n'
                     % (op[1], op[1], op[1], op[1]))
        elif k == "destroy":
            L.append('    Obj_destroy(o[%d]); o[%d] = NULL; dv_log("Destroy", "p%d", "");\n' % (op[1], op[1], op[1]))
        elif k == "take_slice":
            n = op[1]
            L.append("    { uint8_t* b = %s; %s if (Obj_take_slice((DiplomatU8ViewMut){b, %d}) != %d) dv_log(\"Bad\", \"slice\", \"len\"); }\n"
                     % ("diplomat_alloc(%d, 1)" % n if n else "NULL", "memset(b, 7, %d);" % n if n else "", n, n))
        elif k == "take_str":
            n = op[1]
            L.append("    { char* b = %s; %s if (Obj_take_str((DiplomatStringView){b, %d}) != %d) dv_log(\"Bad\", \"str\", \"len\"); }\n"
                     % ("(char*)diplomat_alloc(%d, 1)" % n if n else "NULL", "memset(b, 'a', %d);" % n if n else "", n, n))
        elif k == "take_holder":
            n, mode = op[1], op[2]
            alloc = "uint8_t* b = %s; %s" % ("diplomat_alloc(%d, 1)" % n if n else "NULL", "memset(b, 1, %d);" % n if n else "")
            if mode == "plain":
                L.append("    { %s Holder h = { {b, %d}, 2 }; Obj_take_holder(h); }\n" % (alloc, n))
            elif mode == "some":
                L.append("    { %s Holder_option h; h.ok.data.data = b; h.ok.data.len = %d; h.ok.tag = 2; h.is_ok = true; Obj_take_opt_holder(h); }\n" % (alloc, n))
            else:
                L.append("    { Holder_option h; memset(&h, 0, sizeof h); h.is_ok = false; if (Obj_take_opt_holder(h) != 99) dv_log(\"Bad\", \"holder\", \"none\"); }\n")
        elif k == "describe":
            L.append("    { DiplomatWrite* w = diplomat_buffer_write_create(%d); Obj_describe(o[%d], %d, w); "
                     "size_t n_ = diplomat_buffer_write_len(w); char* b_ = diplomat_buffer_write_get_bytes(w); "
                     "if (n_ %% 1 != 0 || (n_ && b_[0] != 'o')) dv_log(\"Bad\", \"write\", \"content\"); "
                     "diplomat_buffer_write_destroy(w); dv_log(\"BorrowCall\", \"p%d\", \"\"); }\n" % (op[2], op[1], op[3], op[1]))
        elif k == "describe_fixed":
            chunk = len("obj%d;" % op[1])
            n = max(1, op[2] * chunk + 1 + op[3])
            L.append("    { size_t N_ = %d; char* b_ = malloc(N_); memset(b_, 0x55, N_); DiplomatWrite w = diplomat_simple_write(b_, N_); "
                     "Obj_describe(o[%d], %d, &w); w.flush(&w); size_t n_ = strlen(b_); "
                     "if (n_ > N_ - 1 || (%d && n_ != %d) || (n_ && b_[0] != 'o')) dv_log(\"Bad\", \"fixed write\", \"length or content\"); "
                     "free(b_); dv_log(\"BorrowCall\", \"p%d\", \"\"); }\n" % (n, op[1], op[2], 1 if op[3] >= 0 else 0, op[2] * chunk, op[1]))
        elif k == "alloc_free":
            L.append("    { uint8_t* b = diplomat_alloc(%d, %d); if (!b || ((uintptr_t)b %% %d)) dv_log(\"Bad\", \"alloc\", \"null or misaligned\"); "
                     "%s diplomat_free(b, %d, %d); }\n" % (op[1], op[2], op[2], ("memset(b, 3, %d);" % op[1]) if op[1] else "", op[1], op[2]))
        elif k == "peek_opt":
            L.append("    Obj_peek_opt(%s);\n" % ("o[%d]" % op[1] if op[1] else "NULL"))
        elif k == "call_cb":
            L.append("    { int before = cb_dtor_runs; DiplomatCallback_Obj_call_cb_f cb = { NULL, cb_run, cb_dtor }; Obj_call_cb(cb, %d); "
                     "if (cb_dtor_runs != before + 1) dv_log(\"Bad\", \"cb\", \"destructor not run exactly once\"); }\n" % op[1])
    L.append("    return 0;\n}\n")
    return "".join(L)


def cpp_driver(ops, rng):
    """the same history through the generated C++ class API: unique_ptr wrappers (moved, reset, released and re-wrapped on the way),
    diplomat::result / nullable unique_ptr returns, spans over diplomat_alloc'ed buffers, std::function callbacks"""
    L = [cppgen.CPP_SUPPORT, 'extern "C" void diplomat_free(void*, size_t, size_t);\n#include "Obj.hpp"\n#include "Holder.hpp"\n#include "Tok.hpp"\n',
         "struct CbState { int* drops; ~CbState() { if (drops) { (*drops)++; dv_log(\"CbDrop\", \"cb\", \"\"); } } "
         "CbState(int* d) : drops(d) {} CbState(const CbState& o) = delete; CbState(CbState&& o) noexcept : drops(o.drops) { o.drops = nullptr; } };\n",
         "int main() {\n    std::unique_ptr<Obj> o[16];\n    int cb_drops = 0; (void)cb_drops;\n"]
    mk = 'dv_log("RustMake", "p%d", ""); dv_log("ReturnBox", "p%d", "");'
    for op in ops:
        k = op[0]
        if k == "make":
            style = rng.randrange(3)
            if style == 0:
                L.append('    o[%d] = Obj::make(%d); %s\n' % (op[1], op[1], mk % (op[1], op[1])))
            elif style == 1:
                # through a temporary that is moved from: the moved-from wrapper must not destroy anything
                L.append('    { std::unique_ptr<Obj> t_ = Obj::make(%d); %s o[%d] = std::move(t_); if (t_) dv_log("Bad", "p%d", "moved-from wrapper still owns"); }\n'
                         % (op[1], mk % (op[1], op[1]), op[1], op[1]))
            else:
                # released to a raw pointer and wrapped again (what a C++ caller storing raw handles does)
                L.append('    { Obj* raw_ = Obj::make(%d).release(); %s o[%d].reset(raw_); }\n' % (op[1], mk % (op[1], op[1]), op[1]))
        elif k == "make_result":
            arm = "ok" if op[2] else "err"
            L.append('    { auto r_ = Obj::make_result(%d, %s); %s if (r_.is_ok() != %s) dv_log("Bad", "p%d", "wrong arm"); '
                     'o[%d] = std::move(*std::move(r_).%s()); }\n'
                     % (op[1], "true" if op[2] else "false", mk % (op[1], op[1]), "true" if op[2] else "false", op[1], op[1], arm))
        elif k == "make_opt":
            if op[2]:
                L.append('    o[%d] = Obj::make_opt(%d, true); %s if (!o[%d]) dv_log("Bad", "p%d", "null for Some");\n' % (op[1], op[1], mk % (op[1], op[1]), op[1], op[1]))
            else:
                L.append('    if (Obj::make_opt(%d, false)) { dv_log("Bad", "p%d", "non-null for None"); }\n' % (op[1], op[1]))
        elif k == "get":
            L.append('    if (o[%d]->get() != %d) dv_log("Bad", "p%d", "wrong id"); dv_log("BorrowCall", "p%d", "");\n' % (op[1], op[1], op[1], op[1]))
        elif k == "tok":
            L.append('    { std::unique_ptr<Tok> t_ = Obj::make_tok(%d); %s t_.reset(); dv_log("Destroy", "p%d", ""); }\n' % (op[1], mk % (op[1], op[1]), op[1]))
        elif k == "destroy":
            how = rng.randrange(3)
            stmt = ["o[%d].reset();", "o[%d] = nullptr;", "{ std::unique_ptr<Obj> t_ = std::move(o[%d]); }"][how] % op[1]
            L.append('    %s dv_log("Destroy", "p%d", "");\n' % (stmt, op[1]))
        elif k == "take_slice":
            n = op[1]
            L.append("    { uint8_t* b = %s; %s if (Obj::take_slice(diplomat::span<uint8_t>(b, %d)) != %d) dv_log(\"Bad\", \"slice\", \"len\"); }\n"
                     % ("diplomat_alloc(%d, 1)" % n if n else "nullptr", "memset(b, 7, %d);" % n if n else "", n, n))
        elif k == "take_str":
            n = op[1]
            L.append("    { char* b = %s; %s auto r_ = Obj::take_str(std::string_view(b, %d)); if (!r_.is_ok() || *std::move(r_).ok() != %d) dv_log(\"Bad\", \"str\", \"len\"); }\n"
                     % ("reinterpret_cast<char*>(diplomat_alloc(%d, 1))" % n if n else "nullptr", "memset(b, 'a', %d);" % n if n else "", n, n))
        elif k == "take_holder":
            n, mode = op[1], op[2]
            alloc = "uint8_t* b = %s; %s" % ("diplomat_alloc(%d, 1)" % n if n else "nullptr", "memset(b, 1, %d);" % n if n else "")
            if mode == "plain":
                L.append("    { %s Holder h{diplomat::span<uint8_t>(b, %d), 2}; if (Obj::take_holder(h) != %d) dv_log(\"Bad\", \"holder\", \"len\"); }\n" % (alloc, n, n + 2))
            elif mode == "some":
                L.append("    { %s std::optional<Holder> h(Holder{diplomat::span<uint8_t>(b, %d), 2}); if (Obj::take_opt_holder(h) != %d) dv_log(\"Bad\", \"holder\", \"some\"); }\n" % (alloc, n, n))
            else:
                L.append("    { if (Obj::take_opt_holder(std::nullopt) != 99) dv_log(\"Bad\", \"holder\", \"none\"); }\n")
        elif k == "describe":
            chunk = "obj%d;" % op[1]
            L.append('    { std::string s_ = o[%d]->describe(%d); if (s_ != std::string("%s")) dv_log("Bad", "write", "content"); dv_log("BorrowCall", "p%d", ""); }\n'
                     % (op[1], op[3], chunk * op[3], op[1]))
        elif k == "describe_fixed":
            # the C++ API has no fixed buffers: the same text through std::string, twice
            chunk = "obj%d;" % op[1]
            L.append('    { std::string s_ = o[%d]->describe(%d); std::string s2_ = o[%d]->describe(%d); if (s_ != std::string("%s") || s2_ != s_) dv_log("Bad", "write", "content"); '
                     'dv_log("BorrowCall", "p%d", ""); }\n' % (op[1], op[2], op[1], op[2], chunk * op[2], op[1]))
        elif k == "alloc_free":
            L.append("    { uint8_t* b = diplomat_alloc(%d, %d); if (!b || ((uintptr_t)b %% %d)) dv_log(\"Bad\", \"alloc\", \"null or misaligned\"); "
                     "%s diplomat_free(b, %d, %d); }\n" % (op[1], op[2], op[2], ("memset(b, 3, %d);" % op[1]) if op[1] else "", op[1], op[2]))
        elif k == "peek_opt":
            L.append("    if (Obj::peek_opt(%s) != %d) dv_log(\"Bad\", \"peek\", \"value\");\n" % (("o[%d].get()" % op[1], op[1]) if op[1] else ("nullptr", 0)))
        elif k == "call_cb":
            # the callable owns a move-only state object: the binding moves it to the heap and must destroy it exactly once
            L.append("    { int before = cb_drops; auto st_ = std::make_shared<CbState>(&cb_drops); "
                     "std::function<uint8_t(uint8_t)> f_ = [st_](uint8_t x) { (void)st_; return (uint8_t)(x + 1); }; st_.reset(); "
                     "Obj::call_cb(std::move(f_), %d); if (cb_drops != before + 1) dv_log(\"Bad\", \"cb\", \"callable not destroyed exactly once\"); }\n" % op[1])
    L.append("    return 0;\n}\n")
    return "".join(L)


def run_leg(rep, tier):
    wd = rep.wd
    rng = random.Random(lib.seed() + 7)
    b = lib.build_bridge("c03b", BRIDGE)
    if not b["ok"]:
        rep.violation({"leg": "generated-api", "what": "bridge does not build"}, {"stderr": b["stderr"][-3000:]})
        return
    out = os.path.join(wd, "c03b_c")
    t = lib.run_tool("c", os.path.join(b["dir"], "src", "lib.rs"), out)
    if t["rc"] != 0:
        raise lib.ToolError("C backend failed on the C03b bridge: " + t["stderr"][-800:])
    hdr = open(os.path.join(out, "Obj.h")).read()
    outpp = os.path.join(wd, "c03b_cpp")
    t = lib.run_tool("cpp", os.path.join(b["dir"], "src", "lib.rs"), outpp)
    if t["rc"] != 0:
        raise lib.ToolError("C++ backend failed on the C03b bridge: " + t["stderr"][-800:])
    runs = 12 if tier == "quick" else 150
    all_events = []
    def execute(lang, i, ops, src):
        """compile + run one driver under the sanitizers; returns its events (None when it did not compile)"""
        ext, cc0, inc = (("c", ["gcc", "-std=c11"], out) if lang == "c" else ("cpp", ["g++", "-std=c++17"], outpp))
        dp = os.path.join(wd, "c03b_%d.%s" % (i, ext))
        open(dp, "w").write(src)
        exe = os.path.join(wd, "c03b_%d_%s" % (i, lang))
        cc = lib.sh(cc0 + ["-g", "-fsanitize=address,undefined", "-fno-omit-frame-pointer", "-I", inc, dp, b["staticlib"],
                           "-lpthread", "-ldl", "-lm", "-o", exe], timeout=600)
        if cc.returncode != 0:
            rep.violation({"leg": "generated-api", "api": lang, "what": "driver does not compile"}, {"stderr": cc.stderr[:2500], "driver": dp})
            return None
        p = lib.sh([exe], timeout=60, env={"ASAN_OPTIONS": "detect_leaks=1"})
        evs = [json.loads(l) for l in p.stdout.splitlines() if l.startswith("{")]
        if p.returncode != 0 or "ERROR: AddressSanitizer" in p.stderr or "LeakSanitizer" in p.stderr or "runtime error:" in p.stderr:
            kind = "leak" if "LeakSanitizer" in p.stderr else ("double-free/invalid access" if "AddressSanitizer" in p.stderr else "crash")
            rep.violation({"leg": "generated-api", "api": lang, "what": "sanitizer report", "kind": kind}, {"ops": ops, "stderr": p.stderr[-2500:], "driver": dp})
        for e in evs:
            if e["ev"] == "Bad":
                rep.violation({"leg": "generated-api", "api": lang, "what": e["v"], "on": e["f"]}, {"ops": ops, "driver": dp})
        return evs

    def to_trace(evs):
        """events -> Trace_Ownership vocabulary with cumulative drop counters"""
        all_events.append({"op": "Reset"})
        made, cur = [], {}
        for e in evs:
            if e["ev"] == "Drop":
                cur[e["f"]] = cur.get(e["f"], 0) + 1
                continue
            if e["ev"] in ("RustMake", "ReturnBox", "BorrowCall", "Destroy"):
                if e["ev"] == "RustMake":
                    made.append(e["f"])
                # the Rust Drop impl logs *inside* X_destroy, i.e. before our Destroy event: counters after the step include it
                all_events.append({"op": e["ev"], "p": e["f"], "drops": {m: cur.get(m, 0) for m in made}, "panic": False, "memerr": ""})
        all_events.append({"op": "End", "leak": "", "drops": {m: cur.get(m, 0) for m in made}})

    ncpp = 0
    for i in range(runs):
        ops = history(rng, rng.randrange(6, 26))
        if i == 0:
            # whatever the seed: one exactly-filled fixed buffer (the terminator lands on the last byte)
            # ... and write-outs long enough to make the C++ wrapper's std::string leave its in-object buffer (16+ bytes) and then
            # grow again on the heap (the grow callback hands Rust a pointer that must be the one AFTER the resize)
            ops = [("tok", 11), ("make", 12), ("describe_fixed", 12, 2, 0), ("describe", 12, 0, 5), ("describe", 12, 1, 40)] + [o for o in ops if not (len(o) > 1 and o[0] not in ("take_slice", "take_str", "call_cb", "alloc_free", "take_holder") and o[1] in (11, 12))] + [("destroy", 12)]
        evs = execute("c", i, ops, c_driver(ops))
        if evs is None:
            return
        to_trace(evs)
        # the same history through the C++ classes (quick: every third history; the C++ compile is the slow part)
        if tier != "quick" or i % 3 == 0:
            evs = execute("cpp", i, ops, cpp_driver(ops, random.Random(lib.seed() * 1000 + i)))
            if evs is None:
                return
            to_trace(evs)
            ncpp += 1
        rep.nontriv(json.dumps(ops))
    rep.extra["generated_api_histories_cpp"] = ncpp
    tr = os.path.join(wd, "c03b_trace.ndjson")
    lib.write_ndjson(tr, all_events)
    ok, r = lib.validate_trace("own", "Trace_Ownership", "trace.cfg", tr, heap="4g")
    rep.add_tlc("Trace_Ownership/generated-api", r)
    if not ok:
        rej = (r.printed.get("REJECTED") or [{}])[0]
        rep.violation({"leg": "generated-api", "what": "drop log is not a behaviour of Ownership", "op": (rej.get("event") or {}).get("op")},
                      {"rejected": rej, "trace": tr})
    rep.traces += runs
    rep.evaluations += len(all_events)
    rep.extra["generated_api_histories"] = runs
