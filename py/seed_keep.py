#!/usr/bin/env python3
"""seed_keep.py <ID> <name> <worktree> "<needs>" -- <check ids...>
Copies a confirmed seeded change from a scratch worktree into /verif/seeded/<name>/ (patch.diff, demo, meta.json),
applies it to /repo, runs the named checks (quick), reverts /repo, and records which checks caught it."""
import json, os, shutil, subprocess, sys
pid, name, wt, needs = sys.argv[1:5]
ids = sys.argv[6:]
dst = "/verif/seeded/%s" % name
shutil.rmtree(dst, ignore_errors=True)
os.makedirs(dst)
shutil.copy(os.path.join(wt, "seed_demo", "patch.diff"), os.path.join(dst, "patch.diff"))
demo = os.path.join(dst, "demo")
shutil.copytree(os.path.join(wt, "seed_demo"), demo, ignore=shutil.ignore_patterns("target", "patch.diff", "out*", "*.a", "*.o", "tmp*", "scratch*"))
r = subprocess.run(["git", "-C", "/repo", "apply", "--check", os.path.join(dst, "patch.diff")], capture_output=True, text=True)
if r.returncode != 0:
    print("patch does not apply to /repo:", r.stderr); sys.exit(2)
subprocess.run(["git", "-C", "/repo", "apply", os.path.join(dst, "patch.diff")], check=True)
results = {}
try:
    for i in ids:
        tier = "quick"
        if ":" in i:
            i, tier = i.split(":")
        p = subprocess.run(["./check", i, "--tier", tier], cwd="/verif", capture_output=True, text=True)
        nv = sum(1 for l in p.stdout.splitlines() if l.startswith("VIOLATION"))
        results["%s:%s" % (i, tier)] = {"rc": p.returncode, "violation_lines": nv}
        print(i, tier, "rc=%d" % p.returncode, "violations=%d" % nv)
        if p.returncode == 2:
            print(p.stderr[-1200:])
finally:
    subprocess.run(["git", "-C", "/repo", "checkout", "--", "."])
meta = {"property": pid, "needs_to_manifest": needs, "source": "independent sub-agent given only the property text and a scratch worktree",
        "confirmed_by_me": "demo fails with the patch and passes without it; cargo test --workspace passes with the patch",
        "checks_run_against_it": results, "detected_by": sorted(k for k, v in results.items() if v["rc"] == 1)}
json.dump(meta, open(os.path.join(dst, "meta.json"), "w"), indent=1)
print("kept", dst, "detected_by", meta["detected_by"])
