"""Observers: turn generated binding text into facts (symbol references, declarations)."""
import os, re

RUNTIME_PREFIX = ("diplomat_",)


def _files(root, pred):
    out = []
    for r, _, fs in os.walk(root):
        for f in sorted(fs):
            p = os.path.join(r, f)
            if pred(os.path.relpath(p, root)):
                out.append(p)
    return sorted(out)


def _keep(s):
    return not s.startswith(RUNTIME_PREFIX)


def symbol_refs(backend, outdir):
    """Set of native symbols the generated code of `backend` refers to."""
    syms = set()
    if backend == "c":
        for p in _files(outdir, lambda f: f.endswith(".h") and not f.endswith(".d.h") and "diplomat_runtime" not in f):
            for line in open(p):
                m = re.match(r'^[A-Za-z_][^;{}#]*?\b([A-Za-z_]\w*)\((.*)\);\s*$', line)
                if m and not line.startswith("typedef"):
                    syms.add(m.group(1))
    elif backend in ("cpp", "nanobind"):
        for p in _files(outdir, lambda f: f.endswith(".hpp") and not f.endswith(".d.hpp") and "diplomat_runtime" not in f):
            text = open(p).read()
            decl = set()
            for blk in re.findall(r'extern "C" \{(.*?)\n\s*\} // extern "C"', text, re.S):
                for m in re.finditer(r'\b([A-Za-z_]\w*)\(', blk):
                    if m.group(1) not in ("typedef", "struct"):
                        decl.add(m.group(1))
            calls = set(re.findall(r'capi::([A-Za-z_]\w*)\(', text))
            syms |= set(x for x in calls)
            syms |= set(x for x in decl if re.search(r'\b%s\(' % re.escape(x), text))
    elif backend in ("js", "demo_gen"):
        sub = os.path.join(outdir, "js") if backend == "demo_gen" else outdir
        for p in _files(sub, lambda f: f.endswith(".mjs") and "diplomat-" not in f):
            syms |= set(re.findall(r'(?<![\w-])wasm\.([A-Za-z_]\w*)\(', open(p).read()))
    elif backend == "dart":
        for p in _files(outdir, lambda f: f.endswith(".g.dart") and f != "lib.g.dart"):
            t = open(p).read()
            syms |= set(re.findall(r"symbol: '([^']+)'", t))
            syms |= set(re.findall(r"_DiplomatFfiUse\('([^']+)'\)", t))
    elif backend == "kotlin":
        for p in _files(outdir, lambda f: f.endswith(".kt") and not f.endswith("Lib.kt")):
            t = open(p).read()
            for blk in re.findall(r'interface \w+: Library \{(.*?)\n\}', t, re.S):
                syms |= set(re.findall(r'\bfun ([A-Za-z_]\w*)\(', blk))
            # ... and what the class bodies CALL through the JNA proxy (`lib.X(`): a call of something the interface does not declare
            # shows up as an extra referenced symbol
            syms |= set(re.findall(r'\blib\.([A-Za-z_]\w*)\(', t))
    else:
        raise ValueError(backend)
    return set(s for s in syms if _keep(s))


def read_tree(outdir):
    d = {}
    for r, _, fs in os.walk(outdir):
        for f in fs:
            p = os.path.join(r, f)
            d[os.path.relpath(p, outdir)] = open(p, "rb").read()
    return d
